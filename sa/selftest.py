"""Sensitivity suite (thorough tier): measures the checker, never pytype.

Each rules module may define VARIANTS: a list of dicts
  {"name", "rule", "file", "old", "new", "expect"}            (single edit) or
  {"name", "rule", "edits": [(file, old, new), ...], "expect"}
`expect` is "fire" (a VIOLATION of `rule` naming the edited construct must
appear), "silent" (benign twin: no violation, no analysis error) or "error"
(idiom outside the engine: ANALYSIS-ERROR, not a violation).

The edit is applied to an in-memory overlay of the consulted files (C++ files
are materialised in a temp dir outside /repo and /verif by sa.cxx and removed
afterwards); the variant is analysed statically, never run.  The outcome never
changes the exit code of the check.
"""
from __future__ import annotations

import importlib
import multiprocessing
import os
import sys

from sa import core


def _apply(ctx0, edits):
  overlay = {}
  for rel, old, new in edits:
    text = overlay.get(rel)
    if text is None:
      try:
        text = ctx0.read(rel)
      except core.AnalysisError:
        return None
    if text.count(old) != 1:
      return None
    overlay[rel] = text.replace(old, new)
  return overlay


def _apply_patch(ctx0, patch_rel):
  """Overlay obtained by applying a unified diff (seeded/<id>/patch.diff) to
  copies of the files it names, in a temp dir outside /repo and /verif."""
  import re
  import shutil
  import subprocess
  import tempfile
  path = os.path.join(core.VERIF, patch_rel)
  try:
    text = open(path).read()
  except OSError:
    return None
  files = sorted(set(re.findall(r"^\+\+\+ b/(\S+)", text, re.M)))
  tmp = tempfile.mkdtemp(prefix="verif-patch-")
  try:
    for rel in files:
      dst = os.path.join(tmp, rel)
      os.makedirs(os.path.dirname(dst), exist_ok=True)
      if ctx0.exists(rel):
        with open(dst, "w") as f:
          f.write(ctx0.read(rel))
    p = subprocess.run(["git", "apply", "--unsafe-paths", "--directory=" + tmp, path],
                       cwd="/", capture_output=True, text=True)
    if p.returncode != 0:
      p = subprocess.run(["patch", "-p1", "-s", "-i", path], cwd=tmp,
                         capture_output=True, text=True)
      if p.returncode != 0:
        return None
    overlay = {}
    for rel in files:
      with open(os.path.join(tmp, rel)) as f:
        overlay[rel] = f.read()
    return overlay
  finally:
    shutil.rmtree(tmp, ignore_errors=True)


def _run_one(args):
  prop, v = args
  ctx0 = core.Ctx()
  if "patch" in v:
    overlay = _apply_patch(ctx0, v["patch"])
  else:
    edits = v.get("edits") or [(v["file"], v["old"], v["new"])]
    overlay = _apply(ctx0, edits)
  if overlay is None:
    return {"name": v["name"], "rule": v["rule"], "expect": v["expect"],
            "outcome": "skipped", "ok": True,
            "detail": "edit anchor absent from the tree under test"}
  ctx = core.Ctx(overlay=overlay, tier="quick")
  try:
    errors, _ = core.run_rules(ctx, prop)
    viol, kn, good = core.decide(ctx, prop, errors)
  finally:
    cleanup = ctx._cache.get("cleanup")
    if cleanup:
      for fn in cleanup:
        fn()
  fired = [x for x in viol if x.rule == v["rule"]]
  other = [x for x in viol if x.rule != v["rule"]]
  if v["expect"] == "fire":
    ok = bool(fired)
  elif v["expect"] == "silent":
    ok = not viol and not errors
  else:
    ok = bool(errors) and not viol
  outcome = "fired" if viol else ("error" if errors else "silent")
  return {"name": v["name"], "rule": v["rule"], "expect": v["expect"],
          "outcome": outcome, "ok": ok,
          "detail": [f"{x.key}: {x.reason}"[:200] for x in (fired + other)[:3]]
          or [e[:200] for e in errors[:2]]}


def _reformat_twin(prop):
  """Benign twin applied to every property: every consulted .py file is
  re-rendered with ast.unparse (comments dropped, layout and quoting
  normalised, all line numbers shifted).  Verdicts must not change."""
  import ast
  base = core.Ctx()
  core.run_rules(base, prop)
  overlay = {}
  for rel in sorted(base.files_read):
    if rel.endswith(".py") and base.exists(rel):
      try:
        overlay[rel] = ast.unparse(ast.parse(base.read(rel))) + "\n"
      except SyntaxError:
        pass
  for fn in base._cache.get("cleanup", []):
    fn()
  ctx = core.Ctx(overlay=overlay)
  errors, _ = core.run_rules(ctx, prop)
  viol, kn, good = core.decide(ctx, prop, errors)
  for fn in ctx._cache.get("cleanup", []):
    fn()
  ok = not viol and not errors
  return {"name": "twin-reformat-every-consulted-file", "rule": "*", "expect": "silent",
          "outcome": "fired" if viol else ("error" if errors else "silent"), "ok": ok,
          "detail": [f"{x.key}: {x.reason}"[:200] for x in viol[:3]] or [e[:200] for e in errors[:2]],
          "files_reformatted": len(overlay)}


def run_suite(prop, jobs=16):
  variants = []
  rules_dir = os.path.join(core.VERIF, "rules")
  for f in sorted(os.listdir(rules_dir)):
    if f.endswith(".py") and f[:-3].split("_")[0] == prop.lower():
      mod = importlib.import_module(f"rules.{f[:-3]}")
      variants += list(getattr(mod, "VARIANTS", []))
  if not variants:
    r = _reformat_twin(prop)
    return {"variants": 1, "results": [r], "misses": [] if r["ok"] else [r]}
  work = [(prop, v) for v in variants]
  if len(work) > 2:
    with multiprocessing.get_context("fork").Pool(min(jobs, len(work))) as pool:
      results = pool.map(_run_one, work)
  else:
    results = [_run_one(w) for w in work]
  results.append(_reformat_twin(prop))
  for r in results:
    if not r["ok"]:
      print(f"SELFTEST-MISS rule={r['rule']} variant={r['name']} "
            f"expected={r['expect']} got={r['outcome']} {r['detail']}",
            file=sys.stderr)
  for r in results:
    if r["outcome"] == "skipped":
      # a variant whose anchor text is gone tests nothing: say so (does not
      # affect the exit code; the variant has to be re-anchored by hand)
      print(f"SELFTEST-STALE rule={r['rule']} variant={r['name']} "
            "(edit anchor absent from the tree under test)", file=sys.stderr)
  return {
      "variants": len(results),
      "must_fire": sum(r["expect"] == "fire" for r in results),
      "must_fire_fired": sum(r["expect"] == "fire" and r["ok"] for r in results),
      "twins": sum(r["expect"] != "fire" for r in results),
      "twins_ok": sum(r["expect"] != "fire" and r["ok"] for r in results),
      "skipped": sum(r["outcome"] == "skipped" for r in results),
      "misses": [r for r in results if not r["ok"]],
      "results": results,
  }
