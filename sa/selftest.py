"""Sensitivity suite (thorough tier): measures the checker, never pytype.

Each rules module may define VARIANTS: a list of dicts
  {"name", "rule", "file", "old", "new", "expect"}            (single edit) or
  {"name", "rule", "edits": [(file, old, new), ...], "expect"}
`expect` is "fire" (a VIOLATION of `rule` naming the edited construct must
appear), "silent" (benign twin: no violation, no analysis error) or "error"
(idiom outside the engine: ANALYSIS-ERROR, not a violation).

The edit is applied to an in-memory overlay of the consulted files (C++ files
are materialised in a temp dir outside /repo and /verif by sa.cxx and removed
afterwards); the variant is analysed statically, never run.  The outcome never
changes the exit code of the check.
"""
from __future__ import annotations

import importlib
import multiprocessing
import os
import sys

from sa import core


def _apply(ctx0, edits):
  overlay = {}
  for rel, old, new in edits:
    text = overlay.get(rel)
    if text is None:
      try:
        text = ctx0.read(rel)
      except core.AnalysisError:
        return None
    if text.count(old) != 1:
      return None
    overlay[rel] = text.replace(old, new)
  return overlay


def _run_one(args):
  prop, v = args
  edits = v.get("edits") or [(v["file"], v["old"], v["new"])]
  ctx0 = core.Ctx()
  overlay = _apply(ctx0, edits)
  if overlay is None:
    return {"name": v["name"], "rule": v["rule"], "expect": v["expect"],
            "outcome": "skipped", "ok": True,
            "detail": "edit anchor absent from the tree under test"}
  ctx = core.Ctx(overlay=overlay, tier="quick")
  try:
    errors, _ = core.run_rules(ctx, prop)
    viol, kn, good = core.decide(ctx, prop, errors)
  finally:
    cleanup = ctx._cache.get("cleanup")
    if cleanup:
      for fn in cleanup:
        fn()
  fired = [x for x in viol if x.rule == v["rule"]]
  other = [x for x in viol if x.rule != v["rule"]]
  if v["expect"] == "fire":
    ok = bool(fired)
  elif v["expect"] == "silent":
    ok = not viol and not errors
  else:
    ok = bool(errors) and not viol
  outcome = "fired" if viol else ("error" if errors else "silent")
  return {"name": v["name"], "rule": v["rule"], "expect": v["expect"],
          "outcome": outcome, "ok": ok,
          "detail": [f"{x.key}: {x.reason}"[:200] for x in (fired + other)[:3]]
          or [e[:200] for e in errors[:2]]}


def run_suite(prop, jobs=16):
  mod = importlib.import_module(f"rules.{prop.lower()}")
  variants = getattr(mod, "VARIANTS", [])
  if not variants:
    return {"variants": 0}
  work = [(prop, v) for v in variants]
  if len(work) > 2:
    with multiprocessing.get_context("fork").Pool(min(jobs, len(work))) as pool:
      results = pool.map(_run_one, work)
  else:
    results = [_run_one(w) for w in work]
  for r in results:
    if not r["ok"]:
      print(f"SELFTEST-MISS rule={r['rule']} variant={r['name']} "
            f"expected={r['expect']} got={r['outcome']} {r['detail']}",
            file=sys.stderr)
  return {
      "variants": len(results),
      "must_fire": sum(r["expect"] == "fire" for r in results),
      "must_fire_fired": sum(r["expect"] == "fire" and r["ok"] for r in results),
      "twins": sum(r["expect"] != "fire" for r in results),
      "twins_ok": sum(r["expect"] != "fire" and r["ok"] for r in results),
      "skipped": sum(r["outcome"] == "skipped" for r in results),
      "misses": [r for r in results if not r["ok"]],
      "results": results,
  }
