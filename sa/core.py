"""Verdict protocol shared by all checks.

A *rule* is a function `rule(ctx)` registered with `@rule("R8.3", prop="C08",
floor=N)`.  While it runs it reports *obligations* (rule instances):

    ctx.ok(construct, file, line, facts)            # instance holds
    ctx.bad(construct, file, line, reason, facts)   # instance present and wrong

and raises `AnalysisError` when an anchor it needs has vanished or an idiom is
outside what the engine understands.  After the rule returns the instance count
is compared with `floor` (instances confirmed by hand on the reference tree);
fewer instances => the rule no longer knows what it is looking at => exit 2.

Exit codes: 0 every instance holds (known findings allowed), 1 a violation not
listed in known_findings.json, 2 analysis error (never a pass, never a
violation).
"""
from __future__ import annotations

import dataclasses
import json
import os
import sys
import time
import traceback
from typing import Any, Callable

VERIF = os.path.dirname(os.path.dirname(os.path.abspath(__file__)))
REPO = os.environ.get("VERIF_REPO", "/repo")


class AnalysisError(Exception):
  """The analysis cannot decide: anchor missing / unknown idiom / tool failure."""


@dataclasses.dataclass
class Instance:
  rule: str
  construct: str
  file: str
  line: int
  holds: bool
  reason: str
  facts: Any

  @property
  def key(self):
    return f"{self.rule}:{self.construct}"

  def to_json(self):
    return dataclasses.asdict(self) | {"key": self.key}


@dataclasses.dataclass
class RuleSpec:
  rid: str
  prop: str
  floor: int
  fn: Callable
  tier: str  # "quick": run in both tiers; "thorough": thorough only
  doc: str


RULES: dict[str, RuleSpec] = {}


def rule(rid, prop, floor=1, tier="quick"):
  def deco(fn):
    key = f"{prop}/{rid}"
    assert key not in RULES, key
    RULES[key] = RuleSpec(rid, prop, floor, fn, tier, (fn.__doc__ or "").strip())
    return fn
  return deco


class Ctx:
  """One analysis run over one source tree (the repo, optionally overlaid)."""

  def __init__(self, repo=REPO, overlay=None, tier="quick"):
    self.repo = repo
    self.overlay = dict(overlay or {})  # relpath -> source text
    self.tier = tier
    self.instances: list[Instance] = []
    self._cur: RuleSpec | None = None
    self._cache: dict = {}
    self.files_read: set[str] = set()
    self.notes: list[str] = []

  # -- file access ---------------------------------------------------------
  def path(self, rel):
    return os.path.join(self.repo, rel)

  def exists(self, rel):
    return rel in self.overlay or os.path.exists(self.path(rel))

  def read(self, rel):
    self.files_read.add(rel)
    if rel in self.overlay:
      return self.overlay[rel]
    try:
      with open(self.path(rel), encoding="utf-8") as f:
        return f.read()
    except OSError as e:
      raise AnalysisError(f"anchor file missing: {rel}: {e}") from e

  def memo(self, key, fn):
    if key not in self._cache:
      self._cache[key] = fn()
    return self._cache[key]

  # -- reporting -----------------------------------------------------------
  def ok(self, construct, file="", line=0, facts=None):
    self.instances.append(
        Instance(self._cur.rid, construct, file, line, True, "", facts))

  def bad(self, construct, file, line, reason, facts=None):
    self.instances.append(
        Instance(self._cur.rid, construct, file, line, False, reason, facts))

  def check(self, cond, construct, file, line, reason, facts=None):
    if cond:
      self.ok(construct, file, line, facts)
    else:
      self.bad(construct, file, line, reason, facts)
    return cond

  def note(self, text):
    self.notes.append(text)


def load_known():
  with open(os.path.join(VERIF, "known_findings.json")) as f:
    data = json.load(f)
  return {e["key"]: e for e in data.get("known", [])}


def run_rules(ctx: Ctx, prop: str, only=None):
  """Runs the rules of `prop`; returns (errors, per-rule counts)."""
  errors = []
  counts = {}
  for key, spec in RULES.items():
    if spec.prop != prop:
      continue
    if only and spec.rid not in only:
      continue
    if spec.tier == "thorough" and ctx.tier != "thorough":
      continue
    ctx._cur = spec
    before = len(ctx.instances)
    try:
      spec.fn(ctx)
    except AnalysisError as e:
      errors.append(f"rule={spec.rid} {e}")
    except RecursionError as e:
      errors.append(f"rule={spec.rid} RecursionError {e}")
    except Exception as e:  # pylint: disable=broad-except
      tb = traceback.format_exc(limit=6)
      errors.append(f"rule={spec.rid} internal {type(e).__name__}: {e}\n{tb}")
    n = len(ctx.instances) - before
    counts[spec.rid] = n
    if n < spec.floor and not any(x.startswith(f"rule={spec.rid} ") for x in errors):
      errors.append(
          f"rule={spec.rid} instance count {n} below confirmed floor "
          f"{spec.floor}: the rule no longer matches the code it was written for")
  ctx._cur = None
  return errors, counts


def decide(ctx: Ctx, prop: str, errors):
  """Splits instances into (violations, known, holding)."""
  known = load_known()
  viol, kn, good = [], [], []
  for inst in ctx.instances:
    if inst.holds:
      good.append(inst)
    elif inst.key in known and known[inst.key]["property"] == prop:
      kn.append(inst)
    else:
      viol.append(inst)
  return viol, kn, good


def write_evidence(prop, tier, ctx, viol, kn, good, errors, counts, wall,
                   explanation, assumptions, extra=None):
  os.makedirs(os.path.join(VERIF, "evidence"), exist_ok=True)
  samples = []
  seen_rules = {}
  for inst in ctx.instances:
    k = seen_rules.setdefault(inst.rule, 0)
    if k < 4 or not inst.holds:
      samples.append(inst.to_json())
      seen_rules[inst.rule] = k + 1
  distinct = len({i.key for i in ctx.instances if i.facts not in (None, {}, [], "")})
  cov = {
      "explanation": explanation,
      "obligations": len(ctx.instances),
      "discharged": len(good),
      "known_findings": [i.key for i in kn],
      "evaluations": len(ctx.instances),
      "distinct_nontrivial": distinct,
      "rule": "one evaluation = one rule instance (named construct x rule) "
              "extracted from the current source; non-trivial = distinct "
              "rule:construct key with non-empty extracted facts",
      "rule_instance_counts": counts,
      "rule_floors": {s.rid: s.floor for s in RULES.values() if s.prop == prop},
      "samples": samples[:80],
      "files_analysed": sorted(ctx.files_read),
      "analysis_errors": errors,
      "notes": ctx.notes,
      "exhaustive": True,
  }
  if extra:
    cov.update(extra)
  ev = {
      "property_id": prop,
      "tier": tier,
      "seed": int(os.environ.get("VERIF_SEED", "0") or 0),
      "level": "other",
      "coverage": cov,
      "assumptions": assumptions,
      "wall_s": round(wall, 3),
      "violations": len(viol),
  }
  path = os.path.join(VERIF, "evidence", f"{prop}.json")
  tmp = path + ".tmp"
  with open(tmp, "w") as f:
    json.dump(ev, f, indent=1, default=str)
  os.replace(tmp, path)
  return path


def write_replays(prop, viol):
  d = os.path.join(VERIF, "evidence", f"{prop}.violations")
  os.makedirs(d, exist_ok=True)
  for name in os.listdir(d):
    os.unlink(os.path.join(d, name))
  paths = []
  for n, inst in enumerate(viol):
    p = os.path.join(d, f"{n}.json")
    with open(p, "w") as f:
      json.dump({"property": prop} | inst.to_json(), f, indent=1, default=str)
    paths.append(p)
  return paths
