"""E1: Python module index over `ast` (nothing from /repo is imported)."""
from __future__ import annotations

import ast
import os

from sa.core import AnalysisError


def dotted(node):
  """a.b.c for Name/Attribute chains, else None."""
  parts = []
  while isinstance(node, ast.Attribute):
    parts.append(node.attr)
    node = node.value
  if isinstance(node, ast.Name):
    parts.append(node.id)
    return ".".join(reversed(parts))
  return None


def src(node):
  try:
    return ast.unparse(node)
  except Exception:  # pylint: disable=broad-except
    return f"<{type(node).__name__}>"


class PyModule:
  """One parsed module with cheap lookups."""

  def __init__(self, rel, text):
    self.rel = rel
    self.text = text
    try:
      self.tree = ast.parse(text, filename=rel, type_comments=False)
    except SyntaxError as e:
      raise AnalysisError(f"{rel} does not parse: {e}") from e
    self.parent = {}
    for n in ast.walk(self.tree):
      for c in ast.iter_child_nodes(n):
        self.parent[c] = n
    self.classes = {}
    self.functions = {}
    self.assigns = {}   # top-level name -> value node (last assignment)
    self.imports = {}   # alias -> dotted module / module.name
    self._index_body(self.tree.body)

  def _index_body(self, body):
    for st in body:
      if isinstance(st, ast.ClassDef):
        self.classes[st.name] = st
      elif isinstance(st, (ast.FunctionDef, ast.AsyncFunctionDef)):
        self.functions[st.name] = st
      elif isinstance(st, ast.Assign):
        for t in st.targets:
          if isinstance(t, ast.Name):
            self.assigns[t.id] = st.value
          elif isinstance(t, ast.Tuple) and isinstance(st.value, ast.Tuple) \
              and len(t.elts) == len(st.value.elts):
            for a, b in zip(t.elts, st.value.elts):
              if isinstance(a, ast.Name):
                self.assigns[a.id] = b
      elif isinstance(st, ast.AnnAssign) and isinstance(st.target, ast.Name) \
          and st.value is not None:
        self.assigns[st.target.id] = st.value
      elif isinstance(st, ast.Import):
        for a in st.names:
          self.imports[a.asname or a.name.split(".")[0]] = (
              a.name if a.asname else a.name.split(".")[0])
      elif isinstance(st, ast.ImportFrom):
        for a in st.names:
          base = ("." * st.level) + (st.module or "")
          self.imports[a.asname or a.name] = f"{base}.{a.name}" if base else a.name
      elif isinstance(st, (ast.If, ast.Try)):
        # top-level conditional definitions (TYPE_CHECKING, version switches)
        for sub in ast.iter_child_nodes(st):
          if isinstance(sub, ast.stmt):
            self._index_body([sub])
          elif isinstance(sub, ast.ExceptHandler):
            self._index_body(sub.body)

  # -- lookups -------------------------------------------------------------
  def cls(self, name) -> ast.ClassDef:
    if name not in self.classes:
      raise AnalysisError(f"anchor class {name} not found in {self.rel}")
    return self.classes[name]

  def methods(self, clsname):
    out = {}
    for st in self.cls(clsname).body:
      if isinstance(st, (ast.FunctionDef, ast.AsyncFunctionDef)):
        out.setdefault(st.name, st)
        out[st.name] = st  # last definition wins, as at run time
    return out

  def func(self, qual) -> ast.FunctionDef:
    """`name` or `Class.method` (or Class.Inner.method / func.inner)."""
    parts = qual.split(".")
    scope = self.tree.body
    node = None
    for i, p in enumerate(parts):
      found = None
      for st in scope:
        if isinstance(st, (ast.ClassDef, ast.FunctionDef, ast.AsyncFunctionDef)) \
            and st.name == p:
          found = st
      if found is None:
        # also look inside top-level if/try
        for st in scope:
          if isinstance(st, (ast.If, ast.Try)):
            for sub in ast.walk(st):
              if isinstance(sub, (ast.ClassDef, ast.FunctionDef,
                                  ast.AsyncFunctionDef)) and sub.name == p:
                found = sub
                break
      if found is None:
        raise AnalysisError(f"anchor {qual} not found in {self.rel}")
      node = found
      scope = found.body
    if not isinstance(node, (ast.FunctionDef, ast.AsyncFunctionDef)):
      raise AnalysisError(f"anchor {qual} in {self.rel} is not a function")
    return node

  def has_func(self, qual):
    try:
      self.func(qual)
      return True
    except AnalysisError:
      return False

  def const(self, name):
    if name not in self.assigns:
      raise AnalysisError(f"anchor constant {name} not found in {self.rel}")
    return self.assigns[name]

  def class_attr(self, clsname, attr):
    val = None
    for st in self.cls(clsname).body:
      if isinstance(st, ast.Assign):
        for t in st.targets:
          if isinstance(t, ast.Name) and t.id == attr:
            val = st.value
      elif isinstance(st, ast.AnnAssign) and isinstance(st.target, ast.Name) \
          and st.target.id == attr and st.value is not None:
        val = st.value
    return val

  def enclosing_function(self, node):
    while node in self.parent:
      node = self.parent[node]
      if isinstance(node, (ast.FunctionDef, ast.AsyncFunctionDef, ast.Lambda)):
        return node
    return None

  def enclosing_stmt(self, node):
    while node is not None and not isinstance(node, ast.stmt):
      node = self.parent.get(node)
    return node

  def loc(self, node):
    return self.rel, getattr(node, "lineno", 0)


def calls_in(node, name=None, suffix=None):
  """All ast.Call under node whose dotted callee equals name / ends with suffix."""
  out = []
  for n in ast.walk(node):
    if isinstance(n, ast.Call):
      d = dotted(n.func)
      if d is None and isinstance(n.func, ast.Attribute):
        d = "?." + n.func.attr
      if name is not None and d != name:
        continue
      if suffix is not None and not (d or "").split(".")[-1] == suffix:
        continue
      out.append(n)
  return out


def walk_no_nested(node):
  """ast.walk that does not enter nested function/class/lambda bodies."""
  todo = list(ast.iter_child_nodes(node))
  while todo:
    n = todo.pop()
    yield n
    if isinstance(n, (ast.FunctionDef, ast.AsyncFunctionDef, ast.ClassDef,
                      ast.Lambda)):
      continue
    todo.extend(ast.iter_child_nodes(n))


def kwarg(call, name):
  for k in call.keywords:
    if k.arg == name:
      return k.value
  return None


def arg(call, pos, name=None):
  if pos is not None and len(call.args) > pos and not any(
      isinstance(a, ast.Starred) for a in call.args[:pos + 1]):
    return call.args[pos]
  if name:
    return kwarg(call, name)
  return None


def get_module(ctx, rel) -> PyModule:
  return ctx.memo(("py", rel), lambda: PyModule(rel, ctx.read(rel)))


def all_py_files(ctx, sub="pytype"):
  root = os.path.join(ctx.repo, sub)
  out = []
  for dp, dn, fn in os.walk(root):
    dn[:] = [d for d in dn if d not in ("test_data", "typeshed", "__pycache__")]
    for f in fn:
      if f.endswith(".py"):
        out.append(os.path.relpath(os.path.join(dp, f), ctx.repo))
  for rel in ctx.overlay:
    if rel.endswith(".py") and rel.startswith(sub) and rel not in out:
      out.append(rel)
  return sorted(out)


# -- constant folding (E4) --------------------------------------------------

class Unfoldable(Exception):
  pass


def fold(node, env=None, mod: PyModule | None = None, depth=0):
  """Evaluates a literal-ish expression to a Python value.

  Supports constants, tuple/list/set/dict literals, names bound at module top
  level (through `mod`) or in `env`, `|` `+` `-` `&` `<<` on ints/sets/tuples,
  frozenset(...)/set(...)/tuple(...)/list(...)/dict(...) of foldables,
  X.union(Y), f-strings of foldables.  Raises Unfoldable otherwise.
  """
  if depth > 40:
    raise Unfoldable("depth")
  env = env or {}
  f = lambda n: fold(n, env, mod, depth + 1)
  if isinstance(node, ast.Constant):
    return node.value
  if isinstance(node, ast.Tuple):
    return tuple(_elts(node.elts, f))
  if isinstance(node, ast.List):
    return list(_elts(node.elts, f))
  if isinstance(node, ast.Set):
    return set(_elts(node.elts, f))
  if isinstance(node, ast.Dict):
    out = {}
    for k, v in zip(node.keys, node.values):
      if k is None:
        out.update(f(v))
      else:
        out[f(k)] = f(v)
    return out
  if isinstance(node, ast.Name):
    if node.id in env:
      return env[node.id]
    if mod is not None and node.id in mod.assigns:
      return fold(mod.assigns[node.id], env, mod, depth + 1)
    raise Unfoldable(f"name {node.id}")
  if isinstance(node, ast.UnaryOp) and isinstance(node.op, (ast.USub, ast.Invert, ast.Not)):
    v = f(node.operand)
    return {ast.USub: lambda x: -x, ast.Invert: lambda x: ~x,
            ast.Not: lambda x: not x}[type(node.op)](v)
  if isinstance(node, ast.BinOp):
    l, r = f(node.left), f(node.right)
    ops = {ast.BitOr: lambda a, b: a | b, ast.Add: lambda a, b: a + b,
           ast.Sub: lambda a, b: a - b, ast.BitAnd: lambda a, b: a & b,
           ast.LShift: lambda a, b: a << b, ast.Mult: lambda a, b: a * b,
           ast.Mod: lambda a, b: a % b}
    if type(node.op) in ops:
      try:
        return ops[type(node.op)](l, r)
      except Exception as e:  # pylint: disable=broad-except
        raise Unfoldable(str(e)) from e
  if isinstance(node, ast.JoinedStr):
    out = ""
    for v in node.values:
      if isinstance(v, ast.Constant):
        out += str(v.value)
      elif isinstance(v, ast.FormattedValue) and v.format_spec is None:
        out += str(f(v.value))
      else:
        raise Unfoldable("fstring")
    return out
  if isinstance(node, ast.Call):
    d = dotted(node.func)
    if d in ("frozenset", "set", "tuple", "list", "dict", "sorted") and not node.keywords:
      if not node.args:
        return {"frozenset": frozenset, "set": set, "tuple": tuple,
                "list": list, "dict": dict, "sorted": list}[d]()
      if len(node.args) == 1:
        v = f(node.args[0])
        return {"frozenset": frozenset, "set": set, "tuple": tuple,
                "list": list, "dict": dict, "sorted": sorted}[d](v)
    if isinstance(node.func, ast.Attribute) and node.func.attr == "union" \
        and not node.keywords:
      base = f(node.func.value)
      for a in node.args:
        base = base | type(base)(f(a))
      return base
  raise Unfoldable(type(node).__name__)


def _elts(elts, f):
  for e in elts:
    if isinstance(e, ast.Starred):
      yield from f(e.value)
    else:
      yield f(e)


def try_fold(node, env=None, mod=None, default=None):
  try:
    return fold(node, env, mod)
  except Unfoldable:
    return default
