"""E6: C++ index over clang's type-resolved JSON AST (clang++ -fsyntax-only).

Nothing is compiled to code or run: clang parses and type-checks the TU with
the real include flags and dumps its AST; callees, overloads and fields are
resolved by the compiler (decl ids), not by text.
"""
from __future__ import annotations

import hashlib
import json
import os
import shutil
import subprocess
import sys
import sysconfig
import tempfile

from sa.core import AnalysisError, VERIF

TG = "pytype/typegraph"
NS = "devtools_python_typegraph"
TUS = ["typegraph.cc", "solver.cc", "reachable.cc", "cfg.cc"]
FN_KINDS = ("CXXMethodDecl", "FunctionDecl", "CXXConstructorDecl",
            "CXXDestructorDecl", "CXXConversionDecl")
REC_KINDS = ("CXXRecordDecl", "ClassTemplateSpecializationDecl")
TRANSPARENT = ("ImplicitCastExpr", "ParenExpr", "ExprWithCleanups",
               "MaterializeTemporaryExpr", "CXXBindTemporaryExpr",
               "CXXFunctionalCastExpr", "CStyleCastExpr", "CXXStaticCastExpr",
               "CXXConstCastExpr", "ConstantExpr", "FullExpr",
               "CXXReinterpretCastExpr")
MUTATORS = {"push_back", "emplace_back", "emplace", "emplace_hint", "insert",
            "insert_or_assign", "try_emplace", "erase", "clear", "pop_back",
            "resize", "reset", "swap", "assign", "push", "pop", "release",
            "reserve", "shrink_to_fit", "merge", "extract", "push_front",
            "pop_front", "remove", "sort", "reverse", "unique"}
# member calls that only give a view into the container they are called on
VIEWS = {"get", "data", "at", "back", "front", "begin", "end", "find", "top",
         "operator->", "operator*", "operator[]", "value", "second", "first",
         "cbegin", "cend", "rbegin", "rend"}


def _clang():
  path = shutil.which("clang++") or shutil.which("clang++-14")
  if not path:
    raise AnalysisError("clang++ not found")
  return path


def clang_flags(extra_inc=()):
  try:
    import pybind11  # pylint: disable=import-outside-toplevel
    pb = pybind11.get_include()
  except Exception as e:  # pylint: disable=broad-except
    raise AnalysisError(f"pybind11 headers not found: {e}") from e
  pyinc = sysconfig.get_paths()["include"]
  if not os.path.exists(os.path.join(pyinc, "Python.h")):
    raise AnalysisError(f"Python.h not found under {pyinc}")
  flags = ["-std=c++17", "-fsyntax-only"]
  for i in extra_inc:
    flags += ["-I", i]
  flags += ["-I", pyinc, "-I", pb]
  return flags


def _materialise(ctx):
  """Returns the directory holding the typegraph sources to analyse.

  Without C++ overlay this is /repo itself; with an overlay (sensitivity
  suite) the typegraph directory is copied to a temp dir outside /repo and
  /verif, the edits applied, and a cleanup registered.
  """
  cxx_overlay = {k: v for k, v in ctx.overlay.items()
                 if k.startswith(TG + "/") and k.endswith((".cc", ".h"))}
  if not cxx_overlay:
    return ctx.repo

  def make():
    tmp = tempfile.mkdtemp(prefix="verif-cxx-")
    dst = os.path.join(tmp, TG)
    os.makedirs(dst)
    srcdir = os.path.join(ctx.repo, TG)
    for name in os.listdir(srcdir):
      if name.endswith((".cc", ".h")):
        shutil.copy(os.path.join(srcdir, name), os.path.join(dst, name))
    for rel, text in cxx_overlay.items():
      with open(os.path.join(tmp, rel), "w") as f:
        f.write(text)
    ctx._cache.setdefault("cleanup", []).append(
        lambda: shutil.rmtree(tmp, ignore_errors=True))
    return tmp
  return ctx.memo(("cxxroot",), make)


def _source_digest(root, tu):
  """Digest of the TU and of every header it can include."""
  h = hashlib.sha256()
  d = os.path.join(root, TG)
  try:
    names = sorted(n for n in os.listdir(d) if n.endswith(".h") or n == tu)
  except OSError as e:
    raise AnalysisError(f"typegraph sources missing: {e}") from e
  for n in names:
    h.update(n.encode())
    with open(os.path.join(d, n), "rb") as f:
      h.update(f.read())
  return h.hexdigest()


def _clang_version():
  try:
    return subprocess.run([_clang(), "--version"], capture_output=True,
                          text=True, timeout=300).stdout.split("\n")[0]
  except Exception as e:  # pylint: disable=broad-except
    raise AnalysisError(f"clang++ not runnable: {e}") from e


def dump_tu(ctx, name):
  """Parses one TU with clang and returns the list of top-level decl dicts."""
  root = _materialise(ctx)
  path = os.path.join(root, TG, name)
  for f in (path,):
    ctx.files_read.add(f"{TG}/{name}")
  if not os.path.exists(path):
    raise AnalysisError(f"anchor file missing: {TG}/{name}")
  flags = clang_flags([root, os.path.join(root, TG)])
  wrap = name == "cfg.cc"
  key = hashlib.sha256(json.dumps(
      [_source_digest(root, name), [f for f in flags if not f.startswith(root)],
       name, _clang_version(), "v4"]).encode()).hexdigest()[:32]
  cache_dir = os.path.join(VERIF, ".cache")
  cache = os.path.join(cache_dir, f"{name}.{key}.json")
  text = None
  if os.path.exists(cache):
    with open(cache) as f:
      text = f.read()
  if text is None:
    tmpdir = None
    src = path
    if wrap:
      # cfg.cc defines its Python-surface functions in the global namespace,
      # which -ast-dump-filter cannot select.  Re-include it inside a named
      # namespace after all of its own #includes (include guards make them
      # no-ops the second time): same tokens, same flags, same overload
      # resolution; only the qualified names gain a prefix.
      with open(path) as f:
        lines = f.read().split("\n")
      incs = [l for l in lines if l.startswith("#include")]
      tmpdir = tempfile.mkdtemp(prefix="verif-cxxwrap-")
      src = os.path.join(tmpdir, "cfg_wrap.cc")
      with open(src, "w") as f:
        f.write("\n".join(incs) + f"\nnamespace zz_{NS}_surface {{\n"
                f'#include "{path}"\n}}\n')
    cmd = [_clang()] + flags + ["-Xclang", "-ast-dump=json", "-Xclang",
                                f"-ast-dump-filter={NS}", src]
    try:
      p = subprocess.run(cmd, capture_output=True, text=True, timeout=900)
    finally:
      if tmpdir:
        shutil.rmtree(tmpdir, ignore_errors=True)
    if p.returncode != 0 or " error: " in p.stderr:
      raise AnalysisError(
          f"clang could not parse {TG}/{name}: {p.stderr.strip()[:400]}")
    text = p.stdout
    if True:
      try:
        os.makedirs(cache_dir, exist_ok=True)
        if root == ctx.repo:
          for old in os.listdir(cache_dir):
            if old.startswith(name + ".") and old.endswith(".json"):
              os.unlink(os.path.join(cache_dir, old))
        with open(cache + f".{os.getpid()}.tmp", "w") as f:
          f.write(text)
        os.replace(cache + f".{os.getpid()}.tmp", cache)
        # bound the cache (variant dumps accumulate): keep the newest 80 files
        files = sorted((os.path.join(cache_dir, x) for x in os.listdir(cache_dir)
                        if x.endswith(".json")), key=os.path.getmtime)
        for old in files[:-80]:
          os.unlink(old)
      except OSError:
        pass
  dec = json.JSONDecoder()
  objs = []
  i, n = 0, len(text)
  while i < n:
    while i < n and text[i] in " \n\r\t":
      i += 1
    if i >= n:
      break
    if text[i] != "{":
      j = text.find("\n", i)
      i = n if j < 0 else j + 1
      continue
    o, i = dec.raw_decode(text, i)
    objs.append(o)
  if not objs:
    raise AnalysisError(f"clang produced no AST for {TG}/{name}")
  return objs


# -- AST helpers -----------------------------------------------------------------

def inner(n):
  return n.get("inner", []) or []


def walk(n):
  todo = [n]
  while todo:
    x = todo.pop()
    yield x
    todo.extend(reversed(inner(x)))


def strip(e):
  while e is not None and e.get("kind") in TRANSPARENT and inner(e):
    e = inner(e)[-1] if e["kind"] in ("CXXFunctionalCastExpr",) else inner(e)[0]
  return e


def qual_type(n):
  return (n.get("type") or {}).get("qualType", "")


class Fn:
  """A function definition."""

  def __init__(self, node, qual, cls, file, line):
    self.node = node
    self.name = node.get("name", "")
    self.qual = qual              # Class::name
    self.cls = cls
    self.sig = qual_type(node)
    self.key = f"{qual}{self._params_txt()}"
    self.file = file
    self.line = line
    self.kind = node["kind"]
    self.params = [c for c in inner(node) if c.get("kind") == "ParmVarDecl"]
    body = [c for c in inner(node) if c.get("kind") == "CompoundStmt"]
    self.body = body[0] if body else None
    self.inits = [c for c in inner(node) if c.get("kind") == "CXXCtorInitializer"]

  def _params_txt(self):
    s = self.sig
    i = s.find("(")
    if i < 0:
      return "()"
    depth = 0
    for j in range(i, len(s)):
      if s[j] == "(":
        depth += 1
      elif s[j] == ")":
        depth -= 1
        if depth == 0:
          tail = s[j + 1:].strip()
          return s[i:j + 1].replace(NS + "::", "") + (" const" if tail.startswith("const") else "")
    return s[i:]

  def __repr__(self):
    return f"<Fn {self.key}>"


class CxxIndex:
  """Merged index over the typegraph translation units."""

  def __init__(self, ctx, tus=TUS):
    self.ctx = ctx
    self.fns = {}          # canonical decl id -> Fn (definition)
    self.canon = {}        # any function decl id -> canonical key string
    self.decl_qual = {}    # function decl id -> qualified name (decl or def)
    self.decl_sig = {}
    self.fields = {}       # field decl id -> "Rec::name"
    self.field_type = {}   # "Rec::name" -> qualType
    self.records = {}      # record id -> qualified name
    self.record_fields = {}  # "Rec" -> [field names]
    self.by_key = {}       # key string -> Fn
    self.vars = {}         # var decl id -> node
    self.tu_of = {}
    for tu in tus:
      objs = dump_tu(ctx, tu)
      self._fill_locs(objs)
      for o in objs:
        self._index(o, [], tu)
    if not self.by_key:
      raise AnalysisError("no C++ function definitions indexed")

  # clang omits file/line in a location when unchanged from the previous one
  def _fill_locs(self, objs):
    last = {"file": None, "line": None}

    def fix(loc):
      if not isinstance(loc, dict):
        return
      if "spellingLoc" in loc or "expansionLoc" in loc:
        fix(loc.get("spellingLoc"))
        fix(loc.get("expansionLoc"))
        exp = loc.get("expansionLoc") or {}
        loc.setdefault("file", exp.get("file"))
        loc.setdefault("line", exp.get("line"))
        return
      if not loc:
        return
      if "file" in loc:
        last["file"] = loc["file"]
      else:
        loc["file"] = last["file"]
      if "line" in loc:
        last["line"] = loc["line"]
      else:
        loc["line"] = last["line"]

    def rec(n):
      fix(n.get("loc"))
      r = n.get("range")
      if r:
        fix(r.get("begin"))
        fix(r.get("end"))
      for c in inner(n):
        rec(c)
    sys.setrecursionlimit(max(sys.getrecursionlimit(), 20000))
    for o in objs:
      rec(o)

  def _loc(self, n):
    loc = n.get("loc") or {}
    if not loc.get("file"):
      loc = (n.get("range") or {}).get("begin") or {}
    f = loc.get("file") or "?"
    if "/pytype/typegraph/" in f:
      f = TG + "/" + f.split("/pytype/typegraph/")[-1]
    return f, loc.get("line") or 0

  def _index(self, n, scope, tu):
    k = n.get("kind")
    if k == "NamespaceDecl":
      nm = n.get("name", "")
      sc = scope if nm in (NS, f"zz_{NS}_surface", "") else scope + [nm]
      for c in inner(n):
        self._index(c, sc, tu)
      return
    if k in REC_KINDS:
      q = "::".join(scope + [n.get("name", "")])
      self.records[n["id"]] = q
      if n.get("completeDefinition") or inner(n):
        for c in inner(n):
          if c.get("kind") == "FieldDecl":
            fq = f"{q}::{c.get('name')}"
            self.fields[c["id"]] = fq
            self.field_type[fq] = qual_type(c)
            self.record_fields.setdefault(q, []).append(c.get("name"))
        for c in inner(n):
          self._index(c, scope + [n.get("name", "")], tu)
      return
    if k in ("ClassTemplateDecl", "FunctionTemplateDecl", "LinkageSpecDecl"):
      for c in inner(n):
        self._index(c, scope, tu)
      return
    if k in FN_KINDS:
      cls = None
      pid = n.get("parentDeclContextId")
      if pid and pid in self.records:
        cls = self.records[pid]
      elif scope:
        cls = "::".join(scope) if k != "FunctionDecl" else None
      q = f"{cls}::{n.get('name')}" if cls else "::".join(scope + [n.get("name", "")])
      self.decl_qual[n["id"]] = q
      self.decl_sig[n["id"]] = qual_type(n)
      has_body = any(c.get("kind") == "CompoundStmt" for c in inner(n))
      if has_body:
        f, l = self._loc(n)
        fn = Fn(n, q, cls, f, l)
        # a definition seen from several TUs (inline in a header) is the same
        if fn.key not in self.by_key:
          self.by_key[fn.key] = fn
          self.tu_of[fn.key] = tu
        self.canon[n["id"]] = fn.key
      else:
        fn_key = q + Fn._params_txt(type("T", (), {"sig": qual_type(n)})())
        self.canon[n["id"]] = fn_key
      return
    if k == "VarDecl":
      self.vars[n["id"]] = n
    # other decl kinds: ignore

  # -- resolution -----------------------------------------------------------
  def fn(self, key):
    if key not in self.by_key:
      raise AnalysisError(f"anchor C++ function {key} not found")
    return self.by_key[key]

  def find(self, qual):
    """All definitions whose qualified name is `qual` (overloads)."""
    out = [f for f in self.by_key.values() if f.qual == qual]
    if not out:
      raise AnalysisError(f"anchor C++ function {qual} not found")
    return sorted(out, key=lambda f: f.key)

  def callee(self, call):
    """(key-or-name, Fn-or-None, method_name, object_expr) of a call node."""
    k = call.get("kind")
    kids = inner(call)
    if not kids:
      return None, None, None, None
    if k == "CXXMemberCallExpr":
      m = strip(kids[0])
      if m.get("kind") == "MemberExpr":
        did = m.get("referencedMemberDecl")
        key = self.canon.get(did)
        obj = inner(m)[0] if inner(m) else None
        return key or ("?::" + m.get("name", "")), self.by_key.get(key), \
            m.get("name", ""), obj
      return None, None, None, None
    if k in ("CallExpr", "CXXOperatorCallExpr"):
      c = strip(kids[0])
      if c and c.get("kind") == "DeclRefExpr":
        rd = c.get("referencedDecl") or {}
        did = rd.get("id")
        key = self.canon.get(did)
        nm = rd.get("name", "")
        obj = kids[1] if k == "CXXOperatorCallExpr" and len(kids) > 1 else None
        return key or ("?::" + nm), self.by_key.get(key), nm, obj
      if c and c.get("kind") == "MemberExpr":
        did = c.get("referencedMemberDecl")
        key = self.canon.get(did)
        return key or ("?::" + c.get("name", "")), self.by_key.get(key), \
            c.get("name", ""), (inner(c)[0] if inner(c) else None)
      if c and c.get("kind") in ("UnresolvedLookupExpr", "UnresolvedMemberExpr"):
        return "?::" + c.get("name", ""), None, c.get("name", ""), None
    if k == "CXXConstructExpr":
      return "ctor:" + qual_type(call), None, "ctor", None
    return None, None, None, None

  def field_of(self, e, aliases=None):
    """Root field ("Rec::name", base_expr) that expression `e` designates or
    views into; None when `e` is not rooted at a field."""
    aliases = aliases or {}
    seen = 0
    while e is not None and seen < 50:
      seen += 1
      e = strip(e)
      if e is None:
        return None
      k = e.get("kind")
      if k == "MemberExpr":
        did = e.get("referencedMemberDecl")
        if did in self.fields:
          base = inner(e)[0] if inner(e) else None
          # a field of a field (it->second, origin->where): report outermost
          deeper = self.field_of(base, aliases) if base is not None else None
          return deeper or (self.fields[did], base)
        e = inner(e)[0] if inner(e) else None
        continue
      if k == "ArraySubscriptExpr":
        e = inner(e)[0]
        continue
      if k == "UnaryOperator" and e.get("opcode") in ("*", "&"):
        e = inner(e)[0]
        continue
      if k == "CXXOperatorCallExpr":
        kids = inner(e)
        c = strip(kids[0])
        nm = (c.get("referencedDecl") or {}).get("name", "") if c else ""
        if nm in ("operator[]", "operator*", "operator->") and len(kids) > 1:
          e = kids[1]
          continue
        return None
      if k == "CXXMemberCallExpr":
        m = strip(inner(e)[0])
        if m.get("kind") == "MemberExpr" and m.get("name") in VIEWS:
          e = inner(m)[0] if inner(m) else None
          continue
        return None
      if k == "DeclRefExpr":
        did = (e.get("referencedDecl") or {}).get("id")
        if did in aliases:
          return aliases[did]
        return None
      return None
    return None


# -- events ---------------------------------------------------------------------

class Event:
  __slots__ = ("kind", "what", "node", "cond", "fn", "extra")

  def __init__(self, kind, what, node, cond, fn=None, extra=None):
    self.kind, self.what, self.node, self.cond = kind, what, node, cond
    self.fn, self.extra = fn, extra

  def __repr__(self):
    return f"<{self.kind} {self.what}{' ?' if self.cond else ''}>"


def events(ix: CxxIndex, e, aliases, cond=False, out=None):
  """Ordered effects of evaluating expression/decl `e`."""
  if out is None:
    out = []
  if e is None or not isinstance(e, dict) or "kind" not in e:
    return out
  k = e["kind"]
  kids = inner(e)
  if k == "LambdaExpr":
    return out
  if k == "ConditionalOperator" and len(kids) == 3:
    events(ix, kids[0], aliases, cond, out)
    events(ix, kids[1], aliases, True, out)
    events(ix, kids[2], aliases, True, out)
    return out
  if k == "BinaryOperator" and e.get("opcode") in ("&&", "||"):
    events(ix, kids[0], aliases, cond, out)
    events(ix, kids[1], aliases, True, out)
    return out
  if k in ("DeclStmt",):
    for d in kids:
      events(ix, d, aliases, cond, out)
    return out
  if k in ("VarDecl", "BindingDecl", "DecompositionDecl"):
    for c in kids:
      events(ix, c, aliases, cond, out)
    _note_alias(ix, e, aliases)
    return out
  for c in kids:
    events(ix, c, aliases, cond, out)
  if k in ("BinaryOperator", "CompoundAssignOperator") and \
      (e.get("opcode", "") == "=" or (e.get("opcode", "").endswith("=")
                                      and e.get("opcode") not in ("==", "!=", "<=", ">="))):
    f = ix.field_of(kids[0], aliases)
    if f:
      out.append(Event("write", f[0], e, cond, extra={"how": e.get("opcode"), "base": f[1]}))
  elif k == "UnaryOperator" and e.get("opcode") in ("++", "--"):
    f = ix.field_of(kids[0], aliases)
    if f:
      out.append(Event("write", f[0], e, cond, extra={"how": e.get("opcode"), "base": f[1]}))
  elif k == "UnaryOperator" and e.get("opcode") == "&":
    f = ix.field_of(kids[0], aliases)
    if f and strip(kids[0]).get("kind") == "MemberExpr":
      out.append(Event("addr", f[0], e, cond))
  elif k == "MemberExpr":
    did = e.get("referencedMemberDecl")
    if did in ix.fields:
      out.append(Event("read", ix.fields[did], e, cond))
  elif k in ("CXXMemberCallExpr", "CallExpr", "CXXOperatorCallExpr"):
    key, fn, nm, obj = ix.callee(e)
    if key is not None:
      out.append(Event("call", key, e, cond, fn=fn, extra={"name": nm, "obj": obj}))
      # container mutation through a std member / operator
      if fn is None and obj is not None:
        is_mut = nm in MUTATORS
        if nm == "operator[]":
          t = qual_type(strip(obj) or {})
          is_mut = "map" in t and "const" not in t.split("map")[0][-8:]
          is_mut = "map<" in t and not t.lstrip().startswith("const ")
        if nm == "operator=":
          is_mut = True
        if nm in ("operator+=", "operator-=", "operator|=", "operator&="):
          # compound assignment of a whole field (e.g. a std::string member);
          # on an iterator/alias these only move the iterator
          so = strip(obj)
          is_mut = so is not None and so.get("kind") == "MemberExpr"
        if is_mut:
          f = ix.field_of(obj, aliases)
          if f:
            out.append(Event("write", f[0], e, cond,
                             extra={"how": nm, "base": f[1]}))
  return out


def _note_alias(ix, decl, aliases):
  """`T& v = <field-rooted>` / `T* p = <field-rooted>.data()` / iterators."""
  t = qual_type(decl)
  kids = [c for c in inner(decl) if "kind" in c and c["kind"] not in ("BindingDecl",)]
  init = kids[-1] if kids else None
  if init is None:
    return
  is_ref = t.rstrip().endswith("&") or t.rstrip().endswith("*") or \
      "iterator" in t or "auto" in t or decl["kind"] == "DecompositionDecl" or \
      "pair<" in t
  if not is_ref:
    return
  f = ix.field_of(init, aliases)
  if f is None:
    # call result viewing into a field: x.emplace(...), x.find(...)
    s = strip(init)
    if s is not None and s.get("kind") == "CXXMemberCallExpr":
      m = strip(inner(s)[0])
      if m.get("kind") == "MemberExpr" and inner(m):
        f = ix.field_of(inner(m)[0], aliases)
  if f is None:
    return
  aliases[decl["id"]] = f
  for b in inner(decl):
    if b.get("kind") == "BindingDecl":
      aliases[b["id"]] = f


# -- structured dataflow over clang statements -----------------------------------

class CxxFlow:
  """Forward must-analysis over one function body.

  `transfer(event, state) -> state` is called for every event in evaluation
  order along the statement structure; the state seen before each event is
  recorded (merged by intersection when visited more than once).
  """

  def __init__(self, ix, fn, transfer, entry=frozenset()):
    self.ix = ix
    self.fn = fn
    self.transfer = transfer
    self.aliases = {}
    self.state_at = {}     # id(event.node),kind,what -> state
    self.events = []
    self.exits = []        # (kind, node, state)
    self._loops = []
    st = frozenset(entry)
    for init in fn.inits:
      st = self._expr(init, st)
    out = self._stmt(fn.body, st) if fn.body is not None else st
    if out is not None:
      self.exits.append(("end", fn.node, out))

  def _merge(self, states):
    states = [s for s in states if s is not None]
    if not states:
      return None
    acc = states[0]
    for s in states[1:]:
      acc = acc & s
    return acc

  def _expr(self, e, st):
    if st is None or e is None or not e:
      return st
    for ev in events(self.ix, e, self.aliases):
      key = (id(ev.node), ev.kind, ev.what)
      if key in self.state_at:
        self.state_at[key] = (self.state_at[key][0], self.state_at[key][1] & st)
      else:
        self.state_at[key] = (ev, st)
        self.events.append(ev)
      st = self.transfer(ev, st)
    return st

  def _stmt(self, s, st):
    if st is None or s is None or not s:
      return st
    k = s.get("kind")
    kids = inner(s)
    if k == "CompoundStmt":
      for c in kids:
        st = self._stmt(c, st)
        if st is None:
          break
      return st
    if k == "ReturnStmt":
      for c in kids:
        st = self._expr(c, st)
      self.exits.append(("return", s, st))
      return None
    if k == "BreakStmt":
      if self._loops:
        self._loops[-1]["breaks"].append(st)
      return None
    if k == "ContinueStmt":
      if self._loops:
        self._loops[-1]["continues"].append(st)
      return None
    if k == "IfStmt":
      parts = list(kids)
      if s.get("hasInit"):
        st = self._stmt(parts.pop(0), st)
      if s.get("hasVar"):
        st = self._expr(parts.pop(0), st)
      cond = parts.pop(0)
      h = self._expr(cond, st)
      a = self._stmt(parts.pop(0), h)
      b = self._stmt(parts.pop(0), h) if parts else h
      return self._merge([a, b])
    if k in ("ForStmt", "WhileStmt", "CXXForRangeStmt", "DoStmt"):
      return self._loop(s, st)
    if k == "SwitchStmt":
      h = self._expr(kids[-2] if len(kids) >= 2 else None, st)
      frame = {"breaks": [], "continues": []}
      self._loops.append(frame)
      out = self._stmt(kids[-1], h)   # cases fall through sequentially
      self._loops.pop()
      return self._merge([out, h] + frame["breaks"])
    if k in ("CaseStmt", "DefaultStmt", "LabelStmt", "AttributedStmt"):
      for c in kids:
        st2 = self._stmt(c, st) if c.get("kind", "").endswith("Stmt") else self._expr(c, st)
        st = st2
      return st
    if k == "CXXTryStmt":
      body = self._stmt(kids[0], st)
      outs = [body]
      for h in kids[1:]:
        outs.append(self._stmt(inner(h)[-1], st))
      return self._merge(outs)
    if k == "NullStmt":
      return st
    if k == "GotoStmt":
      raise AnalysisError(f"goto in {self.fn.key}: unstructured control flow")
    # expression or declaration statement
    return self._expr(s, st)

  def _loop(self, s, st):
    k = s["kind"]
    kids = inner(s)
    if k == "ForStmt":
      init, condvar, cond, inc, body = (kids + [None] * 5)[:5]
      st = self._stmt(init, st) if init else st
      pre = [cond]
      post = [inc]
    elif k == "WhileStmt":
      cond, body = kids[-2], kids[-1]
      pre, post = [cond], []
    elif k == "DoStmt":
      body, cond = kids[0], kids[1]
      pre, post = [], [cond]
    else:  # CXXForRangeStmt: [init], range, begin, end, cond, inc, loopvar, body
      body = kids[-1]
      for c in kids[:-4]:
        st = self._stmt(c, st)
      pre = [kids[-4], kids[-2]]
      post = [kids[-3]]
    head_in = st
    frame = None
    h = st
    for _ in range(6):
      frame = {"breaks": [], "continues": []}
      self._loops.append(frame)
      h = head_in
      for p in pre:
        h = self._stmt(p, h) if p and p.get("kind", "").endswith("Stmt") else self._expr(p, h)
      body_out = self._stmt(body, h)
      tail = self._merge([body_out] + frame["continues"])
      for p in post:
        tail = self._expr(p, tail)
      self._loops.pop()
      new_head = self._merge([st, tail])
      if new_head == head_in:
        break
      head_in = new_head
    if k == "DoStmt":
      return self._merge([tail] + frame["breaks"])
    return self._merge([h] + frame["breaks"])


def get_index(ctx, tus=TUS) -> CxxIndex:
  return ctx.memo(("cxx", tuple(tus)), lambda: CxxIndex(ctx, tus))


# -- symbolic terms (schema matching) ---------------------------------------------

EXPLICIT_CASTS = ("CXXFunctionalCastExpr", "CStyleCastExpr", "CXXStaticCastExpr")


def term(ix, e, env=None):
  """Renders an expression as a nested tuple; locals in `env` are substituted."""
  env = env or {}
  if e is None:
    return None
  k = e.get("kind")
  kids = inner(e)
  if k in EXPLICIT_CASTS:
    return ("cast", qual_type(e), term(ix, kids[-1], env))
  if k in TRANSPARENT:
    return term(ix, kids[0], env) if kids else None
  if k == "IntegerLiteral":
    return ("int", int(e.get("value", "0")), qual_type(e))
  if k == "CXXBoolLiteralExpr":
    return ("bool", bool(e.get("value")))
  if k == "CXXNullPtrLiteralExpr":
    return ("nullptr",)
  if k == "CXXThisExpr":
    return ("this",)
  if k == "DeclRefExpr":
    rd = e.get("referencedDecl") or {}
    if rd.get("id") in env:
      return env[rd["id"]]
    if rd.get("kind") in ("FunctionDecl", "CXXMethodDecl"):
      return ("fn", ix.canon.get(rd.get("id"), rd.get("name")))
    return ("var", rd.get("name"), rd.get("id"))
  if k == "MemberExpr":
    did = e.get("referencedMemberDecl")
    base = term(ix, kids[0], env) if kids else ("this",)
    if did in ix.fields:
      return ("field", ix.fields[did], base)
    return ("member", e.get("name"), base)
  if k in ("BinaryOperator", "CompoundAssignOperator"):
    return (e.get("opcode"), term(ix, kids[0], env), term(ix, kids[1], env))
  if k == "UnaryOperator":
    op = e.get("opcode")
    if op in ("++", "--"):
      op = ("post" if e.get("isPostfix") else "pre") + op
    return (op, term(ix, kids[0], env))
  if k == "ArraySubscriptExpr":
    return _index(term(ix, kids[0], env), term(ix, kids[1], env))
  if k == "ConditionalOperator":
    return ("?:",) + tuple(term(ix, c, env) for c in kids)
  if k == "CXXOperatorCallExpr":
    key, fn, nm, obj = ix.callee(e)
    args = [term(ix, c, env) for c in kids[1:]]
    if nm == "operator[]" and len(args) == 2:
      return _index(args[0], args[1])
    return ("opcall", nm) + tuple(args)
  if k == "CXXMemberCallExpr":
    key, fn, nm, obj = ix.callee(e)
    args = [term(ix, c, env) for c in kids[1:]]
    o = term(ix, obj, env) if obj is not None else None
    if nm == "data" and not args:
      return ("data", o)
    return ("mcall", key if fn is not None else nm, o) + tuple(args)
  if k == "CallExpr":
    key, fn, nm, obj = ix.callee(e)
    return ("call", key) + tuple(term(ix, c, env) for c in kids[1:])
  if k == "CXXConstructExpr" and len(kids) == 1:
    return term(ix, kids[0], env)
  return ("?", k)


def _index(base, idx):
  if isinstance(base, tuple) and base and base[0] == "data":
    base = base[1]
  return ("index", base, idx)


def uncast(t):
  while isinstance(t, tuple) and t and t[0] == "cast":
    t = t[2]
  return t
