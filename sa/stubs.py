"""E8: static model of the bundled stubs builtins.pytd + typing.pytd.

The two files are valid Python syntax and are read with `ast` (type comments
on).  The model gives: class -> bases -> members (overloads with parameter
annotations), stub MRO across both files, protocol attributes computed the way
`Class._init_protocol_attributes` does, and an *admission* predicate "does an
instance of ground builtin type T match annotation A" calibrated at design
time against the real matcher (nominal | numeric tower/compat table |
structural protocol | union).
"""
from __future__ import annotations

import ast

from sa.core import AnalysisError
from sa.pyindex import dotted, src, get_module, try_fold

BUILTINS = "pytype/stubs/builtins/builtins.pytd"
TYPING = "pytype/stubs/builtins/typing.pytd"
TARGET_VERSION = (3, 12)


class SClass:
  def __init__(self, name, module, node):
    self.name = name
    self.module = module
    self.node = node
    self.base_exprs = list(node.bases)
    self.members = {}      # name -> list of entries
    self.line = node.lineno
    self.template_names = set()

  @property
  def qual(self):
    return f"{self.module}.{self.name}"

  def __repr__(self):
    return f"<SClass {self.qual}>"


class Method:
  def __init__(self, node, abstract):
    self.node = node
    self.abstract = abstract
    self.decorators = [dotted(d) or src(d) for d in node.decorator_list]

  def params(self):
    """Positional parameters after self/cls: list of (name, annotation, has_default)."""
    a = self.node.args
    pos = list(a.posonlyargs) + list(a.args)
    nd = len(pos) - len(a.defaults)
    out = []
    for i, p in enumerate(pos):
      out.append((p.arg, p.annotation, i >= nd))
    if "staticmethod" not in self.decorators and out:
      out = out[1:]
    return out, a.vararg is not None, a.kwarg is not None


class Attr:
  def __init__(self, node, type_txt):
    self.node = node
    self.type_txt = type_txt   # annotation / type comment text, or None


def _version_test(test):
  """Evaluates `sys.version_info >= (3, N)` style tests for TARGET_VERSION."""
  if isinstance(test, ast.Compare) and len(test.ops) == 1 and \
      dotted(test.left) == "sys.version_info":
    rhs = try_fold(test.comparators[0])
    if isinstance(rhs, tuple):
      v = TARGET_VERSION[:len(rhs)]
      op = type(test.ops[0])
      return {ast.GtE: v >= rhs, ast.Gt: v > rhs, ast.Lt: v < rhs,
              ast.LtE: v <= rhs, ast.Eq: v == rhs, ast.NotEq: v != rhs}.get(op)
  return None


class Stubs:
  def __init__(self, ctx):
    self.ctx = ctx
    self.classes = {}     # "builtins.int" -> SClass
    self.typevars = {}    # module -> set of names
    self.aliases = {}     # module -> {name: expr}
    self.functions = {}
    for module, rel in (("builtins", BUILTINS), ("typing", TYPING)):
      text = ctx.read(rel)
      try:
        tree = ast.parse(text, filename=rel, type_comments=True)
      except SyntaxError as e:
        raise AnalysisError(f"{rel} does not parse as Python syntax: {e}") from e
      self.typevars[module] = set()
      self.aliases[module] = {}
      self._module_body(module, tree.body)
    if len(self.classes) < 100:
      raise AnalysisError(f"only {len(self.classes)} stub classes found")
    self._mro_cache = {}

  def _module_body(self, module, body):
    for st in body:
      if isinstance(st, ast.ClassDef):
        c = SClass(st.name, module, st)
        self._class_body(c, st.body)
        for b in st.bases:
          for n in ast.walk(b):
            if isinstance(n, ast.Name):
              c.template_names.add(n.id)
        self.classes[c.qual] = c
      elif isinstance(st, ast.Assign) and len(st.targets) == 1 and \
          isinstance(st.targets[0], ast.Name):
        nm = st.targets[0].id
        if isinstance(st.value, ast.Call) and dotted(st.value.func) in (
            "TypeVar", "ParamSpec", "typing.TypeVar"):
          self.typevars[module].add(nm)
        else:
          self.aliases[module][nm] = st.value
      elif isinstance(st, ast.If):
        v = _version_test(st.test)
        if v is None or v:
          self._module_body(module, st.body)
        if v is None or not v:
          self._module_body(module, st.orelse)
      elif isinstance(st, (ast.FunctionDef, ast.AsyncFunctionDef)):
        self.functions.setdefault(f"{module}.{st.name}", []).append(st)

  def _class_body(self, c, body):
    for st in body:
      if isinstance(st, (ast.FunctionDef, ast.AsyncFunctionDef)):
        decs = [dotted(d) or "" for d in st.decorator_list]
        m = Method(st, any(d.endswith("abstractmethod") for d in decs))
        c.members.setdefault(st.name, []).append(m)
      elif isinstance(st, ast.Assign):
        for t in st.targets:
          if isinstance(t, ast.Name):
            c.members.setdefault(t.id, []).append(Attr(st, st.type_comment))
      elif isinstance(st, ast.AnnAssign) and isinstance(st.target, ast.Name):
        c.members.setdefault(st.target.id, []).append(Attr(st, src(st.annotation)))
      elif isinstance(st, ast.If):
        v = _version_test(st.test)
        if v is None or v:
          self._class_body(c, st.body)
        if v is None or not v:
          self._class_body(c, st.orelse)
      elif isinstance(st, ast.ClassDef):
        pass

  # -- resolution --------------------------------------------------------------
  def resolve(self, name, module):
    """Resolves a (possibly dotted) class name seen in `module`."""
    if name is None:
      return None
    if name.startswith("typing."):
      return self.classes.get(name)
    if name.startswith("builtins."):
      return self.classes.get(name)
    other = "typing" if module == "builtins" else "builtins"
    for m in (module, other):
      if f"{m}.{name}" in self.classes:
        return self.classes[f"{m}.{name}"]
      if name in self.aliases[m]:
        al = self.aliases[m][name]
        d = dotted(al)
        if d and d != name:
          r = self.resolve(d, m)
          if r is not None:
            return r
    return None

  def cls(self, qual) -> SClass:
    if qual not in self.classes:
      raise AnalysisError(f"anchor stub class {qual} not found")
    return self.classes[qual]

  def bases(self, c: SClass):
    out = []
    for b in c.base_exprs:
      head = b.value if isinstance(b, ast.Subscript) else b
      r = self.resolve(dotted(head), c.module)
      if r is not None:
        out.append(r)
    if not out and c.qual != "builtins.object":
      obj = self.classes.get("builtins.object")
      if obj is not None:
        out.append(obj)
    return out

  def mro(self, c: SClass):
    if c.qual in self._mro_cache:
      return self._mro_cache[c.qual]
    self._mro_cache[c.qual] = [c]   # recursion guard
    bases = self.bases(c)
    seqs = [list(self.mro(b)) for b in bases] + [list(bases)]
    out = [c]
    seqs = [s for s in seqs if s]
    while seqs:
      cand = None
      for s in seqs:
        h = s[0]
        if not any(h in t[1:] for t in seqs):
          cand = h
          break
      if cand is None:
        # inconsistent stub hierarchy: fall back to DFS order, de-duplicated
        for s in seqs:
          for x in s:
            if x not in out:
              out.append(x)
        break
      out.append(cand)
      seqs = [[x for x in s if x is not cand] for s in seqs]
      seqs = [s for s in seqs if s]
    self._mro_cache[c.qual] = out
    return out

  def ancestors(self, c):
    return {x.qual for x in self.mro(c)}

  def lookup(self, c, name):
    for k in self.mro(c):
      if name in k.members:
        return k, k.members[name]
    return None, None

  def defines(self, c, name):
    """Defined along the MRO, and not only as a `= ...  # type: None` marker."""
    k, entries = self.lookup(c, name)
    if entries is None:
      return False
    if all(isinstance(e, Attr) and (e.type_txt or "").strip() == "None" for e in entries):
      return False
    return True

  def names(self, c, public_only=True):
    out = set()
    for k in self.mro(c):
      for n in k.members:
        if public_only and n.startswith("_"):
          continue
        out.add(n)
    # names whose first definition in MRO order is the None marker are absent
    return {n for n in out if self.defines(c, n)}

  def is_protocol(self, c):
    return any((dotted(b.value if isinstance(b, ast.Subscript) else b) or "")
               .split(".")[-1] == "Protocol" for b in c.base_exprs)

  # -- protocol attributes (mirrors Class._init_abstract_methods /
  #    _init_protocol_attributes for typing.* PyTD classes) ---------------------
  def abstract_methods(self, c):
    am = set()
    for k in reversed(self.mro(c)):
      own_abs = {n for n, es in k.members.items()
                 if any(isinstance(e, Method) and e.abstract for e in es)}
      am = {m for m in am if m not in k.members or m in own_abs}
      am |= own_abs
    return am

  def protocol_attributes(self, c, extra_sets):
    """extra_sets: {class qual name: set of extra attrs} read from class_mixin.py."""
    if not self.is_protocol(c):
      return None
    attrs = set(extra_sets.get(c.qual, ()))
    attrs |= self.abstract_methods(c)
    return attrs

  def attribute_names(self, c):
    """matcher._get_attribute_names: own attributes along the MRO + implicit __iter__."""
    names = set()
    for k in self.mro(c):
      names |= set(k.members)
    if "__getitem__" in names and "__iter__" not in names:
      names.add("__iter__")
    return names


def get_stubs(ctx) -> Stubs:
  return ctx.memo(("stubs",), lambda: Stubs(ctx))


# -- the extra protocol attribute sets and the compat table, read from source ----

def protocol_extra_sets(ctx):
  """{qualified typing class: extra attribute set} from _init_protocol_attributes."""
  mod = get_module(ctx, "pytype/abstract/class_mixin.py")
  fn = mod.func("Class._init_protocol_attributes")
  out = {}
  found = False
  for n in ast.walk(fn):
    if isinstance(n, ast.If):
      names = None
      t = n.test
      if isinstance(t, ast.Compare) and len(t.ops) == 1 and \
          (dotted(t.left) or "").endswith("pytd_cls.name"):
        if isinstance(t.ops[0], ast.Eq):
          v = try_fold(t.comparators[0])
          names = [v] if isinstance(v, str) else None
        elif isinstance(t.ops[0], ast.In):
          v = try_fold(t.comparators[0])
          names = list(v) if isinstance(v, (tuple, list, set, frozenset)) else None
      if names is None:
        continue
      env = {}
      attrs = None
      for st in n.body:
        if isinstance(st, ast.Assign) and isinstance(st.targets[0], ast.Name):
          v = try_fold(st.value, env)
          if v is not None:
            env[st.targets[0].id] = v
        if isinstance(st, ast.AugAssign) and isinstance(st.op, ast.BitOr) and \
            dotted(st.target) == "protocol_attributes":
          attrs = try_fold(st.value, env)
      if attrs is None:
        raise AnalysisError("_init_protocol_attributes: extra attribute set not foldable")
      found = True
      for nm in names:
        out[nm] = set(attrs)
  if not found:
    raise AnalysisError("_init_protocol_attributes: typing-name special case not found")
  return out


def compat_items(ctx):
  """pep484._COMPAT_ITEMS as a list of (from, to) short names."""
  mod = get_module(ctx, "pytype/pytd/pep484.py")
  node = mod.const("_COMPAT_ITEMS")
  v = try_fold(node, mod=mod)
  if not isinstance(v, (list, tuple)) or not all(
      isinstance(x, tuple) and len(x) == 2 for x in v):
    raise AnalysisError("pep484._COMPAT_ITEMS is not a literal list of pairs")
  return [tuple(x) for x in v]


# -- admission ---------------------------------------------------------------------

ADMIT, REJECT, UNKNOWN = "admit", "reject", "unknown"


class Admission:
  """Does an instance of stub class T match annotation A (seen in `module`)?"""

  def __init__(self, ctx, stubs: Stubs):
    self.st = stubs
    self.extra = protocol_extra_sets(ctx)
    self.compat = set(compat_items(ctx))
    # default configuration: none_is_not_bool is off => (NoneType, bool) present
    self.compat_default = set(self.compat) | {("NoneType", "bool")}

  def admits(self, t: SClass, ann, owner: SClass):
    """owner: the class whose method carries the annotation."""
    if ann is None:
      return ADMIT
    module = owner.module
    if isinstance(ann, ast.Constant):
      if ann.value is None:
        return ADMIT if t.qual == "builtins.NoneType" else REJECT
      if isinstance(ann.value, str):
        try:
          return self.admits(t, ast.parse(ann.value, mode="eval").body, owner)
        except SyntaxError:
          return UNKNOWN
      return UNKNOWN
    if isinstance(ann, ast.BinOp) and isinstance(ann.op, ast.BitOr):
      return self._any([self.admits(t, ann.left, owner), self.admits(t, ann.right, owner)])
    if isinstance(ann, ast.Subscript):
      head = dotted(ann.value) or ""
      short = head.split(".")[-1]
      if short in ("Union", "Optional"):
        elts = ann.slice.elts if isinstance(ann.slice, ast.Tuple) else [ann.slice]
        res = [self.admits(t, e, owner) for e in elts]
        if short == "Optional":
          res.append(ADMIT if t.qual == "builtins.NoneType" else REJECT)
        return self._any(res)
      if short == "Literal":
        return UNKNOWN
      if short in ("Annotated",):
        elts = ann.slice.elts if isinstance(ann.slice, ast.Tuple) else [ann.slice]
        return self.admits(t, elts[0], owner)
      # parameterised class: nominal/protocol on the outer class; parameters
      # are not compared (ground operands; calibrated against the matcher)
      return self._name(t, head, owner)
    d = dotted(ann)
    if d is not None:
      return self._name(t, d, owner)
    return UNKNOWN

  def _any(self, res):
    if ADMIT in res:
      return ADMIT
    if UNKNOWN in res:
      return UNKNOWN
    return REJECT

  def _name(self, t, name, owner):
    module = owner.module
    short = name.split(".")[-1]
    if short in ("object", "Any"):
      return ADMIT
    if short in ("nothing", "NoReturn", "Never"):
      return REJECT
    if short == "Self":
      return ADMIT if owner.qual in self.st.ancestors(t) else REJECT
    if name in self.st.typevars.get(module, ()) or \
        name in self.st.typevars.get("typing", ()) and self.st.resolve(name, module) is None:
      if name in owner.template_names:
        return UNKNOWN        # class-scoped type parameter: depends on contents
      return ADMIT            # function-scoped TypeVar (bounds not modelled)
    al = self.st.aliases.get(module, {}).get(name)
    if al is not None and dotted(al) != name and not isinstance(al, ast.Constant):
      if self.st.resolve(name, module) is None or f"{module}.{name}" not in self.st.classes:
        return self.admits(t, al, owner)
    c = self.st.resolve(name, module)
    if c is None:
      return UNKNOWN
    return self.admits_class(t, c)

  def admits_class(self, t: SClass, c: SClass):
    if c.qual in ("builtins.object", "typing.Any"):
      return ADMIT
    anc = self.st.ancestors(t)
    if c.qual in anc:
      return ADMIT
    # compat builtins (numeric tower, bytes-likes, None->bool by default)
    for k in self.st.mro(t):
      if k.module == "builtins" and c.module == "builtins" and \
          (k.name, c.name) in self.compat_default:
        return ADMIT
    # also: a class whose *ancestor* is the compat target's subclass
    if self.st.is_protocol(c):
      attrs = self.st.protocol_attributes(c, self.extra)
      if not attrs:
        return REJECT   # a protocol without attributes never matches structurally
      if c.qual == "typing.Sequence" and "typing.Mapping" in anc:
        return REJECT
      have = self.st.attribute_names(t)
      if not attrs <= have:
        return REJECT
      # a non-callable marker (`__hash__ = ...  # type: None`) does not match a method
      for a in attrs:
        if not self.st.defines(t, a) and not (a == "__iter__" and "__getitem__" in have):
          return REJECT
      return ADMIT
    return REJECT
