"""E2/E3: structured dataflow over Python function bodies.

`Flow` runs a forward gen/kill analysis over the statement structure of one
function (no goto in Python, so the AST *is* the control-flow graph).  Two
modes: "must" (merge = intersection; facts that hold on every path: dominance,
must-pass-through) and "may" (merge = union: reaching definitions).

Evaluation units: a simple statement, or the header expression(s) of a
compound statement (If.test, While.test, For.iter, With.items, Match.subject).
`gen(unit)`/`kill(unit)` are supplied by the rule.

Recorded: state before every statement (`before[stmt]`), state after the
header of every compound statement (`after_header[stmt]`), state after every
simple statement (`after[stmt]`) and the list of exits
(kind in {"return","raise","end"}, node, state).
"""
from __future__ import annotations

import ast


TERMINATORS = (ast.Return, ast.Raise, ast.Continue, ast.Break)


def is_const_true(test):
  return isinstance(test, ast.Constant) and bool(test.value) is True


def unconditional_nodes(unit):
  """Sub-nodes of `unit` evaluated whenever `unit` is evaluated.

  Skips the lazily evaluated parts: IfExp branches, BoolOp operands after the
  first, comprehension elements/conditions (the first iterable is included),
  lambda bodies, nested defs.
  """
  out = []
  todo = [unit]
  while todo:
    n = todo.pop()
    out.append(n)
    if isinstance(n, ast.IfExp):
      todo.append(n.test)
    elif isinstance(n, ast.BoolOp):
      todo.append(n.values[0])
    elif isinstance(n, (ast.ListComp, ast.SetComp, ast.GeneratorExp, ast.DictComp)):
      todo.append(n.generators[0].iter)
    elif isinstance(n, (ast.Lambda, ast.FunctionDef, ast.AsyncFunctionDef,
                        ast.ClassDef)):
      if not isinstance(n, ast.Lambda):
        todo.extend(n.decorator_list)
    else:
      todo.extend(ast.iter_child_nodes(n))
  return out


def unconditional_calls(unit):
  return [n for n in unconditional_nodes(unit) if isinstance(n, ast.Call)]


def terminates(block):
  if not block:
    return False
  last = block[-1]
  if isinstance(last, TERMINATORS):
    return True
  if isinstance(last, ast.If):
    return terminates(last.body) and terminates(last.orelse)
  if isinstance(last, ast.With):
    return terminates(last.body)
  if isinstance(last, ast.Try):
    return (terminates(last.body) or terminates(last.orelse)) and all(
        terminates(h.body) for h in last.handlers) if not last.finalbody \
        else terminates(last.finalbody) or (
            (terminates(last.body) or terminates(last.orelse))
            and all(terminates(h.body) for h in last.handlers))
  if isinstance(last, ast.While) and is_const_true(last.test):
    return not any(isinstance(n, ast.Break) for n in _walk_loop_body(last))
  return False


def _walk_loop_body(loop):
  todo = list(loop.body)
  while todo:
    n = todo.pop()
    yield n
    if isinstance(n, (ast.For, ast.While, ast.AsyncFor, ast.FunctionDef,
                      ast.AsyncFunctionDef, ast.ClassDef, ast.Lambda)):
      continue
    todo.extend(ast.iter_child_nodes(n))


class Flow:
  """Forward gen/kill dataflow over one function body."""

  def __init__(self, func, gen, kill=None, mode="must", entry=frozenset()):
    self.func = func
    self.gen = gen
    self.kill = kill
    self.mode = mode
    self.before = {}
    self.after = {}
    self.after_header = {}
    self.exits = []
    self._loops = []
    self._try_collect = []
    self._quiet = 0
    self._pendings = []
    body = func.body if not isinstance(func, ast.Lambda) else [ast.Return(value=func.body)]
    out = self._block(body, frozenset(entry))
    if out is not None:
      self.exits.append(("end", func, out))

  # -- lattice ---------------------------------------------------------------
  def _merge(self, states):
    states = [s for s in states if s is not None]
    if not states:
      return None
    acc = states[0]
    for s in states[1:]:
      acc = (acc & s) if self.mode == "must" else (acc | s)
    return acc

  def _transfer(self, unit, st):
    if st is None:
      return None
    if self.kill is not None:
      k = self.kill(unit)
      if k:
        st = frozenset(f for f in st if not k(f)) if callable(k) else st - frozenset(k)
    g = self.gen(unit)
    if g:
      st = st | frozenset(g)
    return st

  def _record(self, table, node, st):
    if self._quiet:
      return
    if node in table and table[node] is not None and st is not None:
      table[node] = self._merge([table[node], st])
    elif node not in table or table[node] is None:
      table[node] = st
    for coll in self._try_collect:
      coll.append(st)

  # -- statements --------------------------------------------------------------
  def _block(self, stmts, st):
    for s in stmts:
      if st is None:
        # unreachable code: still record so lookups do not fail
        self._record(self.before, s, None)
        continue
      st = self._stmt(s, st)
    return st

  def _stmt(self, s, st):
    self._record(self.before, s, st)
    if isinstance(s, ast.Return):
      st2 = self._transfer(s, st)
      if not self._quiet:
        self.exits.append(("return", s, st2))
      self._pending("return", s, st2)
      return None
    if isinstance(s, ast.Raise):
      st2 = self._transfer(s, st)
      if not self._quiet:
        self.exits.append(("raise", s, st2))
      self._pending("raise", s, st2)
      return None
    if isinstance(s, ast.Break):
      if self._loops:
        self._loops[-1]["breaks"].append(st)
      return None
    if isinstance(s, ast.Continue):
      if self._loops:
        self._loops[-1]["continues"].append(st)
      return None
    if isinstance(s, ast.If):
      h = self._transfer(s.test, st)
      self._record(self.after_header, s, h)
      a = self._block(s.body, h)
      b = self._block(s.orelse, h)
      if is_const_true(s.test):
        return a
      return self._merge([a, b])
    if isinstance(s, (ast.While,)):
      return self._loop(s, st, s.test, None)
    if isinstance(s, (ast.For, ast.AsyncFor)):
      st1 = self._transfer(s.iter, st)
      return self._loop(s, st1, None, s.target)
    if isinstance(s, (ast.With, ast.AsyncWith)):
      h = st
      for item in s.items:
        h = self._transfer(item, h)
      self._record(self.after_header, s, h)
      return self._block(s.body, h)
    if isinstance(s, (ast.Try, getattr(ast, "TryStar", ast.Try))):
      return self._try(s, st)
    if isinstance(s, ast.Match):
      h = self._transfer(s.subject, st)
      self._record(self.after_header, s, h)
      outs = []
      irrefutable = False
      for case in s.cases:
        c = self._transfer(case.pattern, h)
        if case.guard is not None:
          c = self._transfer(case.guard, c)
        outs.append(self._block(case.body, c))
        if case.guard is None and isinstance(case.pattern, ast.MatchAs) \
            and case.pattern.pattern is None:
          irrefutable = True
      if not irrefutable:
        outs.append(h)
      return self._merge(outs)
    # simple statement (incl. nested def/class: only the binding matters)
    st2 = self._transfer(s, st)
    self._record(self.after, s, st2)
    return st2

  def _loop(self, s, st, test, target):
    head_in = st
    for _ in range(6):
      frame = {"breaks": [], "continues": []}
      self._loops.append(frame)
      h = head_in
      if test is not None:
        h = self._transfer(test, h)
      if target is not None:
        h_body = self._transfer(target, h)
      else:
        h_body = h
      self._record(self.after_header, s, h_body)
      body_out = self._block(s.body, h_body)
      self._loops.pop()
      new_head = self._merge([st, body_out] + frame["continues"])
      if new_head == head_in:
        break
      head_in = new_head
    if test is not None and is_const_true(test):
      normal = None
    else:
      normal = self._block(s.orelse, h)
    return self._merge([normal] + frame["breaks"])

  def _try(self, s, st):
    coll = [st]
    self._try_collect.append(coll)
    pend = {"items": []}
    if s.finalbody:
      self._pendings.append(pend)
    body_out = self._block(s.body, st)
    self._try_collect.pop()
    handler_in = self._merge(coll)
    outs = []
    for h in s.handlers:
      outs.append(self._block(h.body, handler_in))
    outs.append(self._block(s.orelse, body_out))
    out = self._merge(outs)
    if s.finalbody:
      self._pendings.pop()
      # exits that left through the finally clause pick up its facts
      for kind, node, est in pend["items"]:
        self._quiet += 1
        fin = self._block(s.finalbody, est)
        self._quiet -= 1
        for i, (k2, n2, s2) in enumerate(self.exits):
          if n2 is node and k2 == kind:
            self.exits[i] = (k2, n2, fin)
      # the exceptional path into finally is an exit that needs no obligation
      self._quiet += 1
      self._block(s.finalbody, handler_in)
      self._quiet -= 1
      out = self._block(s.finalbody, out)
    return out

  def _pending(self, kind, node, st):
    for p in self._pendings:
      p["items"].append((kind, node, st))


def flow(func, gen, kill=None, mode="must", entry=frozenset()):
  return Flow(func, gen, kill, mode, entry)


# -- path conditions -----------------------------------------------------------

def _fallthrough(prev):
  """Conditions known to hold when control falls past statement `prev`."""
  out = []
  if isinstance(prev, ast.If):
    body_t, else_t = terminates(prev.body), terminates(prev.orelse)
    if body_t and not else_t:
      out.append((prev.test, False))
      # `if A: return ... elif B: continue`: falling through also needs not B
      if len(prev.orelse) == 1:
        out.extend(_fallthrough(prev.orelse[0]))
    elif prev.orelse and else_t and not body_t:
      out.append((prev.test, True))
  elif isinstance(prev, ast.Assert):
    out.append((prev.test, True))
  return out


def guards(parent, stmt, stop=None):
  """Path condition of `stmt` inside its function: list of (test_expr, polarity).

  Includes enclosing If/While tests and the negations established by earlier
  early-exit guards in every enclosing block (`if c: return` => not c),
  including the function's own top-level block.  `stop` (the function node)
  bounds the upward walk.
  """
  out = []
  node = stmt
  while node in parent:
    par = parent[node]
    # which block of the parent holds node?
    for fld in ("body", "orelse", "finalbody", "handlers"):
      blk = getattr(par, fld, None)
      if isinstance(blk, list) and node in blk:
        if isinstance(par, (ast.If, ast.While)):
          if fld == "body":
            out.append((par.test, True))
          elif fld == "orelse" and isinstance(par, ast.If):
            out.append((par.test, False))
        # earlier early exits in this block
        idx = blk.index(node)
        for prev in blk[:idx]:
          out.extend(_fallthrough(prev))
        break
    if par is stop or isinstance(par, (ast.FunctionDef, ast.AsyncFunctionDef,
                                       ast.Lambda)):
      break
    node = par
  return out


def names_in(expr):
  return {n.id for n in ast.walk(expr) if isinstance(n, ast.Name)}


def attrs_in(expr):
  from sa.pyindex import dotted
  out = set()
  for n in ast.walk(expr):
    if isinstance(n, ast.Attribute):
      d = dotted(n)
      if d:
        out.add(d)
  return out


def guards_txt(parent, stmt, stop=None):
  """guards() as a list of (unparsed test, polarity), with `not X` folded into
  the polarity so that equivalent spellings compare equal."""
  out = []
  for t, p in guards(parent, stmt, stop):
    while isinstance(t, ast.UnaryOp) and isinstance(t.op, ast.Not):
      t, p = t.operand, not p
    out.append((ast.unparse(t), p))
  return out
