#!/venv/bin/python -I
"""Regenerates /verif/MANIFEST.json from the rules modules present."""
import importlib
import json
import os
import sys

HERE = os.path.dirname(os.path.dirname(os.path.abspath(__file__)))
sys.path.insert(0, HERE)
from sa import core  # noqa: E402

NA_REASONS = {}


def _kf_counts():
  with open(os.path.join(HERE, "known_findings.json")) as f:
    k = json.load(f)
  return len(k["fixed"]), len(k["known"])


def main():
  props = [json.loads(l) for l in open(os.path.join(HERE, "properties.jsonl"))]
  checks, na = [], []
  for p in props:
    pid = p["id"]
    path = os.path.join(HERE, "rules", pid.lower() + ".py")
    if not os.path.exists(path) or pid in sys.argv[1:]:
      na.append({"property_id": pid, "reason": NA_REASONS.get(
          pid, "check not built yet (work in progress)")})
      continue
    mod = importlib.import_module(f"rules.{pid.lower()}")
    for f in sorted(os.listdir(os.path.join(HERE, "rules"))):
      if f.endswith(".py") and f[:-3].split("_")[0] == pid.lower() and f[:-3] != pid.lower():
        importlib.import_module(f"rules.{f[:-3]}")
    rids = sorted(s.rid for s in core.RULES.values() if s.prop == pid)
    checks.append({
        "property_id": pid,
        "quick_cmd": f"/venv/bin/python -I /verif/check.py {pid} --tier quick",
        "thorough_cmd": f"/venv/bin/python -I /verif/check.py {pid} --tier thorough",
        "evidence_file": f"/verif/evidence/{pid}.json",
        "replay_cmd_template": "/venv/bin/python -I /verif/check.py --replay {path}",
        "engine": "sa",
        "level_claimed": {
            "category": "other",
            "text": mod.EXPLANATION,
            "design_ref": f"DESIGN.md section 2, {pid}",
        },
        "level_note": "; ".join(mod.ASSUMPTIONS),
        "technique": getattr(mod, "TECHNIQUE", "static analysis: repo-specific "
                             "AST rules (" + ", ".join(rids) + ")"),
    })
  manifest = {
      "version": 1,
      "setup_cmd": "/venv/bin/python -I /verif/tools/setup.py",
      "hooks": {
          "guard": "PYTYPE_VERIF",
          "enable": "none: static analysis needs no instrumentation; no hook "
                    "commits exist in /repo",
          "baseline_off_cmd": "cd /repo && /venv/bin/python -m pytest -ra -q "
                              "-p no:cacheprovider --timeout=900 "
                              "--continue-on-collection-errors",
          "source_commits": [],
          "add_only": True,
      },
      "engines": [{
          "name": "sa",
          "path": "/verif/sa",
          "serves_properties": [c["property_id"] for c in checks],
          "kind_free_text": "static analysis: Python ast module index + "
                            "structured dataflow, clang JSON AST index for the "
                            "C++ typegraph, stub tables, reference tables",
      }],
      "checks": checks,
      "not_applicable": na,
      "notes": "All checks are static: they read /repo's current source and "
               "never import or run it. Exit 2 (ANALYSIS-ERROR) means an "
               "anchor vanished or an idiom is outside the engine; it is "
               "neither a pass nor a violation. Genuine defects found are in "
               "known_findings.json (%d fixed by 'fix:' commits, %d keys "
               "recorded as known)." % _kf_counts(),
  }
  with open(os.path.join(HERE, "MANIFEST.json"), "w") as f:
    json.dump(manifest, f, indent=1)
  print(f"{len(checks)} checks, {len(na)} not applicable")


if __name__ == "__main__":
  main()
