#!/venv/bin/python -I
"""setup_cmd: creates the cache dir and checks that the analysis tools exist."""
import os
import shutil
import sys

HERE = os.path.dirname(os.path.dirname(os.path.abspath(__file__)))
os.makedirs(os.path.join(HERE, ".cache"), exist_ok=True)
os.makedirs(os.path.join(HERE, "evidence"), exist_ok=True)
ok = True
if sys.version_info[:2] != (3, 12):
  print("setup: need python 3.12 for the 3.12 grammar", sys.version)
  ok = False
if not shutil.which("clang++"):
  print("setup: clang++ not found (C07/C08/C09 will report ANALYSIS-ERROR)")
print("setup ok" if ok else "setup failed")
sys.exit(0 if ok else 1)
