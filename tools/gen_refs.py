#!/venv/bin/python -I
"""Generates /verif/refs/cpython312.py: frozen reference tables obtained by
introspecting the host CPython (NOT pytype): builtin class hierarchy, ABC
membership, public attribute surface, operator acceptance on ground values.

Run once (python 3.12.x); the output is committed and read by the checks.
"""
import builtins
import collections.abc as cabc
import operator
import os
import pprint
import sys
import typing
import warnings

warnings.simplefilter("ignore")
assert sys.version_info[:2] == (3, 12), sys.version

SAMPLES = {
    "bool": [True, False],
    "int": [1, 0, 7],
    "float": [1.5, 0.0],
    "complex": [2j, 1 + 1j],
    "str": ["ab", "%s", ""],
    "bytes": [b"ab", b"%s", b""],
    "bytearray": [bytearray(b"ab"), bytearray(b"%s")],
    "list": [[1, 2], []],
    "tuple": [(1, 2), ()],
    "dict": [{1: 2}, {}],
    "set": [{1, 2}, set()],
    "frozenset": [frozenset({1}), frozenset()],
    "range": [range(3)],
    "NoneType": [None],
    "slice": [slice(0, 1)],
    "memoryview": [memoryview(b"ab")],
}
GROUND = ["bool", "int", "float", "complex", "str", "bytes", "bytearray",
          "list", "tuple", "dict", "set", "frozenset", "range", "NoneType"]
SURFACE_TYPES = GROUND + ["slice", "memoryview"]

BINOPS = {
    "__add__": operator.add, "__sub__": operator.sub, "__mul__": operator.mul,
    "__truediv__": operator.truediv, "__floordiv__": operator.floordiv,
    "__mod__": operator.mod, "__pow__": operator.pow,
    "__lshift__": operator.lshift, "__rshift__": operator.rshift,
    "__and__": operator.and_, "__or__": operator.or_, "__xor__": operator.xor,
    "__matmul__": operator.matmul,
}
TYPE_ERRS = (TypeError, AttributeError)


def accepts(fn, xs, ys=None):
  """True if some sample combination does not raise TypeError/AttributeError."""
  for x in xs:
    for y in (ys if ys is not None else [None]):
      try:
        if ys is None:
          fn(_copy(x))
        else:
          fn(_copy(x), _copy(y))
        return True
      except TYPE_ERRS:
        continue
      except Exception:  # ZeroDivisionError, KeyError, IndexError, ValueError...
        return True
  return False


def _copy(v):
  if isinstance(v, (list, dict, set, bytearray)):
    return type(v)(v)
  return v


def typ(name):
  return type(None) if name == "NoneType" else getattr(builtins, name)


def main():
  out = {}
  # 1. builtin class hierarchy
  names = sorted(n for n in dir(builtins) if isinstance(getattr(builtins, n), type))
  hier = {}
  for n in names:
    t = getattr(builtins, n)
    hier[n] = [b.__name__ for b in t.__mro__[1:]]
  hier["NoneType"] = ["object"]
  out["BUILTIN_MRO"] = hier
  # 2. ABC membership
  abcs = {
      "Iterable": cabc.Iterable, "Iterator": cabc.Iterator,
      "Reversible": cabc.Reversible, "Sized": cabc.Sized,
      "Container": cabc.Container, "Collection": cabc.Collection,
      "Sequence": cabc.Sequence, "MutableSequence": cabc.MutableSequence,
      "Mapping": cabc.Mapping, "MutableMapping": cabc.MutableMapping,
      "AbstractSet": cabc.Set, "MutableSet": cabc.MutableSet,
      "Hashable": cabc.Hashable,
  }
  supports = {
      "SupportsInt": typing.SupportsInt, "SupportsFloat": typing.SupportsFloat,
      "SupportsComplex": typing.SupportsComplex, "SupportsAbs": typing.SupportsAbs,
      "SupportsRound": typing.SupportsRound, "SupportsBytes": typing.SupportsBytes,
      "SupportsIndex": typing.SupportsIndex,
  }
  mem = {}
  for tn in SURFACE_TYPES:
    t = typ(tn)
    row = {a: issubclass(t, c) for a, c in abcs.items()}
    for a, c in supports.items():
      row[a] = isinstance(SAMPLES[tn][0], c)
    mem[tn] = row
  out["ABC_MEMBERSHIP"] = mem
  # 3. public attribute surface
  out["ATTR_SURFACE"] = {tn: sorted(n for n in dir(typ(tn)) if not n.startswith("_"))
                         for tn in SURFACE_TYPES}
  # 4. dunder presence along the type's MRO dicts
  dn = ["__add__", "__sub__", "__mul__", "__truediv__", "__neg__", "__getitem__",
        "__len__", "__iter__", "__contains__", "__hash__", "__call__",
        "__reversed__", "__mod__"]
  pres = {}
  for tn in SURFACE_TYPES + ["object"]:
    t = typ(tn)
    row = {}
    for d in dn:
      v = None
      found = False
      for k in t.__mro__:
        if d in k.__dict__:
          found = True
          v = k.__dict__[d]
          break
      row[d] = bool(found and v is not None)
    pres[tn] = row
  out["DUNDER_PRESENCE"] = pres
  # 5. operator acceptance
  binop = {}
  for op, fn in BINOPS.items():
    for a in GROUND:
      for b in GROUND:
        binop[(op, a, b)] = accepts(fn, SAMPLES[a], SAMPLES[b])
  out["BINOP_ACCEPTS"] = binop
  out["NEG_ACCEPTS"] = {a: accepts(operator.neg, SAMPLES[a]) for a in GROUND}
  sub = {}
  for a in GROUND:
    for b in ["int", "float", "str", "slice", "bool", "NoneType"]:
      sub[(a, b)] = accepts(operator.getitem, SAMPLES[a], SAMPLES[b])
  out["SUBSCR_ACCEPTS"] = sub
  path = os.path.join(os.path.dirname(os.path.dirname(os.path.abspath(__file__))),
                      "refs", "cpython312.py")
  os.makedirs(os.path.dirname(path), exist_ok=True)
  with open(path, "w") as f:
    f.write('"""Frozen reference tables: CPython %s behaviour, obtained by '
            "introspection of the host\ninterpreter with tools/gen_refs.py "
            "(builtins, collections.abc, typing, operator).  These describe\n"
            'CPython, not pytype.  Do not edit by hand."""\n\n'
            % sys.version.split()[0])
    f.write(f"PYTHON_VERSION = {tuple(sys.version_info[:3])!r}\n")
    f.write(f"GROUND = {GROUND!r}\nSURFACE_TYPES = {SURFACE_TYPES!r}\n")
    for k, v in out.items():
      f.write(f"\n{k} = {pprint.pformat(v, width=110, compact=True)}\n")
  print("wrote", path)


if __name__ == "__main__":
  main()
