#!/venv/bin/python -I
"""Confirms a seeded change delivered by an independent sub-agent and records
which checks catch it.

usage: confirm_mutant.py <PROP> <mN> [--vm /tmp/vmc] [--src /tmp/mut/<PROP>/MUTANTS/<mN>]

Steps (scratch worktree `--vm`, outside /repo and /verif, with a scratch-built
cfg.so so the real analyser runs):
  1. demo on the unmodified tree            -> must exit 0
  2. apply patch (rebuild cfg.so if C++)    -> must apply to current HEAD
  3. pinned baseline test files             -> must all pass
  4. demo with the patch                    -> must exit non-zero
  5. un-apply, rebuild
Then in /repo itself: git apply; run every check (quick); git checkout -- .
Writes /verif/seeded/<PROP>-<mN>/{patch.diff,demo.*,README.md,meta.json}.
"""
import argparse
import json
import os
import shutil
import subprocess
import sys

VERIF = os.path.dirname(os.path.dirname(os.path.abspath(__file__)))
PINNED = """pytype/ast/visitor_test.py pytype/metrics_test.py pytype/module_utils_test.py
pytype/pyc/compiler_test.py pytype/pyc/generate_opcode_diffs_test.py pytype/pyc/opcodes_test.py
pytype/pyi/evaluator_test.py pytype/pyi/metadata_test.py pytype/pytd/abc_hierarchy_test.py
pytype/pytd/pytd_test.py pytype/pytd/slots_test.py pytype/pytype_source_utils_test.py
pytype/rewrite/flow/conditions_test.py pytype/rewrite/flow/state_test.py
pytype/rewrite/flow/variables_test.py pytype/tools/traces/source_test.py pytype/utils_test.py
pytype_extensions/instrumentation_for_testing_test.py""".split()
INC = ["-I/root/.pyenv/versions/3.12.1/include/python3.12",
       "-I/venv/lib/python3.12/site-packages/pybind11/include"]


def sh(cmd, cwd=None, env=None, timeout=1200):
  p = subprocess.run(cmd, cwd=cwd, env=env, capture_output=True, text=True,
                     timeout=timeout, shell=isinstance(cmd, str))
  return p.returncode, (p.stdout + p.stderr)


def rebuild(vm):
  tg = os.path.join(vm, "pytype/typegraph")
  rc, out = sh(["clang++", "-O1", "-std=c++17", "-shared", "-fPIC", f"-I{vm}"] + INC +
               ["cfg.cc", "cfg_logging.cc", "pylogging.cc", "reachable.cc",
                "solver.cc", "typegraph.cc", "-o", "cfg.so"], cwd=tg)
  return rc == 0, out[-800:]


def main():
  ap = argparse.ArgumentParser()
  ap.add_argument("prop")
  ap.add_argument("m")
  ap.add_argument("--vm", default="/tmp/vmc")
  ap.add_argument("--src")
  ap.add_argument("--checks", default="all")
  ap.add_argument("--sid", default=None, help="id under /verif/seeded (default <PROP>-<mN>)")
  ap.add_argument("--recheck", action="store_true",
                  help="keep the recorded confirmation steps (patch unchanged) and only "
                       "re-run the detection by the registered checks on /repo")
  ap.add_argument("--no-detect", action="store_true",
                  help="only the confirmation steps in the scratch VM (can run in parallel "
                       "for several properties); run --recheck afterwards for the detection")
  args = ap.parse_args()
  src = args.src or f"/tmp/mut/{args.prop}/MUTANTS/{args.m}"
  sid = args.sid or f"{args.prop}-{args.m}"
  dst = os.path.join(VERIF, "seeded", sid)
  os.makedirs(dst, exist_ok=True)
  for f in os.listdir(src):
    if os.path.isfile(os.path.join(src, f)) and \
        os.path.abspath(src) != os.path.abspath(dst) and f != "meta.json":
      shutil.copy(os.path.join(src, f), os.path.join(dst, f))
  patch = os.path.join(dst, "patch.diff")
  demo = [f for f in os.listdir(dst) if f.startswith("demo.")]
  if not os.path.exists(patch) or not demo:
    print("missing patch.diff or demo"); return 2
  demo = demo[0]
  vm = args.vm
  env = dict(os.environ, PYTHONPATH=vm)
  run_demo = (["/venv/bin/python", os.path.join(dst, demo)] if demo.endswith(".py")
              else ["bash", os.path.join(dst, demo)])
  meta = {"id": sid, "property": args.prop, "steps": {}}
  # demo scripts mention the agent's own worktree path: run on a copy that
  # points at our scratch VM instead
  text = open(os.path.join(dst, demo)).read()
  for root in ("/tmp/mut3", "/tmp/mut2", "/tmp/mut"):
    text = text.replace(f"{root}/{args.prop}", vm)
  os.makedirs(os.path.join(vm, "MUTANTS", args.m), exist_ok=True)
  demo_run = os.path.join(vm, "MUTANTS", args.m, demo)
  open(demo_run, "w").write(text)
  run_demo[-1] = demo_run
  cxx = any(l.startswith("+++ b/pytype/typegraph/") and l.strip().endswith((".cc", ".h"))
            for l in open(patch))
  old_meta = {}
  if args.recheck and os.path.exists(os.path.join(dst, "meta.json")):
    old_meta = json.load(open(os.path.join(dst, "meta.json")))
  if args.recheck and "confirmed" in old_meta:
    meta["steps"] = old_meta.get("steps", {})
    meta["confirmed"] = old_meta["confirmed"]
    for k in ("summary", "note"):
      if k in old_meta:
        meta[k] = old_meta[k]
    return detect(args, meta, patch, dst)
  rc, out = sh(["git", "apply", "--check", patch], cwd=vm)
  if rc != 0:
    print("patch does not apply to HEAD:", out[-400:]); meta["steps"]["apply"] = out[-400:]
    json.dump(meta, open(os.path.join(dst, "meta.json"), "w"), indent=1); return 2
  rc0, out0 = sh(run_demo, cwd=vm, env=env)
  meta["steps"]["demo_unmodified"] = {"exit": rc0, "tail": out0[-300:]}
  sh(["git", "apply", patch], cwd=vm)
  try:
    if cxx:
      ok, o = rebuild(vm)
      meta["steps"]["rebuild"] = ok
      if not ok:
        print("C++ rebuild failed", o)
    rct, outt = sh(["/venv/bin/python", "-m", "pytest", "-q", "-p", "no:cacheprovider",
                    "-n", "8"] + PINNED, cwd=vm, env=env)
    tail = [l for l in outt.strip().split("\n") if l][-1]
    meta["steps"]["pinned_tests_with_patch"] = {"exit": rct, "summary": tail}
    rc1, out1 = sh(run_demo, cwd=vm, env=env)
    meta["steps"]["demo_with_patch"] = {"exit": rc1, "tail": out1[-500:]}
  finally:
    sh(["git", "apply", "-R", patch], cwd=vm)
    if cxx:
      rebuild(vm)
    shutil.rmtree(os.path.join(vm, "MUTANTS"), ignore_errors=True)
  confirmed = rc0 == 0 and rct == 0 and rc1 != 0
  meta["confirmed"] = confirmed
  if args.no_detect:
    json.dump(meta, open(os.path.join(dst, "meta.json"), "w"), indent=1)
    print(json.dumps({"id": sid, "confirmed": confirmed, "steps": {
        k: (v.get("exit") if isinstance(v, dict) else v) for k, v in meta["steps"].items()}}))
    return 0
  return detect(args, meta, patch, dst)


def detect(args, meta, patch, dst):
  import concurrent.futures
  # detection by the registered checks, on /repo itself
  rc, out = sh(["git", "-C", "/repo", "status", "--porcelain"])
  if out.strip():
    print("/repo is not clean; refusing to apply"); return 2
  rc, out = sh(["git", "-C", "/repo", "apply", patch])
  detected = {}
  try:
    man = json.load(open(os.path.join(VERIF, "MANIFEST.json")))
    props = [c["property_id"] for c in man["checks"]] if args.checks == "all" \
        else args.checks.split(",")
    def one(p):
      return p, sh(["/venv/bin/python", "-I", os.path.join(VERIF, "check.py"), p,
                    "--no-evidence"], cwd=VERIF)
    with concurrent.futures.ThreadPoolExecutor(8) as ex:
      results = list(ex.map(one, props))
    for p, (rc, o) in results:
      lines = [l for l in o.split("\n") if " rule=" in l and "instance=" in l][:4]
      if rc != 0:
        detected[p] = {"exit": rc, "reports": lines or
                       [l for l in o.split("\n") if l.startswith("ANALYSIS-ERROR")][:2]}
  finally:
    sh(["git", "-C", "/repo", "checkout", "--", "."])
  meta["detected_by"] = detected
  meta["caught"] = any(v["exit"] == 1 for v in detected.values())
  meta["what_it_needs"] = "see README.md (written by the independent sub-agent)"
  meta["ran"] = ("scratch VM: demo unmodified / git apply / pinned test files / demo "
                 "patched / git apply -R; /repo: git apply, check.py <all> quick, "
                 "git checkout -- .")
  json.dump(meta, open(os.path.join(dst, "meta.json"), "w"), indent=1)
  print(json.dumps({k: meta[k] for k in ("id", "confirmed", "caught")}),
        {p: v["exit"] for p, v in detected.items()})
  for p, v in detected.items():
    for l in v["reports"][:2]:
      print("   ", p, l[:220])
  return 0


if __name__ == "__main__":
  sys.exit(main())
