#!/venv/bin/python -I
"""Rewrites the behaviour-preserving-refactorings table in DESIGN.md (between
the markers) from benign/*/meta.json and README.md."""
import json
import os
HERE = os.path.dirname(os.path.dirname(os.path.abspath(__file__)))
rows, n, fa, rf, clean, na = [], 0, 0, 0, 0, 0
for d in sorted(os.listdir(os.path.join(HERE, "benign"))):
  mp = os.path.join(HERE, "benign", d, "meta.json")
  if not os.path.exists(mp):
    continue
  m = json.load(open(mp))
  n += 1
  readme = ""
  rp = os.path.join(HERE, "benign", d, "README.md")
  if os.path.exists(rp):
    lines = [l.strip() for l in open(rp) if l.strip() and not l.startswith("#")]
    readme = (lines[0] if lines else "")[:200].replace("|", "/")
  if not m.get("applies", True):
    na += 1
    verdict = "patch does not apply to the current tree"
  elif m["false_alarms"]:
    fa += 1
    verdict = "FALSE ALARM: " + ", ".join(f"{p} ({len(v)})" for p, v in sorted(m["false_alarms"].items()))
  elif m["refusals"]:
    rf += 1
    verdict = "refused: " + ", ".join(f"{p} ({v[0].split(' ')[0].replace('rule=', '')})"
                                       for p, v in sorted(m["refusals"].items()))
  else:
    clean += 1
    verdict = "decided, all 20 properties hold"
  rows.append(f"| {d} | {readme} | {verdict} |")
table = ("| id | refactoring (from its author's README) | verdict of the 20 checks on the refactored tree |\n"
         "|----|------------------------------------------|--------------------------------------------------|\n"
         + "\n".join(rows))
table += (f"\n\n{n} refactorings: {clean} decided cleanly by every property, {rf} with at least one "
          f"refusal (ANALYSIS-ERROR) and no false alarm, {fa} with a false alarm, {na} not applicable.\n")
p = os.path.join(HERE, "DESIGN.md")
s = open(p).read()
a, b = "<!-- BENIGN-TABLE-BEGIN -->", "<!-- BENIGN-TABLE-END -->"
if a in s:
  s = s[:s.index(a) + len(a)] + "\n" + table + s[s.index(b):]
  open(p, "w").write(s)
print(table[-260:])
