#!/venv/bin/python -I
"""usage: try_patch.py <PROP> <patch relative to /verif, e.g. seeded/C03-m1/patch.diff>

Runs the rules of PROP on an in-memory overlay of /repo with the patch applied
(nothing under /repo is touched) and prints what fires."""
import os
import sys
HERE = os.path.dirname(os.path.dirname(os.path.abspath(__file__)))
sys.path.insert(0, HERE)
import importlib
from sa import core, selftest

prop, patch = sys.argv[1], sys.argv[2]
for f in sorted(os.listdir(os.path.join(HERE, "rules"))):
  if f.endswith(".py") and f[:-3].split("_")[0] == prop.lower():
    importlib.import_module(f"rules.{f[:-3]}")
ctx0 = core.Ctx()
ov = selftest._apply_patch(ctx0, patch)
if ov is None:
  print("patch does not apply"); sys.exit(2)
ctx = core.Ctx(overlay=ov)
errors, counts = core.run_rules(ctx, prop)
viol, kn, good = core.decide(ctx, prop, errors)
for c in ctx._cache.get("cleanup", []):
  c()
for v in viol:
  print(f"VIOLATION {v.key} {v.file}:{v.line} {v.reason[:300]}")
for e in errors:
  print("ANALYSIS-ERROR", e[:300])
print(f"{len(viol)} violations, {len(errors)} analysis errors, {len(good)} hold")
sys.exit(1 if viol else (2 if errors else 0))
