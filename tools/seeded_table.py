#!/venv/bin/python -I
"""Rewrites the seeded-changes table in DESIGN.md (between the markers) from
seeded/*/meta.json and README.md."""
import json
import os
import re
HERE = os.path.dirname(os.path.dirname(os.path.abspath(__file__)))
rows = []
for d in sorted(os.listdir(os.path.join(HERE, "seeded"))):
  mp = os.path.join(HERE, "seeded", d, "meta.json")
  if not os.path.exists(mp):
    continue
  m = json.load(open(mp))
  readme = ""
  rp = os.path.join(HERE, "seeded", d, "README.md")
  if os.path.exists(rp):
    lines = [l.strip() for l in open(rp) if l.strip() and not l.startswith("#")]
    readme = (m.get("summary") or (lines[0] if lines else ""))[:230].replace("|", "/")
  det = []
  for p, v in sorted(m.get("detected_by", {}).items()):
    if v["exit"] == 1:
      rules = sorted({re.search(r"rule=(\S+)", r).group(1) for r in v["reports"] if "rule=" in r})
      det.append(f"{p} ({', '.join(rules)})")
    else:
      det.append(f"{p}: analysis-error only")
  status = "caught" if m.get("caught") else ("not caught" if m.get("confirmed") else "unconfirmed")
  rows.append(f"| {d} | {m['property']} | {readme} | {'yes' if m.get('confirmed') else 'NO'} | {status} | {'; '.join(det) or '-'} |")
table = ("| id | property | change (from the independent agent's README) | confirmed | verdict | detecting checks |\n"
         "|----|----------|----------------------------------------------|-----------|---------|------------------|\n"
         + "\n".join(rows))
n_c = sum("| caught |" in r for r in rows)
table += f"\n\n{n_c} of {len(rows)} seeded changes are reported as a VIOLATION by at least one registered check.\n"
p = os.path.join(HERE, "DESIGN.md")
s = open(p).read()
a, b = "<!-- SEEDED-TABLE-BEGIN -->", "<!-- SEEDED-TABLE-END -->"
if a in s:
  s = s[:s.index(a) + len(a)] + "\n" + table + s[s.index(b):]
  open(p, "w").write(s)
print(table[-200:])
