#!/venv/bin/python -I
"""usage: try_benign.py <id> [--src DIR]

Evaluates a behaviour-preserving refactoring (benign/<id>/patch.diff, copied
from --src if given) against every property's rules on an in-memory overlay.
A VIOLATION here is a false alarm of the machinery; an ANALYSIS-ERROR means a
rule refuses to decide on the refactored shape.  Writes benign/<id>/meta.json."""
import argparse
import importlib
import json
import os
import shutil
import sys
HERE = os.path.dirname(os.path.dirname(os.path.abspath(__file__)))
sys.path.insert(0, HERE)
from sa import core, selftest

ap = argparse.ArgumentParser()
ap.add_argument("id")
ap.add_argument("--src")
ap.add_argument("--kind", default="benign", choices=["benign", "seeded"],
                help="seeded: the patch is a seeded defect; only report which properties fire (no meta.json)")
args = ap.parse_args()
dst = os.path.join(HERE, args.kind, args.id)
os.makedirs(dst, exist_ok=True)
if args.src:
  for f in os.listdir(args.src):
    if os.path.isfile(os.path.join(args.src, f)):
      shutil.copy(os.path.join(args.src, f), os.path.join(dst, f))
for f in sorted(os.listdir(os.path.join(HERE, "rules"))):
  if f.startswith("c") and f.endswith(".py"):
    importlib.import_module("rules." + f[:-3])
ctx0 = core.Ctx()
ov = selftest._apply_patch(ctx0, os.path.join(args.kind, args.id, "patch.diff"))
meta = {"id": args.id, "applies": ov is not None, "false_alarms": {}, "refusals": {}}
if ov is None:
  print(args.id, "patch does not apply to the current tree")
else:
  for prop in sorted({s.prop for s in core.RULES.values()}):
    ctx = core.Ctx(overlay=ov)
    errors, counts = core.run_rules(ctx, prop)
    viol, kn, good = core.decide(ctx, prop, errors)
    for c in ctx._cache.get("cleanup", []):
      c()
    if viol:
      meta["false_alarms"][prop] = [f"{v.key}: {v.reason[:200]}" for v in viol[:4]]
    if errors:
      meta["refusals"][prop] = [e[:200] for e in errors[:4]]
  print(args.id, "false alarms:", {k: len(v) for k, v in meta["false_alarms"].items()},
        "refusals:", {k: len(v) for k, v in meta["refusals"].items()})
  for p, v in meta["false_alarms"].items():
    for x in v[:2]:
      print("   FALSE-ALARM", p, x[:230])
  for p, v in meta["refusals"].items():
    for x in v[:2]:
      print("   REFUSAL", p, x[:230])
if args.kind == "benign":
  json.dump(meta, open(os.path.join(dst, "meta.json"), "w"), indent=1)
else:
  print("SEEDED", args.id, "fires:", sorted(meta["false_alarms"]), "errors:", sorted(meta["refusals"]))
