#!/venv/bin/python -I
"""Rewrites the as-built rule table in DESIGN.md from the rule registry and the
evidence files of the last run."""
import importlib
import json
import os
import sys
HERE = os.path.dirname(os.path.dirname(os.path.abspath(__file__)))
sys.path.insert(0, HERE)
from sa import core
for f in sorted(os.listdir(os.path.join(HERE, "rules"))):
  if f.startswith("c") and f.endswith(".py"):
    importlib.import_module("rules." + f[:-3])
rows = []
def keyf(s):
  import re
  return (s.prop, [int(x) for x in re.findall(r"\d+", s.rid)], s.rid)
for spec in sorted(core.RULES.values(), key=keyf):
  ev = {}
  p = os.path.join(HERE, "evidence", spec.prop + ".json")
  if os.path.exists(p):
    ev = json.load(open(p))["coverage"].get("rule_instance_counts", {})
  doc = " ".join(spec.doc.split("\n\n")[0].split())[:170].replace("|", "/")
  rows.append(f"| {spec.prop} | {spec.rid} | {doc} | {ev.get(spec.rid, '-')} | {spec.floor} | {spec.tier} |")
table = ("| property | rule | decides (first line of the rule's docstring) | instances on the last run | floor | tier |\n"
         "|---|---|---|---|---|---|\n" + "\n".join(rows) + f"\n\n{len(rows)} rules.\n")
p = os.path.join(HERE, "DESIGN.md")
s = open(p).read()
a, b = "<!-- RULES-TABLE-BEGIN -->", "<!-- RULES-TABLE-END -->"
if a in s:
  s = s[:s.index(a) + len(a)] + "\n" + table + s[s.index(b):]
  open(p, "w").write(s)
print(len(rows), "rules")
