#!/venv/bin/python -I
"""Entry point: /venv/bin/python -I /verif/check.py <Cnn> [--tier quick|thorough]

Decides the structural clauses of property <Cnn> from /repo's current source
(static analysis only: nothing from /repo is imported or executed).
"""
import argparse
import importlib
import json
import os
import sys
import time
import traceback

HERE = os.path.dirname(os.path.abspath(__file__))
sys.path.insert(0, HERE)

from sa import core  # noqa: E402


def load_rules(prop=None):
  """Imports rules/cNN.py (the property's main module) and any extension
  modules rules/cNN_*.py (more rules of the same property)."""
  names = sorted(f[:-3] for f in os.listdir(os.path.join(HERE, "rules"))
                 if f.startswith("c") and f.endswith(".py"))
  mods = {}
  for n in names:
    base = n.split("_")[0]
    if prop and base != prop.lower():
      continue
    m = importlib.import_module(f"rules.{n}")
    if n == base:
      mods[n.upper()] = m
  return mods


def run_property(prop, tier, repo=None, overlay=None, only=None):
  mods = load_rules(prop)
  if prop not in mods:
    raise core.AnalysisError(f"no rules for {prop}")
  ctx = core.Ctx(repo or core.REPO, overlay, tier)
  errors, counts = core.run_rules(ctx, prop, only)
  viol, kn, good = core.decide(ctx, prop, errors)
  return mods[prop], ctx, errors, counts, viol, kn, good


def main():
  ap = argparse.ArgumentParser()
  ap.add_argument("prop", nargs="?")
  ap.add_argument("--tier", default=os.environ.get("VERIF_TIER", "quick"),
                  choices=["quick", "thorough"])
  ap.add_argument("--replay")
  ap.add_argument("--repo", default=None)
  ap.add_argument("--no-evidence", action="store_true")
  args = ap.parse_args()
  t0 = time.time()
  only = None
  if args.replay:
    with open(args.replay) as f:
      rep = json.load(f)
    args.prop = rep["property"]
    only = {rep["rule"]}
  prop = args.prop
  try:
    mod, ctx, errors, counts, viol, kn, good = run_property(
        prop, args.tier, args.repo, None, only)
    if args.replay:
      viol = [v for v in viol if v.key == rep["key"]]
      for v in viol:
        print(f"{v.file}:{v.line} rule={v.rule} instance={v.construct} {v.reason}")
        print(f"VIOLATION property={prop} replay={args.replay}")
      if not viol:
        print(f"replay: instance {rep['key']} holds (or is gone) on the current tree")
      return 1 if viol else 0
    extra = None
    if args.tier == "thorough" and not errors:
      from sa import selftest
      extra = {"sensitivity_suite": selftest.run_suite(prop)}
    for inst in kn:
      known = core.load_known()[inst.key]
      print(f"KNOWN-FINDING: property={prop} {inst.key} {inst.file}:{inst.line} "
            f"{known['what']}")
    paths = []
    if not args.no_evidence:
      paths = core.write_replays(prop, viol)
      core.write_evidence(prop, args.tier, ctx, viol, kn, good, errors, counts,
                          time.time() - t0, mod.EXPLANATION, mod.ASSUMPTIONS,
                          extra)
    for e in errors:
      print(f"ANALYSIS-ERROR property={prop} {e}")
    for n, v in enumerate(viol):
      print(f"{v.file}:{v.line} rule={v.rule} instance={v.construct} {v.reason}")
      rp = paths[n] if paths else "-"
      print(f"VIOLATION property={prop} replay={rp}")
    total = sum(counts.values())
    print(f"{prop} tier={args.tier}: {total} rule instances over "
          f"{len(ctx.files_read)} files; {len(good)} hold, {len(kn)} known "
          f"findings, {len(viol)} violations, {len(errors)} analysis errors "
          f"({time.time() - t0:.2f}s)")
    if viol:
      return 1
    if errors:
      return 2
    return 0
  except core.AnalysisError as e:
    print(f"ANALYSIS-ERROR property={prop} {e}")
    return 2
  except Exception:  # pylint: disable=broad-except
    print(f"ANALYSIS-ERROR property={prop} internal error")
    traceback.print_exc()
    return 2


if __name__ == "__main__":
  sys.stdout.flush()
  rc = main()
  sys.stdout.flush()
  os._exit(rc)
