"""Frozen reference facts about CPython bytecode (NOT derived from pytype).

Provenance
----------
* HAVE_ARGUMENT = 90 for every CPython 3.8 - 3.12: `Include/opcode.h`
  (`#define HAVE_ARGUMENT 90`) / `Lib/opcode.py` (`HAVE_ARGUMENT = 90`) of the
  v3.8.0 ... v3.12.0 tags; for 3.12 it is re-checked at run time against the
  host interpreter's `opcode.HAVE_ARGUMENT`.  pycnite's `wordcode_reader`
  hard-codes the same constant and delivers `arg=None` below it.
* NO_FALLTHROUGH: instructions after which control never continues with the
  textually next instruction.
    - 3.11/3.12 `Python/compile.c` / `Python/flowgraph.c`:
        IS_UNCONDITIONAL_JUMP_OPCODE = JUMP, JUMP_NO_INTERRUPT, JUMP_FORWARD,
          JUMP_BACKWARD, JUMP_BACKWARD_NO_INTERRUPT
        IS_SCOPE_EXIT_OPCODE = RETURN_VALUE, RETURN_CONST (3.12), RAISE_VARARGS,
          RERAISE
      (JUMP / JUMP_NO_INTERRUPT are pseudo-instructions that never reach a
      .pyc; INTERPRETER_EXIT only occurs in the interpreter's own trampoline
      code object, never in compiled source.)
    - 3.8 - 3.10 `Python/compile.c` (`stackdepth`, `assemble`), `Python/ceval.c`:
      JUMP_ABSOLUTE, JUMP_FORWARD (unconditional `JUMPTO`/`JUMPBY`),
      RETURN_VALUE, RAISE_VARARGS, RERAISE (3.9+; always `goto
      exception_unwind`).
    - <= 3.7 `Python/ceval.c`: BREAK_LOOP, CONTINUE_LOOP (`why = WHY_BREAK /
      WHY_CONTINUE; goto fast_block_end`).  pytype keeps classes for them.
  Deliberately *not* in the set: END_ASYNC_FOR, END_FINALLY, POP_FINALLY,
  YIELD_VALUE, YIELD_FROM, CALL_FINALLY (they can continue with the next
  instruction: END_ASYNC_FOR when the exception is StopAsyncIteration;
  END_FINALLY when no exception is pending; CALL_FINALLY "returns" to it).
* BLOCK_SETUP: instructions that push a block and record a handler address
  without transferring control (`SETUP_*` in `Python/ceval.c`: `PyFrame_BlockSetup
  (f, <type>, INSTR_OFFSET() + oparg, STACK_LEVEL())`); SETUP_LOOP/SETUP_EXCEPT
  existed up to 3.7.  BLOCK_POP: `POP_BLOCK` (`PyFrame_BlockPop`).
  SETUP_ANNOTATIONS is unrelated (creates `__annotations__`).
"""

HAVE_ARGUMENT = {(3, 8): 90, (3, 9): 90, (3, 10): 90, (3, 11): 90, (3, 12): 90}

NO_FALLTHROUGH = frozenset({
    "RETURN_VALUE", "RETURN_CONST", "RAISE_VARARGS", "RERAISE",
    "JUMP_FORWARD", "JUMP_BACKWARD", "JUMP_BACKWARD_NO_INTERRUPT",
    "JUMP_ABSOLUTE", "BREAK_LOOP", "CONTINUE_LOOP",
})

BLOCK_SETUP = frozenset({
    "SETUP_LOOP", "SETUP_EXCEPT", "SETUP_FINALLY", "SETUP_WITH",
    "SETUP_ASYNC_WITH",
})
BLOCK_POP = frozenset({"POP_BLOCK"})

# Opcode names the bytecode reader (pycnite.bytecode.wordcode_reader) folds into
# the following instruction and never yields.
NEVER_YIELDED = frozenset({"EXTENDED_ARG"})
