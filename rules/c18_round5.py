"""C18 - R18.50: the frame files a *new* state under every block.

`BlockState.store_local` updates a state in place, and the frame executes the
opcodes of a block on the very object filed under that block
(`_current_state = _states[block]`).  The states of two blocks therefore have
to be two objects: if the frame files, under a block, a state that exists
already - the state it was handed, its current state, the entry of another
block - then a store executed in one block rewrites what was delivered to the
other, and the later join merges an object with itself: the value that was
live on the other path is gone, the merged state is no longer the union of
its predecessors.  R18.9 decides that the deriving methods of state.py
(`with_condition`, `merge_into`) return constructions; this rule decides the
other half, on the side of the caller: every value the frame writes into its
block -> state table is a state constructed or derived during that call.
"""
import ast

from sa.core import rule, AnalysisError
from sa.pyindex import get_module, dotted, src, walk_no_nested
from sa import flow
from rules import _util_c12c17c18 as U

FB = "pytype/rewrite/flow/frame_base.py"
ST = "pytype/rewrite/flow/state.py"
ST_MOD = "pytype.rewrite.flow.state"
_FUNCS = (ast.FunctionDef, ast.AsyncFunctionDef)
_TABLE_TYPES = {"dict", "Dict", "Mapping", "MutableMapping", "defaultdict",
                "DefaultDict", "OrderedDict"}
_READS = {"get", "items", "values", "keys", "copy", "__contains__",
          "__getitem__", "__len__"}
_DEEP_COPIES = {"copy.deepcopy", "deepcopy"}


def _params(fn):
  a = fn.args
  return [x.arg for x in a.posonlyargs + a.args + a.kwonlyargs] + \
      [x.arg for x in (a.vararg, a.kwarg) if x is not None]


def _state_api(ctx):
  """(state classes of state.py, their methods that derive a state)."""
  smod = U.virtual(ctx, ST, flatten=True)
  classes = U._top_classes(smod.tree)  # pylint: disable=protected-access
  if "BlockState" not in classes:
    raise AnalysisError("state.py defines no BlockState")
  states = {c for c in classes if "BlockState" in U.local_mro(classes, c)}
  derive = set()
  for c in states:
    for m in classes[c].body:
      if isinstance(m, _FUNCS) and U._kind(m) == "plain" and \
          not (m.name.startswith("__") and m.name.endswith("__")) and \
          m.returns is not None and \
          U.annotation_classes(m.returns, classes) & states:  # pylint: disable=protected-access
        derive.add(m.name)
  if not derive:
    raise AnalysisError("state.py: no method of BlockState derives a state")
  return states, derive


def _stored_names(unit):
  out = set()
  todo = [unit]
  while todo:
    n = todo.pop()
    if isinstance(n, _FUNCS + (ast.ClassDef,)):
      out.add(n.name)
      continue
    if isinstance(n, ast.Lambda):
      continue
    if isinstance(n, ast.Name) and isinstance(n.ctx, (ast.Store, ast.Del)):
      out.add(n.id)
    elif isinstance(n, ast.ExceptHandler) and n.name:
      out.add(n.name)
    todo.extend(ast.iter_child_nodes(n))
  return out


def _reaching(fn):
  """May-flow of (name, defining unit) facts; (param, None) at entry."""
  def gen(unit):
    return {(nm, unit) for nm in _stored_names(unit)}

  def kill(unit):
    names = _stored_names(unit)
    if not names:
      return None
    return lambda fact: fact[0] in names
  return flow.flow(fn, gen, kill, mode="may",
                   entry=frozenset((p, None) for p in _params(fn)))


class _Judge:
  """What an expression written in a method of the frame denotes:
  ('fresh',)  a state constructed / derived while the expression is evaluated,
  ('none',)   None,
  ('param', p) the value of parameter p of the function it is written in,
  ('existing', what) an object that exists already (field, table entry)."""

  def __init__(self, mod, states, derive, tables):
    self.mod, self.states, self.derive, self.tables = mod, states, derive, tables
    self.classes = U._top_classes(mod.tree)  # pylint: disable=protected-access
    self._reach = {}
    self._active = []

  # -- vocabulary -------------------------------------------------------------
  def is_state_ctor(self, call):
    d = dotted(call.func)
    if not d:
      return False
    parts = d.split(".")
    if parts[-1] not in self.states:
      return False
    head = self.mod.imports.get(parts[0])
    if head is None:
      return False
    return ".".join([head] + parts[1:]) in {f"{ST_MOD}.{s}" for s in self.states}

  def is_table(self, e, fn):
    """`self.<table>` (or a local that is only ever bound to it)."""
    ps = _params(fn)
    if isinstance(e, ast.Attribute) and isinstance(e.value, ast.Name) and ps \
        and e.value.id == ps[0] and e.attr in self.tables:
      return e.attr
    if isinstance(e, ast.Name) and e.id not in ps:
      vals = [n.value for n in walk_no_nested(fn)
              if isinstance(n, ast.Assign) and len(n.targets) == 1
              and isinstance(n.targets[0], ast.Name) and n.targets[0].id == e.id]
      hits = {self.is_table(v, fn) if isinstance(v, ast.Attribute) else None
              for v in vals}
      if vals and len(hits) == 1 and None not in hits and \
          len(vals) == sum(1 for n in walk_no_nested(fn)
                           if isinstance(n, ast.Name) and n.id == e.id
                           and isinstance(n.ctx, (ast.Store, ast.Del))):
        return next(iter(hits))
    return None

  def reach(self, fn):
    if id(fn) not in self._reach:
      self._reach[id(fn)] = _reaching(fn)
    return self._reach[id(fn)]

  # -- expressions ------------------------------------------------------------
  def kinds(self, e, fn, owner, depth=0):
    if depth > 10:
      raise AnalysisError(f"{fn.name}: value too deeply nested")
    ps = _params(fn)
    if isinstance(e, ast.Constant) and e.value is None:
      return {("none",)}
    if isinstance(e, ast.IfExp):
      return self.kinds(e.body, fn, owner, depth + 1) | \
          self.kinds(e.orelse, fn, owner, depth + 1)
    if isinstance(e, ast.BoolOp):
      out = set()
      for v in e.values:
        out |= self.kinds(v, fn, owner, depth + 1)
      return out
    if isinstance(e, ast.NamedExpr):
      return self.kinds(e.value, fn, owner, depth + 1)
    if isinstance(e, ast.Call):
      return self._call(e, fn, owner, depth)
    if isinstance(e, ast.Name):
      return self._name(e, fn, owner, depth)
    if isinstance(e, (ast.Attribute, ast.Subscript)):
      root = e
      while isinstance(root, (ast.Attribute, ast.Subscript)):
        root = root.value
      if isinstance(root, ast.Name) and (root.id in ps or self.is_table(root, fn)):
        return {("existing", src(e))}
    raise AnalysisError(f"{fn.name}: what `{src(e)[:60]}` denotes is not understood")

  def _name(self, e, fn, owner, depth):
    at = self.mod.enclosing_stmt(e)
    before = self.reach(fn).before.get(at)
    if before is None:
      raise AnalysisError(f"{fn.name}: `{e.id}` is read in unreachable code")
    defs = [u for nm, u in before if nm == e.id]
    if not defs:
      raise AnalysisError(f"{fn.name}: `{e.id}` is not a local of the function")
    out = set()
    for u in defs:
      if u is None:
        out.add(("param", e.id))
        continue
      v = None
      if isinstance(u, ast.Assign) and len(u.targets) == 1 and \
          isinstance(u.targets[0], ast.Name) and u.targets[0].id == e.id:
        v = u.value
      elif isinstance(u, ast.AnnAssign) and isinstance(u.target, ast.Name) and \
          u.target.id == e.id and u.value is not None:
        v = u.value
      else:
        w = [n for n in ast.walk(u) if isinstance(n, ast.NamedExpr)
             and n.target.id == e.id]
        if len(w) == 1 and len([n for n in ast.walk(u) if isinstance(n, ast.Name)
                                and n.id == e.id and isinstance(n.ctx, ast.Store)]) == 1:
          v = w[0].value
      if v is None:
        raise AnalysisError(
            f"{fn.name}: local `{e.id}` is bound by something other than a "
            "plain assignment")
      out |= self.kinds(v, fn, owner, depth + 1)
    return out

  def _call(self, e, fn, owner, depth):
    f = e.func
    ps = _params(fn)
    d = dotted(f) or ""
    if self.is_state_ctor(e):
      return {("fresh",)}
    if d in _DEEP_COPIES or (d.split(".")[0] in self.mod.imports and
                             self.mod.imports[d.split(".")[0]] == "copy"
                             and d.endswith(".deepcopy")):
      return {("fresh",)}
    if isinstance(f, ast.Attribute):
      recv = f.value
      t = self.is_table(recv, fn)
      if t is not None:
        if f.attr == "get":
          out = {("existing", f"{src(f)}(..)")}
          if len(e.args) > 1:
            out |= self.kinds(e.args[1], fn, owner, depth + 1)
          return out
        if f.attr == "setdefault" and len(e.args) == 2:
          return {("existing", f"{src(f)}(..)")} | \
              self.kinds(e.args[1], fn, owner, depth + 1)
        raise AnalysisError(f"{fn.name}: what `{src(e)[:60]}` returns is not understood")
      is_self = isinstance(recv, ast.Name) and ps and recv.id == ps[0] and \
          U._kind(fn) == "plain"  # pylint: disable=protected-access
      if is_self:
        hit = U.resolve_method(self.mod, owner, f.attr) if owner else None
        if hit is None:
          cands = [(c, m) for c, cd in self.classes.items() for m in cd.body
                   if isinstance(m, _FUNCS) and m.name == f.attr]
          if len(cands) != 1:
            raise AnalysisError(
                f"{fn.name}: `{src(f)}` is not a method of the file")
          hit = cands[0]
        return self._callee(hit[1], hit[0], e, fn, owner, depth, bound=True)
      if f.attr in self.derive:
        # a deriving method of BlockState on some state: a construction
        # (R18.9 decides that in state.py)
        return {("fresh",)}
    if isinstance(f, ast.Name) and f.id in self.mod.functions and f.id not in ps:
      return self._callee(self.mod.functions[f.id], None, e, fn, owner, depth,
                          bound=False)
    raise AnalysisError(f"{fn.name}: what `{src(e)[:60]}` returns is not understood")

  def _callee(self, g, gowner, call, fn, owner, depth, bound):
    kind = U._kind(g)  # pylint: disable=protected-access
    if kind is None or (bound and kind != "plain"):
      raise AnalysisError(f"{g.name}: decorated helper")
    if id(g) in self._active:
      raise AnalysisError(f"{g.name}: recursive helper")
    if any(isinstance(n, (ast.Yield, ast.YieldFrom)) for n in walk_no_nested(g)):
      raise AnalysisError(f"{g.name}: generator")
    a = g.args
    if a.vararg or a.kwarg or any(isinstance(x, ast.Starred) for x in call.args) \
        or any(k.arg is None for k in call.keywords):
      raise AnalysisError(f"{g.name}: starred arguments")
    names = [x.arg for x in a.posonlyargs + a.args]
    if bound:
      me, names = names[0], names[1:]
    else:
      me = None
    binding = dict(zip(names, call.args))
    if len(call.args) > len(names):
      raise AnalysisError(f"{g.name}: too many arguments")
    for k in call.keywords:
      binding[k.arg] = k.value
    self._active.append(id(g))
    try:
      out = set()
      rets = [r for r in walk_no_nested(g) if isinstance(r, ast.Return)]
      if not rets:
        out.add(("none",))
      for r in rets:
        if r.value is None:
          out.add(("none",))
          continue
        for k in self.kinds(r.value, g, gowner, depth + 1):
          if k[0] == "param":
            if k[1] == me:
              out.add(("existing", "the frame itself"))
            elif k[1] in binding:
              out |= self.kinds(binding[k[1]], fn, owner, depth + 1)
            else:
              raise AnalysisError(
                  f"{g.name}: returns parameter `{k[1]}` left to its default")
          elif k[0] == "existing":
            out.add(("existing", f"{src(call.func)}(..) -> {k[1]}"))
          else:
            out.add(k)
      return out
    finally:
      self._active.pop()


def _tables(mod, states):
  """Attributes of `self` that are declared as mapping -> state."""
  out = {}
  for cname, cd in U._top_classes(mod.tree).items():  # pylint: disable=protected-access
    for m in cd.body:
      if not isinstance(m, _FUNCS) or not _params(m):
        continue
      me = _params(m)[0]
      for n in walk_no_nested(m):
        if isinstance(n, ast.AnnAssign) and isinstance(n.target, ast.Attribute) \
            and isinstance(n.target.value, ast.Name) and n.target.value.id == me:
          ann = n.annotation
          if isinstance(ann, ast.Constant) and isinstance(ann.value, str):
            try:
              ann = ast.parse(ann.value, mode="eval").body
            except SyntaxError as e:
              raise AnalysisError(f"{cname}: unreadable annotation") from e
          if isinstance(ann, ast.Subscript) and \
              (dotted(ann.value) or "").split(".")[-1] in _TABLE_TYPES and \
              any((dotted(x) or "").split(".")[-1] in states
                  for x in ast.walk(ann.slice)):
            out[n.target.attr] = cname
    for st in cd.body:       # class-level declaration `_states: dict[int, BlockState]`
      if isinstance(st, ast.AnnAssign) and isinstance(st.target, ast.Name):
        ann = st.annotation
        if isinstance(ann, ast.Subscript) and \
            (dotted(ann.value) or "").split(".")[-1] in _TABLE_TYPES and \
            any((dotted(x) or "").split(".")[-1] in states
                for x in ast.walk(ann.slice)):
          out[st.target.id] = cname
  return out


def _writes(judge, fn):
  """[(table, node, [value expressions])] for every site of `fn` that puts
  values into a state table; AnalysisError for a write that is not
  understood or a table that escapes."""
  out = []
  for n in walk_no_nested(fn):
    # the table as a whole
    if isinstance(n, (ast.Assign, ast.AnnAssign, ast.AugAssign)):
      targets = list(n.targets) if isinstance(n, ast.Assign) else [n.target]
      flat = []
      while targets:
        t = targets.pop()
        if isinstance(t, (ast.Tuple, ast.List)):
          targets.extend(t.elts)
        elif isinstance(t, ast.Starred):
          targets.append(t.value)
        else:
          flat.append(t)
      for t in flat:
        tab = judge.is_table(t, fn) if isinstance(t, ast.Attribute) else None
        if tab is not None:
          if isinstance(n, ast.AnnAssign) and n.value is None:
            continue
          v = n.value
          if isinstance(n, ast.AugAssign) or len(flat) != 1:
            raise AnalysisError(f"{fn.name}: `{src(t)}` is rebound in a way that is not understood")
          if isinstance(v, ast.Dict) and None not in v.keys:
            out.append((tab, n, list(v.values)))
          elif isinstance(v, ast.Call) and dotted(v.func) in ("dict", "collections.OrderedDict") \
              and not v.args and not v.keywords:
            out.append((tab, n, []))
          else:
            raise AnalysisError(
                f"{fn.name}: `{src(t)} = {src(v)[:40]}` - initial content of the "
                "state table is not understood")
        elif isinstance(t, ast.Subscript):
          tab = judge.is_table(t.value, fn)
          if tab is not None:
            if isinstance(n, ast.AugAssign) or len(flat) != 1 or n.value is None:
              raise AnalysisError(f"{fn.name}: `{src(t)}` is written in a way that is not understood")
            out.append((tab, n, [n.value]))
    elif isinstance(n, ast.Call):
      f = n.func
      if isinstance(f, ast.Attribute):
        tab = judge.is_table(f.value, fn)
        if tab is not None:
          if f.attr == "setdefault":
            if len(n.args) != 2 or n.keywords:
              raise AnalysisError(f"{fn.name}: `{src(n)[:60]}` is not understood")
            out.append((tab, n, [n.args[1]]))
          elif f.attr in ("pop", "popitem", "clear", "__delitem__"):
            pass                       # removing an entry files nothing
          elif f.attr not in _READS:
            raise AnalysisError(
                f"{fn.name}: `{src(n)[:60]}` - what it writes into the state "
                "table is not understood")
      for a in list(n.args) + [k.value for k in n.keywords]:
        if isinstance(a, ast.Starred):
          a = a.value
        if judge.is_table(a, fn) is not None:
          raise AnalysisError(
              f"{fn.name}: the state table is handed to `{src(f)[:40]}`; who "
              "writes into it is not decided")
    elif isinstance(n, (ast.Return, ast.Yield)) and n.value is not None and \
        judge.is_table(n.value, fn) is not None:
      raise AnalysisError(f"{fn.name}: the state table itself is handed out")
  return out


@rule("R18.50", "C18", floor=2)
def r18_50(ctx):
  """Every state the frame files in its block->state table is constructed or derived in that very call, never an existing state."""
  states, derive = _state_api(ctx)
  mod = get_module(ctx, FB)
  tables = _tables(mod, states)
  if not tables:
    raise AnalysisError(
        "frame_base.py: no attribute is declared as a mapping of block ids to "
        "BlockState")
  judge = _Judge(mod, states, derive, set(tables))
  n = 0
  for cname, cd in U._top_classes(mod.tree).items():  # pylint: disable=protected-access
    for m in cd.body:
      if not isinstance(m, _FUNCS):
        continue
      if any(isinstance(x, _FUNCS + (ast.Lambda,)) and any(
          isinstance(y, ast.Attribute) and y.attr in tables for y in ast.walk(x))
             for x in ast.walk(m) if x is not m):
        raise AnalysisError(
            f"{cname}.{m.name}: the state table is used inside a nested function")
      if U._kind(m) != "plain":  # pylint: disable=protected-access
        if any(isinstance(y, ast.Attribute) and y.attr in tables for y in ast.walk(m)):
          raise AnalysisError(f"{cname}.{m.name}: decorated method uses the state table")
        continue
      sites = _writes(judge, m)
      by_table = {}
      for tab, node, values in sites:
        by_table.setdefault(tab, []).append((node, values))
      for tab, items in sorted(by_table.items()):
        cons = f"{cname}.{m.name}:{tab}:files-new-state"
        verdicts = []
        wrong = None
        n_values = 0
        for node, values in items:
          for v in values:
            n_values += 1
            ks = judge.kinds(v, m, cname)
            verdicts += sorted("/".join(k) for k in ks)
            for k in sorted(ks):
              if k[0] in ("param", "existing") and wrong is None:
                what = f"its parameter `{k[1]}`" if k[0] == "param" else f"`{k[1]}`"
                wrong = (node, what)
        facts = {"writes": len(items), "values": sorted(set(verdicts)),
                 "deriving_methods": sorted(derive)}
        if n_values == 0:
          continue                       # an empty table files nothing
        n += 1
        if wrong is None:
          ctx.ok(cons, FB, items[0][0].lineno, facts)
        else:
          node, what = wrong
          ctx.bad(cons, FB, node.lineno,
                  f"{cname}.{m.name} files {what} - a state that exists "
                  f"already - in {tab}: the frame runs a block on the object "
                  "filed under it and BlockState.store_local updates that "
                  "object in place, so the same state filed under (or still "
                  "used for) two blocks makes a store in one block visible "
                  "in the other, and the later join merges the state with "
                  "itself instead of with the state of the other path",
                  facts)
  if n == 0:
    raise AnalysisError("frame_base.py: nothing is ever filed in the state table")


_MERGE = "    self._states[block_id] = from_state.merge_into(self._states.get(block_id))\n"
_INIT = ("    self._states[self._code.order[0].id] = state.BlockState(\n"
         "        locals_=dict(self._initial_locals))\n")
_NEXT = ("      self._merge_state_into(self._current_state, opcode.next.index)\n")

VARIANTS = [
    {"name": "seeded-C18-r5m1", "rule": "R18.50",
     "patch": "seeded/C18-r5m1/patch.diff", "expect": "fire"},
    {"name": "merge-or-adopt-conditional-expression", "rule": "R18.50", "file": FB,
     "expect": "fire", "old": _MERGE,
     "new": "    old = self._states.get(block_id)\n"
            "    self._states[block_id] = (\n"
            "        from_state.merge_into(old) if old else from_state)\n"},
    {"name": "setdefault-files-incoming-state", "rule": "R18.50", "file": FB,
     "expect": "fire", "old": _MERGE,
     "new": "    if self._states.setdefault(block_id, from_state) is not from_state:\n"
            + _MERGE.replace("    self", "      self")},
    {"name": "step-files-current-state-under-next-block", "rule": "R18.50",
     "file": FB, "expect": "fire", "old": _NEXT,
     "new": "      if opcode.next.index in self._states:\n  " + _NEXT +
            "      else:\n"
            "        self._states[opcode.next.index] = self._current_state\n"},
    {"name": "adopt-through-helper-method", "rule": "R18.50", "expect": "fire",
     "edits": [(FB, _MERGE,
                "    self._states[block_id] = self._incoming(from_state, block_id)\n\n"
                "  def _incoming(self, new, block_id):\n"
                "    old = self._states.get(block_id)\n"
                "    if old is None:\n"
                "      return new\n"
                "    return new.merge_into(old)\n")]},
    {"name": "first-block-shares-entry-with-final", "rule": "R18.50", "file": FB,
     "expect": "fire", "old": _INIT,
     "new": _INIT + "    self._states[_FINAL] = self._states[self._code.order[0].id]\n"},
    {"name": "twin-benign-C18-r4-hoisted-lookup", "rule": "R18.50",
     "patch": "benign/C18-r4/patch.diff", "expect": "silent"},
    {"name": "twin-merge-through-locals", "rule": "R18.50", "file": FB,
     "expect": "silent", "old": _MERGE,
     "new": "    table = self._states\n"
            "    merged = table.get(block_id)\n"
            "    merged = from_state.merge_into(merged)\n"
            "    table[block_id] = merged\n"},
    {"name": "twin-merge-through-helper-method", "rule": "R18.50", "expect": "silent",
     "edits": [(FB, _MERGE,
                "    self._states[block_id] = self._incoming(from_state, block_id)\n\n"
                "  def _incoming(self, new, block_id):\n"
                "    old = self._states.get(block_id)\n"
                "    if old is None:\n"
                "      return new.merge_into(None)\n"
                "    return new.merge_into(old)\n")]},
    {"name": "twin-initial-state-through-local-and-display", "rule": "R18.50",
     "expect": "silent",
     "edits": [(FB, _INIT,
                "    first = state.BlockState(locals_=dict(self._initial_locals))\n"
                "    self._states[self._code.order[0].id] = first\n")]},
]
