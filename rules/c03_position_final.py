"""C03 extension R3.21: what the filter looked at is final once the filter has looked.

`ErrorLog._add` hands every error to the director's filter, which decides from
the error's *position* (filename, line) and class whether a directive silences
it.  That verdict is only worth something if the position the user finally
sees is the position the filter saw: an error that is moved (Error.set_line,
a store to the backing field) after it went through `_add` is reported at a
line whose directives were never consulted, and was judged by the directives
of a line it is not reported at.

The rule is a who-may-write + ordering argument over every place that can move
an existing error:

* the writers are derived, not named: the attributes the filter reads from the
  error it is handed (Director.filter_error and the Director methods it passes
  the error to), mapped through the properties of errors.Error to their backing
  fields; a writer is a method of Error (other than __init__) storing one of
  those fields;
* a move site is a call that binds to a writer's signature, or a store to a
  backing field through anything but `self` inside a class that owns such a
  field; sites are searched in every non-test module of the package;
* the moved object must be *not yet filtered* on every path: a local bound to a
  freshly constructed Error (or to the result of a log-class helper all of
  whose returns are fresh) that has not been handed to `_add` (or to a method
  that hands its parameter on to `_add`); a parameter makes the enclosing
  function a mover whose callers are judged in turn (the filter itself is the
  one mover that may be reached from `_add`: it runs before the verdict);
  the result of a log method that returns what it logged, an element of the
  log, a local after `_add(<local>)` are *filtered* objects: VIOLATION;
  anything else: ANALYSIS-ERROR.
"""
import ast

from sa.core import rule, AnalysisError
from sa.pyindex import get_module, dotted, src, walk_no_nested, all_py_files
from sa import flow

ERR = "pytype/errors/errors.py"
DIR = "pytype/directors/directors.py"
VM = "pytype/vm.py"
_LOGGERS = ("_log", "log", "logging", "logger", "_logger")
_PURE = {"str", "repr", "len", "isinstance", "id", "print", "bool", "type", "hash"}


def _params(fn):
  return [x.arg for x in fn.args.posonlyargs + fn.args.args + fn.args.kwonlyargs]


def _is_test(rel):
  base = rel.rsplit("/", 1)[-1]
  return base.endswith("_test.py") or "/tests/" in rel or base.startswith("test_") or "/test_data/" in rel


def _qual(mod, node):
  parts = []
  while node in mod.parent:
    node = mod.parent[node]
    if isinstance(node, (ast.FunctionDef, ast.AsyncFunctionDef, ast.ClassDef)):
      parts.append(node.name)
  return ".".join(reversed(parts)) or "<module>"


def _enclosing_class(mod, node):
  while node in mod.parent:
    node = mod.parent[node]
    if isinstance(node, ast.ClassDef):
      return node
  return None


def _binds(call, fn):
  """Parameter name -> argument node if `call` fits the signature of method `fn` (self dropped), else None."""
  a = fn.args
  pos = [p.arg for p in a.posonlyargs + a.args][1:]
  kwonly = [p.arg for p in a.kwonlyargs]
  if any(isinstance(x, ast.Starred) for x in call.args) or any(k.arg is None for k in call.keywords):
    return None
  if len(call.args) > len(pos) and not a.vararg:
    return None
  out = dict(zip(pos, call.args))
  for k in call.keywords:
    if k.arg in out or (k.arg not in pos + kwonly and not a.kwarg):
      return None
    out[k.arg] = k.value
  required = pos[:max(0, len(pos) - len(a.defaults))]
  if any(p not in out for p in required):
    return None
  if any(p.arg not in out and d is None for p, d in zip(a.kwonlyargs, a.kw_defaults)):
    return None
  return out


class _World:
  """The error classes of errors.py, the filter and the fields it looks at."""

  def __init__(self, ctx):
    self.ctx = ctx
    self.err = get_module(ctx, ERR)
    self.dir = get_module(ctx, DIR)
    e = self.err
    # the log class: the one that owns the filter slot (set by set_error_filter) and consults it
    owners = [c for c in e.classes if "set_error_filter" in e.methods(c)]
    if len(owners) != 1:
      raise AnalysisError("errors.py: the class defining set_error_filter is not unique")
    self.logcls = owners[0]
    sef = e.methods(self.logcls)["set_error_filter"]
    slots = [dotted(t) for n in walk_no_nested(sef) if isinstance(n, ast.Assign) for t in n.targets
             if src(n.value) == _params(sef)[1]]
    if len(slots) != 1 or not (slots[0] or "").startswith("self."):
      raise AnalysisError("set_error_filter does not store its argument in one attribute of the log")
    self.slot = slots[0]
    # the filter point: the method of the log class that calls self.<slot>(<its parameter>)
    pts = []
    for name, fn in e.methods(self.logcls).items():
      for c in ast.walk(fn):
        if isinstance(c, ast.Call) and dotted(c.func) == self.slot:
          if len(c.args) != 1 or c.keywords or dotted(c.args[0]) not in _params(fn)[1:]:
            raise AnalysisError(f"{self.logcls}.{name}: the filter is not called on a parameter of the method")
          pts.append((name, fn, dotted(c.args[0])))
    if len({p[0] for p in pts}) != 1:
      raise AnalysisError(f"the filter is consulted in {sorted({p[0] for p in pts})}; exactly one method expected")
    self.add_name, self.add_fn, self.add_param = pts[0]
    # log classes: the owner and its module-local subclasses
    self.logclasses = [c for c in e.classes if self.logcls in self._mro(c)]
    # the error class: the one whose instances are handed to the filter point
    self.errcls = "Error"
    ms = e.methods(self.errcls)
    self.props = {}
    for name, fn in ms.items():
      if any(dotted(d) == "property" for d in fn.decorator_list):
        rets = [r.value for r in walk_no_nested(fn) if isinstance(r, ast.Return) and r.value is not None]
        if len(rets) == 1 and (dotted(rets[0]) or "").startswith("self."):
          self.props[name] = dotted(rets[0])[5:]
      if any((dotted(d) or "").endswith(".setter") for d in fn.decorator_list):
        raise AnalysisError(f"errors.Error.{name} has a property setter: stores through properties are not modelled")
    self.err_methods = ms
    # the filter: what vm.run_program installs
    self.filter_name = "filter_error"
    self.dcls = "Director"
    dms = self.dir.methods(self.dcls)
    if self.filter_name not in dms:
      raise AnalysisError("Director.filter_error not found")
    self.dir_methods = dms
    # attributes of the error the filter (and Director methods it hands the error to) reads
    read, seen, todo = set(), set(), [(dms[self.filter_name], _params(dms[self.filter_name])[1])]
    while todo:
      fn, p = todo.pop()
      if (fn.name, p) in seen:
        continue
      seen.add((fn.name, p))
      for n in ast.walk(fn):
        if isinstance(n, ast.Attribute) and dotted(n.value) == p and isinstance(n.ctx, ast.Load):
          read.add(n.attr)
        if isinstance(n, ast.Call) and isinstance(n.func, ast.Attribute) and dotted(n.func.value) == "self" \
            and n.func.attr in dms:
          b = _binds(n, dms[n.func.attr])
          if b is None:
            if any(dotted(a) == p for a in list(n.args) + [k.value for k in n.keywords]):
              raise AnalysisError(f"Director.{fn.name}: cannot bind the call {src(n)[:60]}")
            continue
          todo += [(dms[n.func.attr], k) for k, v in b.items() if dotted(v) == p]
    read = {a for a in read if a in self.props or a not in ms}   # method calls on the error are not reads
    self.filter_reads = sorted(read)
    fields = set()
    for a in read:
      if a in self.props:
        fields.add(self.props[a])
      elif a.startswith("_") and a not in ms:
        fields.add(a)
      elif a not in ms:
        raise AnalysisError(f"the filter reads error.{a}, which is neither a simple property nor a method of errors.Error")
    self.fields = sorted(fields)
    if "_line" not in fields:
      raise AnalysisError("the filter does not read the error's line: rule premise changed")
    self.writers = sorted(name for name, fn in ms.items() if name != "__init__" and any(
        isinstance(n, ast.Attribute) and dotted(n.value) == "self" and n.attr in fields
        and not isinstance(n.ctx, ast.Load) for n in ast.walk(fn)))
    self._sum = {}

  def _mro(self, cname, depth=0):
    e = self.err
    out = [cname]
    if cname in e.classes and depth < 6:
      for b in e.classes[cname].bases:
        if dotted(b) in e.classes:
          out += self._mro(dotted(b), depth + 1)
    return out

  def log_method(self, cname, name):
    """(class, def) that `self.<name>` resolves to in log class `cname`; subclasses' overrides are not considered."""
    for c in self._mro(cname):
      ms = self.err.methods(c)
      if name in ms:
        return c, ms[name]
    return None

  # -- classification of expressions that may denote an error ---------------------------------------
  def is_ctor(self, mod, call):
    d = dotted(call.func) or ""
    head, _, last = d.rpartition(".")
    names = {self.errcls} if mod.rel == ERR else set()
    names |= {f"{a}.{self.errcls}" for a, m in mod.imports.items() if m.endswith("errors") or m.endswith("errors.errors")}
    names |= {a for a, m in mod.imports.items() if m.endswith(f"errors.{self.errcls}")}
    if d in names:
      return True
    if head in names and last in self.err_methods and any(
        dotted(x) == "classmethod" for x in self.err_methods[last].decorator_list):
      return True
    return False

  def summary(self, cname, name, _stack=()):
    """{'adds': params handed on to the filter point, 'returns': tags of what the method may return}."""
    r = self.log_method(cname, name)
    if r is None:
      return None
    c, fn = r
    key = (c, name)
    if key in self._sum:
      return self._sum[key]
    if key in _stack or len(_stack) > 6:
      return {"adds": set(), "returns": {"unknown"}}
    if name == self.add_name and c == self.logcls:
      s = {"adds": {self.add_param}, "returns": {"none"}}
      self._sum[key] = s
      return s
    f = _Prov(self, self.err, fn, c, _stack + (key,))
    adds = {p for p in _params(fn)[1:] if f"logged:{p}" in f.ever}
    rets = set()
    for kind, node, st in f.exits:
      if kind == "raise":
        continue
      if kind == "end" or node.value is None:
        rets.add("none")
      else:
        rets |= f.classify(node.value, st or frozenset()) or {"unknown"}
    s = {"adds": adds, "returns": rets}
    self._sum[key] = s
    return s


class _Prov(flow.Flow):
  """May-flow of `<tag>:<local>` facts: where the value of a local comes from and what has happened to it.

  fresh    a just-constructed Error            logged   handed to the filter point (directly or via a log method)
  param    a parameter of the function         inlog    taken out of the log / a checkpoint's record
  alias    shares its object with another name escaped  handed to some other call / stored somewhere
  unknown  anything else
  """

  def __init__(self, world, mod, fn, cname, stack=()):
    self.w, self.mod, self.fn, self.cname, self.stack = world, mod, fn, cname, stack
    self.ever = set()
    self._for = {id(n.target): n for n in ast.walk(fn) if isinstance(n, (ast.For, ast.AsyncFor))}
    entry = frozenset(f"param:{p}" for p in _params(fn))
    super().__init__(fn, gen=lambda u: (), mode="may", entry=entry)

  # what a call does to the errors among its arguments: {arg name: "logged"|"escaped"}
  def call_effect(self, c):
    out = {}
    d = dotted(c.func) or ""
    names = [(a, None) for a in c.args] + [(k.value, k.arg) for k in c.keywords]
    plain = [dotted(a) for a, _ in names if isinstance(a, ast.Name)]
    if not plain:
      return out
    if d == self.w.slot and self.mod.rel == ERR:
      return {p: "logged" for p in plain}
    if d.split(".")[0] in _LOGGERS or d in _PURE:
      return out
    if d.startswith("self.") and d.count(".") == 1 and self.cname in self.w.logclasses and self.mod.rel == ERR:
      s = self.w.summary(self.cname, d[5:], self.stack)
      r = self.w.log_method(self.cname, d[5:])
      if s is not None and r is not None:
        b = _binds(c, r[1])
        if b is not None:
          for k, v in b.items():
            if isinstance(v, ast.Name):
              out[v.id] = "logged" if k in s["adds"] else "escaped"
          return out
    return {p: "escaped" for p in plain}

  def classify(self, e, st):
    if isinstance(e, ast.Name):
      tags = {f.split(":", 1)[0] for f in st if f.split(":", 1)[1] == e.id}
      return tags or {"unknown"}
    if isinstance(e, ast.IfExp):
      return self.classify(e.body, st) | self.classify(e.orelse, st)
    if isinstance(e, ast.Constant) and e.value is None:
      return {"none"}
    if isinstance(e, ast.Call):
      if self.w.is_ctor(self.mod, e):
        return {"fresh"}
      d = dotted(e.func) or ""
      if d.startswith("self.") and d.count(".") == 1 and self.cname in self.w.logclasses and self.mod.rel == ERR:
        s = self.w.summary(self.cname, d[5:], self.stack)
        if s is not None:
          return set(s["returns"])
      return {"unknown"}
    if _from_log(e):
      return {"inlog"}
    return {"unknown"}

  def _transfer(self, unit, st):
    if st is None or isinstance(unit, (ast.FunctionDef, ast.AsyncFunctionDef, ast.ClassDef)):
      return st
    facts = set(st)
    if id(unit) in self._for:   # a loop target: its values are the elements of the iterable
      tag = "inlog" if _from_log(self._for[id(unit)].iter) else "unknown"
      names = {n.id for n in ast.walk(unit) if isinstance(n, ast.Name)}
      facts = {f for f in facts if f.split(":", 1)[1] not in names} | {f"{tag}:{n}" for n in names}
      return frozenset(facts)
    nodes = [unit] + list(walk_no_nested(unit))
    for c in nodes:
      if isinstance(c, ast.Call):
        for name, eff in self.call_effect(c).items():
          facts.add(f"{eff}:{name}")
    # stored into an attribute / container: escapes
    if isinstance(unit, ast.Assign) and not all(isinstance(t, ast.Name) for t in unit.targets):
      facts |= {f"escaped:{n.id}" for n in ast.walk(unit.value) if isinstance(n, ast.Name)}
    stored = {n.id for n in nodes if isinstance(n, ast.Name) and not isinstance(n.ctx, ast.Load)}
    if stored:
      tags = {"unknown"}
      if isinstance(unit, (ast.Assign, ast.AnnAssign)) and unit.value is not None and len(stored) == 1 and (
          isinstance(unit, ast.AnnAssign) or all(isinstance(t, ast.Name) for t in unit.targets)) \
          and not any(isinstance(n, ast.NamedExpr) for n in nodes):
        tags = {t for t in self.classify(unit.value, facts) if t != "none"} or {"unknown"}
        if isinstance(unit.value, ast.Name):
          tags.add("alias")
          facts.add(f"alias:{unit.value.id}")
      elif isinstance(unit, ast.withitem) or any(isinstance(n, ast.comprehension) for n in nodes):
        tags = {"unknown"}
      facts = {f for f in facts if f.split(":", 1)[1] not in stored}
      facts |= {f"{t}:{n}" for t in tags for n in stored}
    self.ever |= facts
    return frozenset(facts)


def _from_log(e):
  """Is `e` (an iterable or an element expression) the contents of an error log / a checkpoint record?"""
  while True:
    if isinstance(e, ast.Call) and dotted(e.func) in ("sorted", "list", "tuple", "reversed", "iter", "enumerate") and e.args:
      e = e.args[0]
    elif isinstance(e, ast.Subscript):
      e = e.value
    elif isinstance(e, ast.Call) and isinstance(e.func, ast.Attribute) and e.func.attr in (
        "unique_sorted_errors", "_sorted_errors", "copy"):
      return True if e.func.attr != "copy" else _from_log(e.func.value)
    else:
      break
  d = dotted(e) or ""
  last = d.rsplit(".", 1)[-1]
  return last in ("_errors", "errors", "errorlog", "_errorlog", "_errorlog_errors")


def _sites(w, mod):
  """(kind, node, receiver expr, what) for every place in `mod` that may move an error."""
  out = []
  own_fields = set(w.fields)
  for n in ast.walk(mod.tree):
    if isinstance(n, ast.Call) and isinstance(n.func, ast.Attribute) and n.func.attr in w.writers:
      if _binds(n, w.err_methods[n.func.attr]) is None:
        continue   # does not fit the writer's signature: another class's method of the same name
      out.append(("call", n, n.func.value, n.func.attr))
    elif isinstance(n, ast.Attribute) and not isinstance(n.ctx, ast.Load) and n.attr in own_fields:
      recv = dotted(n.value)
      if recv in ("self", "cls") and _enclosing_class(mod, n) is not None:
        continue   # a class's own field: errors.Error's writers themselves, or another class's field of that name
      out.append(("store", n, n.value, n.attr))
  return out


@rule("R3.21", "C03", floor=5)
def r3_21(ctx):
  """Nothing moves an error after the filter has judged it."""
  w = ctx.memo("c03.position_final.world", lambda: _World(ctx))
  if not w.writers:
    raise AnalysisError("errors.Error has no method that stores the fields the filter reads")
  saved = set(ctx.files_read)
  cands = []
  needles = [f".{x}(" for x in w.writers] + [f".{f}" for f in w.fields] + [w.filter_name]
  for rel in all_py_files(ctx):
    if _is_test(rel):
      continue
    text = ctx.read(rel)
    if any(x in text for x in needles):
      cands.append(rel)
  ctx.files_read = saved | set(cands) | {ERR, DIR}
  facts0 = {"filter_reads": w.filter_reads, "fields": w.fields, "writers": w.writers}
  flows = {}

  def prov(mod, fn):
    k = (mod.rel, id(fn))
    if k not in flows:
      cls = _enclosing_class(mod, fn)
      flows[k] = _Prov(w, mod, fn, cls.name if cls is not None else None)
    return flows[k]

  movers = {}   # (rel, class, method, param) -> def
  judged = set()

  def judge(mod, node, recv, what, depth=0):
    """Decides one move of the object `recv` denotes at `node`; reports under a stable construct name."""
    fn = mod.enclosing_function(node)
    if fn is None or isinstance(fn, ast.Lambda):
      raise AnalysisError(f"{mod.rel}:{node.lineno}: an error is moved outside a function")
    q = _qual(mod, node)
    role = f"{dotted(recv.func)}(..)" if isinstance(recv, ast.Call) and dotted(recv.func) else (
        src(recv) if len(src(recv)) <= 40 else src(recv)[:37] + "...")
    construct = f"{q}:{what}({role})"
    if (mod.rel, construct) in judged:
      return
    judged.add((mod.rel, construct))
    f = prov(mod, fn)
    stmt = mod.enclosing_stmt(node)
    st = f.before.get(stmt)
    if st is None and stmt not in f.before:
      raise AnalysisError(f"{q}: statement of the move not reached by the flow analysis")
    if st is None:
      return   # unreachable
    facts = dict(facts0, receiver=src(recv)[:80])
    if isinstance(recv, ast.Name):
      # what the rest of the same statement does to the name before the move is not ordered: refuse
      eff = {}
      for c in [stmt] + list(walk_no_nested(stmt)):
        if isinstance(c, ast.Call) and c is not node:
          eff.update(f.call_effect(c))
      if recv.id in eff and not isinstance(stmt, (ast.If, ast.For, ast.While, ast.With, ast.Try)):
        raise AnalysisError(f"{q}: `{src(stmt)[:60]}` hands {recv.id} on and moves it in one statement")
    tags = set(f.classify(recv, st))
    if "param" in tags:
      tags -= {"escaped", "alias"}   # what happened to a parameter before is the callers' business
    facts["provenance"] = sorted(tags)
    if tags & {"logged", "inlog"}:
      how = ("has already been handed to the filter (ErrorLog.%s) on some path" % w.add_name
             if "logged" in tags else "is taken out of the log")
      ctx.bad(construct, mod.rel, node.lineno,
              f"`{src(recv)[:60]}` {how} when {what} changes its position: the directives were looked up on "
              f"the line the error had when it was filtered ({'/'.join(w.filter_reads)} are what the filter reads), "
              "not on the line it is finally reported at; the position must be final before the error is "
              "handed to the log", facts)
      return
    if tags <= {"fresh"}:
      ctx.ok(construct, mod.rel, node.lineno, facts)
      return
    if tags <= {"fresh", "param"} and isinstance(recv, ast.Name) and recv.id in _params(fn) and depth < 4:
      cls = _enclosing_class(mod, fn)
      if cls is None or mod.parent.get(fn) is not cls:
        raise AnalysisError(f"{q}: a plain function moves the error it is given; its callers are not followed")
      movers[(mod.rel, cls.name, fn.name, recv.id)] = fn
      ctx.ok(construct, mod.rel, node.lineno, dict(facts, moves_parameter=recv.id))
      callers(mod, cls, fn, recv.id, depth + 1)
      return
    raise AnalysisError(f"{q}: cannot decide where the error moved by {what}({src(recv)[:40]}) comes from "
                        f"(provenance {sorted(tags)})")

  def callers(mod, cls, fn, param, depth):
    """Every call of mover `cls.fn` moves the argument bound to `param`."""
    name = fn.name
    is_filter = mod.rel == DIR and cls.name == w.dcls and name == w.filter_name
    refs = []
    for rel in cands:
      if name not in ctx.read(rel):
        continue
      if name.startswith("_") and not name.startswith("__") and rel != mod.rel:
        continue   # private: only reachable by name from its own module
      m = get_module(ctx, rel)
      refs += [(m, n) for n in ast.walk(m.tree) if isinstance(n, ast.Attribute) and n.attr == name]
    installed = 0
    for m, ref in refs:
      par = m.parent.get(ref)
      if isinstance(par, ast.Call) and par.func is ref:
        same_cls = _enclosing_class(m, ref)
        if dotted(ref.value) == "self" and not (m.rel == mod.rel and same_cls is not None and (
            same_cls.name == cls.name)):
          continue   # self.<name> of an unrelated class
        b = _binds(par, fn)
        if b is None or param not in b:
          raise AnalysisError(f"{_qual(m, ref)}: cannot bind the call of {cls.name}.{name}")
        judge(m, par, b[param], f"{cls.name}.{name}", depth)
      elif is_filter and isinstance(par, ast.Call) and ref in par.args and isinstance(par.func, ast.Attribute) \
          and par.func.attr == "set_error_filter":
        installed += 1   # runs inside the filter point, before the verdict
      else:
        raise AnalysisError(f"{_qual(m, ref)}: {cls.name}.{name} moves the error it is given and is used as a value")
    if is_filter:
      ctx.check(installed >= 1, f"{cls.name}.{name}:moves-only-as-the-filter", DIR, fn.lineno,
                "the director's filter moves errors but is never installed with set_error_filter",
                dict(facts0, installed=installed))

  for rel in sorted(set(cands) | {ERR, DIR}):
    mod = get_module(ctx, rel)
    for kind, node, recv, what in _sites(w, mod):
      judge(mod, node, recv, what if kind == "call" else f"store:{what}")
  # the filter point itself: after self.<slot>(error) nothing in that method may move the error
  f = prov(w.err, w.add_fn)
  late = []
  for kind, node, recv, what in _sites(w, w.err):
    if w.err.enclosing_function(node) is w.add_fn:
      st = f.before.get(w.err.enclosing_stmt(node)) or ()
      if isinstance(recv, ast.Name) and f"logged:{recv.id}" in st:
        late.append(src(node)[:60])
  ctx.check(not late, f"{w.logcls}.{w.add_name}:position-final-after-filter", ERR, w.add_fn.lineno,
            f"{late} run after the filter has judged the error", dict(facts0, filter_slot=w.slot))
  # log methods that hand back what they logged are fine as long as nobody moves the result (judged above);
  # record them so that the evidence shows the exposure
  exposing = sorted(f"{c}.{n}" for c in w.logclasses for n in w.err.methods(c)
                    if n != w.add_name and "logged" in (w.summary(c, n) or {"returns": ()})["returns"])
  ctx.ok("log-methods:results-not-moved", ERR, 0, dict(facts0, methods_returning_logged_errors=exposing))


_ERR_M = ("    if line:\n      err.set_line(line)\n    self._add(err)\n")
VARIANTS = [
    {"name": "seeded-C03-r3m2", "rule": "R3.21", "patch": "seeded/C03-r3m2/patch.diff", "expect": "fire"},
    {"name": "line-override-after-add", "rule": "R3.21", "file": ERR, "old": _ERR_M,
     "new": "    self._add(err)\n    if line:\n      err.set_line(line)\n", "expect": "fire"},
    {"name": "backing-field-stored-after-add", "rule": "R3.21", "file": ERR, "old": _ERR_M,
     "new": "    self._add(err)\n    if line:\n      err._line = line\n", "expect": "fire"},
    {"name": "add-normalises-line-after-filter", "rule": "R3.21", "file": ERR,
     "old": "      self._errors.append(error)\n",
     "new": "      error.set_line(error.line or 1)\n      self._errors.append(error)\n", "expect": "fire"},
    {"name": "logged-errors-renumbered", "rule": "R3.21", "file": ERR,
     "old": "  def has_error(self):\n",
     "new": "  def shift_lines(self, delta):\n    for e in self._errors:\n      e.set_line(e.line + delta)\n\n"
            "  def has_error(self):\n", "expect": "fire"},
    {"name": "vm-refilters-the-log", "rule": "R3.21", "file": VM,
     "old": "    logging.info(\"Done running bytecode, postprocessing globals\")\n",
     "new": "    logging.info(\"Done running bytecode, postprocessing globals\")\n"
            "    for e in self.ctx.errorlog:\n      director.filter_error(e)\n", "expect": "fire"},
    {"name": "helper-returns-logged-error-then-moved", "rule": "R3.21", "expect": "fire",
     "edits": [(ERR, _ERR_M, "    self._add(err)\n    return err\n"),
               (ERR, "    self.error(stack, msg, details=details, line=line)\n",
                "    err = self.error(stack, msg, details=details)\n    if line:\n      err.set_line(line)\n")]},
    # twins
    {"name": "twin-error-returns-what-it-logged-unused", "rule": "R3.21", "file": ERR, "old": _ERR_M,
     "new": _ERR_M + "    return err\n", "expect": "silent"},
    {"name": "twin-override-guard-as-conditional-expression", "rule": "R3.21", "file": ERR, "old": _ERR_M,
     "new": "    err.set_line(line if line else err.line)\n    self._add(err)\n", "expect": "silent"},
    {"name": "twin-rename-local-and-override-in-helper", "rule": "R3.21", "expect": "silent",
     "edits": [(ERR, "    err = Error.with_stack(\n        stack,\n        SEVERITY_ERROR,\n        message,\n"
                "        details=details,", "    e = Error.with_stack(\n        stack,\n        SEVERITY_ERROR,\n"
                "        message,\n        details=details,"),
               (ERR, _ERR_M, "    self._override_line(e, line)\n    self._add(e)\n\n"
                "  def _override_line(self, made, line):\n    if not line:\n      return\n    made.set_line(line)\n")]},
    {"name": "twin-benign-C03-r4-filter-moves-through-a-helper", "rule": "R3.21", "patch": "benign/C03-r4/patch.diff",
     "expect": "silent"},
    {"name": "mover-handed-around-as-a-value", "rule": "R3.21", "file": VM,
     "old": "    logging.info(\"Done running bytecode, postprocessing globals\")\n",
     "new": "    logging.info(\"Done running bytecode, postprocessing globals\")\n"
            "    self._refilter = director.filter_error\n", "expect": "error"},
]
