"""C01 extension: class-wide facts are MRO-wide; handed-out members invalidate.

R1.20  Special methods are inherited, so a fact about a class ("instances can
       be falsy", "is abstract", "has dynamic attributes") is a quantification
       over its whole linearisation.  (a) Every iteration over an MRO in
       abstract/class_mixin.py ranges over the complete `X.mro` (forward or
       reversed) or over all proper ancestors `X.mro[1:]`; any other slice, or
       a single element picked by index, is a violation: the tail of a C3
       linearisation is not the linearisation of its first element, so a
       cached answer of `mro[1]` says nothing about the second base.  (b) The
       flag compare.compatible_with trusts to answer "always truthy"
       (`not value.cls.<flag>` guarding `return logical_value`) is produced in
       class_mixin.py by an own-attribute test for BOTH truthiness hooks of
       the data model (`__bool__`, `__len__`) on every element of the full
       `self.mro`; the only other source it may be copied from is the
       unparameterised class of a ParameterizedClass (`self.base_cls`).
R1.21  SimpleValue.get_fullhash memoises a digest that descends into the
       members' values, but update_caches() only drops it when the object's
       OWN member / type-parameter change stamps move.  The VM therefore drops
       the memo unconditionally whenever a member variable is handed out
       (attribute._get_member): every `return .., obj.members[..]` is
       dominated by `obj.update_caches(force=<true>)` on the same object;
       `force` really bypasses the stamp comparison; and update_caches resets
       every memo field that get_fullhash / get_type_key fill.  (Mutation
       through an alias obtained BEFORE the memo was taken is not covered by
       this protocol at all - see EXPLANATION of rules/c01.py.)
"""
import ast

from sa.core import rule, AnalysisError
from sa.pyindex import get_module, dotted, src, walk_no_nested, try_fold
from sa import flow
from rules import _util_c11c01 as _u

MIXIN = "pytype/abstract/class_mixin.py"
COMPARE = "pytype/compare.py"
ATTR = "pytype/attribute.py"
IBASE = "pytype/abstract/_instance_base.py"
TRUTH_HOOKS = ("__bool__", "__len__")       # object.__bool__ / __len__ (data model)
_FUNCS = (ast.FunctionDef, ast.AsyncFunctionDef)
_COMPS = (ast.GeneratorExp, ast.ListComp, ast.SetComp, ast.DictComp)


def _qual(mod, node):
  names = []
  if isinstance(node, _FUNCS):
    names.append(node.name)
  while node in mod.parent:
    node = mod.parent[node]
    if isinstance(node, _FUNCS + (ast.ClassDef,)):
      names.append(node.name)
  return ".".join(reversed(names)) or "<module>"


def _mro_domain(e):
  """Classifies an iteration expression that mentions `.mro`.

  -> (kind, receiver): kind in full / ancestors / part / element / None.
  """
  if isinstance(e, ast.Call) and dotted(e.func) in ("reversed", "list", "tuple", "iter") \
      and len(e.args) == 1 and not e.keywords:
    return _mro_domain(e.args[0])
  d = dotted(e)
  if d and d.endswith(".mro"):
    return ("full", d[:-4])
  if isinstance(e, ast.Subscript) and (dotted(e.value) or "").endswith(".mro"):
    recv = dotted(e.value)[:-4]
    if isinstance(e.slice, ast.Slice):
      s = e.slice
      lo = try_fold(s.lower) if s.lower is not None else None
      if s.upper is None and s.step is None:
        if s.lower is None or lo == 0:
          return ("full", recv)
        if lo == 1:
          return ("ancestors", recv)
      return ("part", recv)
    idx = try_fold(e.slice)
    if idx in (0, -1):
      return ("endpoint", recv)     # the class itself / the root: not a look-up
    if isinstance(idx, int):
      return ("element", recv)
    return (None, None)
  return (None, None)


def mro_iterations(mod):
  """(node, iter expr, function) for each loop / comprehension over an MRO and
  each single MRO element picked by index."""
  out = []
  for n in ast.walk(mod.tree):
    its = []
    if isinstance(n, (ast.For, ast.AsyncFor)):
      its = [n.iter]
    elif isinstance(n, ast.comprehension):
      its = [n.iter]
    for it in its:
      if any(isinstance(a, ast.Attribute) and a.attr == "mro" for a in ast.walk(it)):
        out.append((n, it))
  seen = {id(x) for _, it in out for x in ast.walk(it)}
  for n in ast.walk(mod.tree):
    if isinstance(n, ast.Subscript) and id(n) not in seen and \
        (dotted(n.value) or "").endswith(".mro") and isinstance(n.ctx, ast.Load):
      out.append((n, n))
  return sorted(out, key=lambda p: (p[1].lineno, p[1].col_offset))


def _truth_flag(ctx):
  """The class attribute whose falsity makes compatible_with answer definitely."""
  mod = get_module(ctx, COMPARE)
  fn = mod.func("compatible_with")
  params = [a.arg for a in fn.args.args]
  if len(params) != 2:
    raise AnalysisError("compatible_with: unexpected signature")
  logical = params[1]
  # `return <logical value>` in compatible_with itself, or in a module-local
  # helper that is handed the logical value (the Instance arm extracted into a
  # function): (function, name of the logical value there)
  work = [(fn, logical)]
  for c in ast.walk(fn):
    if isinstance(c, ast.Call) and isinstance(c.func, ast.Name) and \
        c.func.id in mod.functions and c.func.id != fn.name:
      helper = mod.functions[c.func.id]
      binding = _u.bind_call(helper, c)
      if binding is None:
        raise AnalysisError(f"compatible_with: call `{src(c)}` not understood")
      for pname, a in binding.items():
        if isinstance(a, ast.Name) and a.id == logical:
          work.append((helper, pname))
  flags = set()
  for f, lname in work:
    if any(isinstance(n, ast.Name) and n.id == lname and not isinstance(n.ctx, ast.Load)
           for n in ast.walk(f)):
      raise AnalysisError(f"{f.name} rebinds `{lname}`")
    once = {}
    for n in walk_no_nested(f):
      if isinstance(n, ast.Assign) and len(n.targets) == 1 and \
          isinstance(n.targets[0], ast.Name):
        once.setdefault(n.targets[0].id, []).append(n.value)
    for r in walk_no_nested(f):
      if isinstance(r, ast.Return) and isinstance(r.value, ast.Name) and r.value.id == lname:
        for test, pol in flow.guards(mod.parent, r, stop=f):
          # `not (A or flag)` / `A and not flag` / nested `not`: the literals the
          # path condition decides
          for c, p in _u.literals(test, pol):
            d = dotted(c)
            if not d or p:
              continue
            if ".cls." in d:
              flags.add(d.split(".")[-1])
            elif d.count(".") == 1:
              # <local>.<flag> with `<local> = <value>.cls` bound once
              recv, attr = d.split(".")
              vals = once.get(recv, [])
              if len(vals) == 1 and (dotted(vals[0]) or "").endswith(".cls"):
                flags.add(attr)
  if len(flags) != 1:
    raise AnalysisError(
        f"compatible_with: the class flag guarding the definite answer for "
        f"instances was not recognised ({sorted(flags)})")
  return flags.pop()


def _names_of(e, fn, mod):
  """String constants a membership test ranges over: a constant, or a name
  bound by a for / generator over a constant tuple."""
  if isinstance(e, ast.Constant) and isinstance(e.value, str):
    return {e.value}
  if isinstance(e, ast.Name):
    for n in ast.walk(fn):
      if isinstance(n, (ast.comprehension, ast.For)) and \
          isinstance(n.target, ast.Name) and n.target.id == e.id:
        it = n.iter
        if isinstance(it, ast.Name):
          defs = [a.value for a in walk_no_nested(fn) if isinstance(a, ast.Assign)
                  and len(a.targets) == 1 and isinstance(a.targets[0], ast.Name)
                  and a.targets[0].id == it.id]
          if len(defs) == 1:
            it = defs[0]
        v = try_fold(it, mod=mod)
        if isinstance(v, (tuple, list, set, frozenset)) and all(isinstance(x, str) for x in v):
          return set(v)
  return None


def _own_table_of(e, var, fn):
  """True when `e` denotes the own-attribute table of iteration variable `var`."""
  if isinstance(e, ast.Call) and isinstance(e.func, ast.Attribute) and \
      e.func.attr == "get_own_attributes" and dotted(e.func.value) == var and not e.args:
    return True
  if isinstance(e, ast.Name) and e.id != var:
    defs = [n.value for n in walk_no_nested(fn) if isinstance(n, ast.Assign)
            and len(n.targets) == 1 and isinstance(n.targets[0], ast.Name)
            and n.targets[0].id == e.id]
    return len(defs) == 1 and _own_table_of(defs[0], var, fn)
  return False


def _hook_tests(scope, var, fn, mod):
  """Names whose presence in var's own table is tested inside `scope`."""
  names = set()
  tests = []
  for n in ast.walk(scope):
    if isinstance(n, ast.Compare) and len(n.ops) == 1 and isinstance(n.ops[0], ast.In) \
        and _own_table_of(n.comparators[0], var, fn):
      ns = _names_of(n.left, fn, mod)
      if ns is None:
        raise AnalysisError(f"own-attribute test `{src(n)}`: tested names not constant")
      names |= ns
      tests.append(n)
    elif isinstance(n, ast.BinOp) and isinstance(n.op, ast.BitAnd):
      for a, b in ((n.left, n.right), (n.right, n.left)):
        if _own_table_of(a, var, fn):
          v = try_fold(b, mod=mod)
          if isinstance(v, (set, frozenset, tuple, list)):
            names |= set(v)
            tests.append(n)
    elif isinstance(n, ast.Call) and isinstance(n.func, ast.Attribute) and \
        n.func.attr in ("intersection", "isdisjoint") and len(n.args) == 1:
      for a, b in ((n.func.value, n.args[0]), (n.args[0], n.func.value)):
        if _own_table_of(a, var, fn):
          v = try_fold(b, mod=mod)
          if isinstance(v, (set, frozenset, tuple, list)):
            names |= set(v)
            tests.append(n)
  return names, tests


@rule("R1.20", "C01", floor=12)
def r1_20(ctx):
  """Class-wide predicates range over the whole MRO."""
  mod = get_module(ctx, MIXIN)
  # (a) every MRO iteration in class_mixin.py
  counter = {}
  for node, it in mro_iterations(mod):
    fn = mod.enclosing_function(node)
    q = _qual(mod, fn) if fn is not None else "<module>"
    k = counter[q] = counter.get(q, 0) + 1
    kind, recv = _mro_domain(it)
    if kind == "endpoint":
      continue
    construct = f"mro-domain:{q}#{k}"
    facts = {"iterates": src(it), "kind": kind}
    if kind is None:
      raise AnalysisError(f"{MIXIN}:{it.lineno}: MRO expression `{src(it)}` not understood")
    ctx.check(kind in ("full", "ancestors"), construct, MIXIN, it.lineno,
              f"`{src(it)}` looks at {'one element' if kind == 'element' else 'a part'} "
              f"of `{recv}.mro`: an inherited property has to be decided over "
              "the complete linearisation (`.mro`, or `.mro[1:]` for all "
              "proper ancestors) - with multiple inheritance the rest of the "
              "MRO is not the MRO of its first element, so what `mro[1]` "
              "knows about itself does not cover a second base", facts)
  # (b) the flag compare.py trusts
  flag = _truth_flag(ctx)
  producers = {}
  for n in ast.walk(mod.tree):
    if isinstance(n, ast.Assign) and any(dotted(t) == f"self.{flag}" for t in n.targets):
      fn = mod.enclosing_function(n)
      producers.setdefault(fn, []).append(n)
  if not producers:
    raise AnalysisError(f"{MIXIN}: no assignment to self.{flag}")
  for fn, assigns in producers.items():
    q = _qual(mod, fn)
    construct = f"truthiness-flag:{q}:self.{flag}"
    facts = {"flag": flag, "assignments": [src(a)[:90] for a in assigns]}
    problems = []
    quantified_value = None
    for a in assigns:
      v = a.value
      if isinstance(v, ast.Constant) and isinstance(v.value, bool):
        continue
      reads = [x for x in ast.walk(v) if isinstance(x, ast.Attribute) and x.attr == flag]
      if reads:
        for r in reads:
          recv = r.value
          if dotted(recv) == "self.base_cls":
            g = [t for t, p in flow.guards_txt(mod.parent, a, stop=fn) if p]
            if not any("ParameterizedClass" in t and t.startswith("isinstance(self,") for t in g):
              raise AnalysisError(
                  f"{q}: copies {flag} from self.base_cls outside an "
                  "isinstance(self, ParameterizedClass) arm")
            continue
          # where does the receiver come from?
          exprs = [recv]
          if isinstance(recv, ast.Name):
            exprs = [n.value for n in walk_no_nested(fn) if isinstance(n, ast.Assign)
                     and any(isinstance(t, ast.Name) and t.id == recv.id for t in n.targets)]
            exprs += [n.iter for n in ast.walk(fn)
                      if isinstance(n, (ast.For, ast.comprehension))
                      and isinstance(n.target, ast.Name) and n.target.id == recv.id]
          picked = [s for e in exprs for s in ast.walk(e)
                    if isinstance(s, ast.Subscript) and _mro_domain(s)[0] == "element"]
          based = [c for e in exprs for c in ast.walk(e)
                   if isinstance(c, ast.Call) and isinstance(c.func, ast.Attribute)
                   and c.func.attr == "bases"]
          if picked or based:
            problems.append(
                f"`{src(a)[:70]}` copies the flag cached on "
                f"`{src((picked or based)[0])}`: that class computed it over "
                "ITS OWN linearisation, which for `class C(A, B)` does not "
                "contain B")
          else:
            raise AnalysisError(
                f"{q}: `{src(a)[:70]}` takes {flag} from `{src(recv)}`, not understood")
        continue
      if isinstance(v, ast.Call) and dotted(v.func) == "any" and len(v.args) == 1 \
          and isinstance(v.args[0], _COMPS):
        quantified_value = v.args[0]
        continue
      if isinstance(v, ast.Call) and dotted(v.func) == "bool" and len(v.args) == 1 \
          and isinstance(v.args[0], ast.Call) and dotted(v.args[0].func) == "any" \
          and isinstance(v.args[0].args[0], _COMPS):
        quantified_value = v.args[0].args[0]
        continue
      # any other computed value: judged by the scan it is computed in (below)
    # the scan that justifies the negative answer
    scans = []
    for n in ast.walk(fn):
      if isinstance(n, (ast.For, ast.comprehension)) and isinstance(n.target, ast.Name):
        kind, recv = _mro_domain(n.iter)
        if kind is not None and recv == "self":
          scans.append((n, kind))
    full = [(n, k) for n, k in scans if k == "full"]
    delegating_only = all(
        any(isinstance(x, ast.Attribute) and x.attr == flag and dotted(x.value) == "self.base_cls"
            for x in ast.walk(a.value)) for a in assigns)
    if delegating_only:
      ctx.ok(construct, MIXIN, fn.lineno, dict(facts, discharged_by="copies base_cls's flag"))
      continue
    if problems:
      ctx.bad(construct, MIXIN, assigns[0].lineno, "; ".join(problems), facts)
      continue
    if not full:
      why = (f"scans only `{src(scans[0][0].iter)}`" if scans
             else "never scans `self.mro`")
      ctx.bad(construct, MIXIN, fn.lineno,
              f"{q} {why}: `{flag}` may only be False when NO class of the "
              f"complete MRO defines {' / '.join(TRUTH_HOOKS)} (both are "
              "inherited); otherwise `if obj:` loses its false branch for an "
              "object that is falsy at run time", facts)
      continue
    scan = full[0][0]
    var = scan.target.id
    scope = scan if isinstance(scan, ast.For) else (quantified_value or mod.parent.get(scan))
    names, tests = _hook_tests(scope, var, fn, mod)
    facts["tested_hooks"] = sorted(names)
    if not tests:
      raise AnalysisError(f"{q}: no own-attribute test on `{var}` inside the MRO scan")
    # path conditions of the tests inside the scan: only isinstance(var, ..)
    if isinstance(scan, ast.For):
      for t in tests:
        st = mod.enclosing_stmt(t)
        for g, p in flow.guards_txt(mod.parent, st, stop=scan):
          if not (p and g.startswith(f"isinstance({var},")):
            raise AnalysisError(
                f"{q}: own-attribute test is guarded by `{g}`={p}, not understood")
      exits = [n for n in flow._walk_loop_body(scan)
               if isinstance(n, (ast.Break, ast.Continue, ast.Return))]
      for e in exits:
        g = flow.guards(mod.parent, e, stop=scan)
        covered = any(any(t is x for x in ast.walk(gt)) for gt, p in g for t in tests if p)
        gt_txt = flow.guards_txt(mod.parent, e, stop=scan)
        skip_non_class = isinstance(e, ast.Continue) and bool(gt_txt) and all(
            (not p) and t.startswith(f"isinstance({var},") for t, p in gt_txt)
        if not covered and not skip_non_class:
          raise AnalysisError(
              f"{q}: the MRO scan is left at line {e.lineno} on a condition "
              "other than a positive hook test")
    else:
      for i in scan.ifs:
        if not src(i).startswith(f"isinstance({var},"):
          raise AnalysisError(f"{q}: MRO quantifier filtered by `{src(i)}`")
    missing = [h for h in TRUTH_HOOKS if h not in names]
    ctx.check(not missing, construct, MIXIN, tests[0].lineno,
              f"{q} decides `{flag}` without looking for {missing}: bool(x) "
              "falls back to __len__ when __bool__ is absent, so a class that "
              "only defines the missing hook is treated as always truthy",
              dict(facts, discharged_by="own-attribute test for both hooks on "
                   "every element of self.mro"))


# -- R1.21 ---------------------------------------------------------------------------

def _truthy_const(e):
  v = try_fold(e, default=None)
  return v is not None and bool(v) is True and isinstance(e, ast.Constant)


@rule("R1.21", "C01", floor=4)
def r1_21(ctx):
  """Handing out a member variable force-invalidates the owner's deep memo."""
  ib = get_module(ctx, IBASE)
  upd = ib.func("SimpleValue.update_caches")
  params = [a.arg for a in upd.args.args]
  if len(params) != 2:
    raise AnalysisError("SimpleValue.update_caches: expected (self, force)")
  force = params[1]
  # (1) memo fields: filled under `if not self.F` / `if self.F is None`, then returned
  memo = {}
  for mname, m in ib.methods("SimpleValue").items():
    for n in ast.walk(m):
      if isinstance(n, ast.If):
        t = n.test
        fld = None
        if isinstance(t, ast.UnaryOp) and isinstance(t.op, ast.Not):
          fld = dotted(t.operand)
        elif isinstance(t, ast.Compare) and len(t.ops) == 1 and isinstance(t.ops[0], ast.Is) \
            and isinstance(t.comparators[0], ast.Constant) and t.comparators[0].value is None:
          fld = dotted(t.left)
        if fld and fld.startswith("self._") and any(
            isinstance(s, ast.Assign) and any(dotted(x) == fld for x in s.targets)
            for s in ast.walk(n)) and any(
                isinstance(r, ast.Return) and dotted(r.value) == fld for r in ast.walk(m)):
          memo[fld] = mname
  if not memo:
    raise AnalysisError("SimpleValue: no memoised digest fields found")
  resets = {dotted(t) for n in walk_no_nested(upd) if isinstance(n, ast.Assign)
            and isinstance(n.value, ast.Constant) and n.value.value is None
            for t in n.targets}
  for fld, mname in sorted(memo.items()):
    ctx.check(fld in resets, f"update_caches:resets:{fld}", IBASE, upd.lineno,
              f"`{fld}` (memo of SimpleValue.{mname}) is not reset by "
              "update_caches: a forced invalidation leaves a stale digest",
              {"memo_of": mname, "resets": sorted(r for r in resets if r)})
  # (2) `force` bypasses the stamp comparison: every early return requires not force
  early = [n for n in walk_no_nested(upd) if isinstance(n, ast.Return)]
  ok = True
  seen = []
  for r in early:
    g = flow.guards(ib.parent, r, stop=upd)
    conj = []
    for t, p in g:
      if p and isinstance(t, ast.BoolOp) and isinstance(t.op, ast.And):
        conj += [(v, True) for v in t.values]
      else:
        conj.append((t, p))
    txt = []
    for t, p in conj:
      while isinstance(t, ast.UnaryOp) and isinstance(t.op, ast.Not):
        t, p = t.operand, not p
      txt.append((src(t), p))
    seen.append(txt)
    if (force, False) not in txt:
      ok = False
  # the resets must not sit under a condition either
  for n in walk_no_nested(upd):
    if isinstance(n, ast.Assign) and any(dotted(t) in memo for t in n.targets):
      g = flow.guards_txt(ib.parent, n, stop=upd)
      if any(force not in t for t, p in g if p):
        ok = False
        seen.append(g)
  ctx.check(ok, "update_caches:force-bypasses-stamps", IBASE, upd.lineno,
            f"update_caches(force=True) must drop the memo regardless of the "
            f"change stamps; early exits / reset guards: {seen}", {"guards": str(seen)})
  # (3) exposure sites in attribute.py
  am = get_module(ctx, ATTR)
  n_sites = 0
  for fn in ast.walk(am.tree):
    if not isinstance(fn, _FUNCS):
      continue
    fparams = {a.arg for a in fn.args.args}
    # locals that alias <param>.members[..]
    reach = []      # lazily computed reaching definitions of simple locals

    def reaching(name, at):
      if not reach:
        def rgen(unit):
          if isinstance(unit, ast.Assign) and len(unit.targets) == 1 and \
              isinstance(unit.targets[0], ast.Name):
            return [(unit.targets[0].id, unit)]
          return []

        def rkill(unit):
          if isinstance(unit, ast.Assign) and len(unit.targets) == 1 and \
              isinstance(unit.targets[0], ast.Name):
            nm = unit.targets[0].id
            return lambda fact: fact[0] == nm
          return None
        reach.append(flow.flow(fn, rgen, rkill, mode="may"))
      st = reach[0].before.get(at) or ()
      return [d for nm, d in st if nm == name]

    def exposed(e, at, depth=0):
      if isinstance(e, ast.Subscript) and isinstance(e.ctx, ast.Load):
        d = dotted(e.value)
        if d and d.endswith(".members") and d.split(".")[0] in fparams and d.count(".") == 1:
          return d.split(".")[0]
      if isinstance(e, ast.Name) and depth < 2:
        owners = {exposed(d.value, d, depth + 1) for d in reaching(e.id, at)}
        owners.discard(None)
        if len(owners) == 1:
          return owners.pop()
      return None
    sites = []
    for r in walk_no_nested(fn):
      if isinstance(r, ast.Return) and r.value is not None:
        elts = r.value.elts if isinstance(r.value, ast.Tuple) else [r.value]
        for e in elts:
          o = exposed(e, r)
          if o:
            sites.append((r, o))
    if not sites:
      continue
    def gen(unit):
      out = []
      for c in flow.unconditional_calls(unit):
        if isinstance(c.func, ast.Attribute) and c.func.attr == "update_caches" and \
            isinstance(c.func.value, ast.Name):
          f = c.args[0] if c.args else next(
              (k.value for k in c.keywords if k.arg == force), None)
          if f is not None and _truthy_const(f):
            out.append(("forced", c.func.value.id))
      return out

    def kill(unit):
      # re-binding the owner name invalidates what we know about it
      if isinstance(unit, ast.Assign):
        names = {t.id for t in unit.targets if isinstance(t, ast.Name)}
        if names:
          return lambda fact: fact[1] in names
      return None
    f = flow.flow(fn, gen, kill, mode="must")
    for r, owner in sites:
      n_sites += 1
      st = f.before.get(r)
      ctx.check(st is not None and ("forced", owner) in st,
                f"member-exposure:{_qual(am, fn)}:{owner}.members", ATTR, r.lineno,
                f"`{src(r)}` hands out a member variable of `{owner}` (its "
                "value can be mutated by the caller) but "
                f"`{owner}.update_caches({force}=True)` is not executed on every "
                "path to it: the owner's memoised full hash descends into member "
                "values while its change stamps do not, so after `o.inner.x = ..` "
                "the call cache of a function taking `o` still finds the entry "
                "computed for the old value and returns its (now too narrow) "
                "result type", {"owner": owner, "return": src(r)})
  if not n_sites:
    raise AnalysisError(f"{ATTR}: no function returns `<param>.members[..]`")


_LOOP = ("    for cls in self.mro:\n      if isinstance(cls, Class):\n"
         "        if any(x in cls.get_own_attributes() for x in (\"__bool__\", \"__len__\")):\n"
         "          self.overrides_bool = True\n          return\n    self.overrides_bool = False\n")
_EXPO = "      obj.update_caches(force=True)\n      return node, obj.members[name]"

VARIANTS = [
    # R1.20
    {"name": "seeded-C01-r2m1", "rule": "R1.20", "patch": "seeded/C01-r2m1/patch.diff",
     "expect": "fire"},
    {"name": "overrides-bool-own-attributes-only", "rule": "R1.20", "file": MIXIN, "expect": "fire",
     "old": _LOOP,
     "new": "    own = self.get_own_attributes()\n    self.overrides_bool = \"__bool__\" in own or \"__len__\" in own\n"},
    {"name": "overrides-bool-forgets-len", "rule": "R1.20", "file": MIXIN, "expect": "fire",
     "old": "        if any(x in cls.get_own_attributes() for x in (\"__bool__\", \"__len__\")):",
     "new": "        if any(x in cls.get_own_attributes() for x in (\"__bool__\",)):"},
    {"name": "overrides-bool-first-two-classes", "rule": "R1.20", "file": MIXIN, "expect": "fire",
     "old": "    for cls in self.mro:\n      if isinstance(cls, Class):\n        if any(x in cls.get_own_attributes()",
     "new": "    for cls in self.mro[:2]:\n      if isinstance(cls, Class):\n        if any(x in cls.get_own_attributes()"},
    {"name": "dynamic-attributes-first-base-only", "rule": "R1.20", "file": MIXIN, "expect": "fire",
     "old": "        c.has_dynamic_attributes() for c in self.mro if isinstance(c, Class)",
     "new": "        c.has_dynamic_attributes() for c in self.mro[:2] if isinstance(c, Class)"},
    {"name": "twin-overrides-bool-any-over-mro", "rule": "R1.20", "file": MIXIN, "expect": "silent",
     "old": _LOOP,
     "new": "    hooks = (\"__bool__\", \"__len__\")\n    self.overrides_bool = any(\n"
            "        h in klass.get_own_attributes()\n        for klass in self.mro\n"
            "        if isinstance(klass, Class)\n        for h in hooks\n    )\n"},
    {"name": "twin-overrides-bool-hoisted-table-or-form", "rule": "R1.20", "file": MIXIN, "expect": "silent",
     "old": _LOOP,
     "new": "    for klass in self.mro:\n      if not isinstance(klass, Class):\n        continue\n"
            "      own = klass.get_own_attributes()\n      if \"__len__\" in own or \"__bool__\" in own:\n"
            "        self.overrides_bool = True\n        return\n    self.overrides_bool = False\n"},
    {"name": "twin-overrides-bool-reversed-scan", "rule": "R1.20", "file": MIXIN, "expect": "silent",
     "old": "    for cls in self.mro:\n      if isinstance(cls, Class):\n        if any(x in cls.get_own_attributes()",
     "new": "    for cls in reversed(self.mro):\n      if isinstance(cls, Class):\n        if any(x in cls.get_own_attributes()"},
    # the flag is read off compare.py also when the Instance arm is a helper with
    # an inverted guard (benign/C01-r4)
    {"name": "twin-benign-C01-r4-instance-arm-extracted", "rule": "R1.20", "patch": "benign/C01-r4/patch.diff", "expect": "silent"},
    {"name": "C01-r4+overrides-bool-forgets-len", "rule": "R1.20", "patch": "benign/C01-r4/defect_overrides_bool_forgets_len.diff", "expect": "fire"},
    {"name": "twin-compatible-with-guard-de-morgan", "rule": "R1.20", "file": COMPARE, "expect": "silent",
     "old": "    elif isinstance(value.cls, abstract.Class) and not value.cls.overrides_bool:\n",
     "new": "    elif not (not isinstance(value.cls, abstract.Class) or value.cls.overrides_bool):\n"},
    # R1.21
    {"name": "seeded-C01-r2m2", "rule": "R1.21", "patch": "seeded/C01-r2m2/patch.diff",
     "expect": "fire"},
    {"name": "forced-invalidation-only-for-instances", "rule": "R1.21", "file": ATTR, "expect": "fire",
     "old": _EXPO,
     "new": "      if isinstance(obj, abstract.Instance):\n        obj.update_caches(force=True)\n      return node, obj.members[name]"},
    {"name": "force-ignored-when-stamps-equal", "rule": "R1.21", "file": IBASE, "expect": "fire",
     "old": "    if self._cached_changestamps == cur_changestamps and not force:\n      return",
     "new": "    if self._cached_changestamps == cur_changestamps:\n      return"},
    {"name": "type-key-memo-not-reset", "rule": "R1.21", "file": IBASE, "expect": "fire",
     "old": "    self._fullhash = None\n    self._type_key = None\n    self._cached_changestamps = cur_changestamps",
     "new": "    self._fullhash = None\n    self._cached_changestamps = cur_changestamps"},
    {"name": "twin-exposure-through-local-positional-force", "rule": "R1.21", "file": ATTR, "expect": "silent",
     "old": _EXPO,
     "new": "      member = obj.members[name]\n      obj.update_caches(True)\n      return node, member"},
    {"name": "twin-update-caches-nested-guard", "rule": "R1.21", "file": IBASE, "expect": "silent",
     "old": "    if self._cached_changestamps == cur_changestamps and not force:\n      return",
     "new": "    if not force:\n      if self._cached_changestamps == cur_changestamps:\n        return"},
]
