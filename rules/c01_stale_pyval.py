"""C01 extension, PARKED (fires on today's tree: genuine defect, see below).

R1.26  abstract.Dict / abstract.List answer truthiness, `in`, `==` and constant
       subscripts from `pyval` while `is_concrete` is set (R1.23).  pyval is
       only updated by the methods the class intercepts with a native slot;
       every OTHER method of the builtin that changes the contents runs the
       stub signature only and leaves pyval stale.  Obligation (who may change
       the contents behind the flag's back: nobody): every mutating method of
       the modelled builtin class that its stub declares is
         - intercepted by a native slot of the flag class
           (`self.set_native_slot("<name>", ..)`), or
         - declared in builtins.pytd with a `self = B[..]` mutation in every
           signature AND the flag class lowers the flag whenever a type
           parameter is merged (List.merge_instance_type_parameter does,
           Dict does not).
       Mutators are taken from the host's collections.abc (MutableMapping \\
       Mapping, MutableSequence \\ Sequence) plus `__ior__` / `sort` /
       `__imul__`; names the stub does not define are skipped.

Today (confirmed on a scratch build of /repo HEAD 427b34d, 2026-09-24; CPython
values in the comments):

    f = {"a": 1}; f.clear();   f0 = 1 if f else "s"          # 's'   pytype: int
    g = {"a": 1}; g.popitem(); g0 = 1 if "a" in g else "s"   # 's'   pytype: int
    a = ["s", 1]; a.remove("s"); a0 = a[0]                   # 1     pytype: str
    b = ["s", 1]; del b[0];      b0 = b[0]                   # 1     pytype: str
    d = ["s", 1]; d.pop(0);      d0 = d[0]                   # 1     pytype: str
    e = [2, "s"]; e.reverse();   e0 = e[0]                   # 's'   pytype: int

(`x = 1 if d else "s"` after `d = {"a": 1}; d.clear()` infers `x: int`.)  All
are loop-free programs whose module-level names get a type that excludes the
run-time value: C01 violations.  Not intercepted: Dict.clear / popitem /
__delitem__ (vm.del_subscr handles only a constant str key that is present) /
__ior__ (the stub's mutation widens K/V, but Dict does not lower the flag on a
merge); List.pop / remove / reverse / sort / __delitem__.

More confirmed inputs: `l = ["s", 1]; l.sort(key=str); l0 = l[0]` (1, pytype
str); `f = {"a": 1}; g = f; f |= {"b": 2}; g0 = 1 if "b" in g else "s"` (1,
pytype str: the alias still sees the old concrete Dict).

Small repair (not applied; tried on a private copy of the scratch build,
/tmp/val/c01_stale_pyval_repair.diff): one bound-method slot per mutator that
lowers the flag and delegates to the stub (abstract.NativeFunction needs a
bound method, functools.partial does not work):
    # Dict.__init__
    self.set_native_slot("clear", self.clear_slot)
    self.set_native_slot("popitem", self.popitem_slot)
    self.set_native_slot("__delitem__", self.delitem_slot)
    def _forget(self, node, name, *args):
      self.is_concrete = False
      return self.call_pytd(node, name, *args)
    def clear_slot(self, node): return self._forget(node, "clear")   # etc.
    # List.__init__: pop / remove / reverse / __delitem__ the same way
and overlays/typed_dict.py drops its own `set_native_slot("__delitem__", ..)`
(TypedDict.delitem_slot then overrides Dict.delitem_slot; otherwise HasSlots
asserts "slot already occupied").  With that, the six programs above infer
Union[int, str] and the pass/fail set of upstream test_typed_dict, test_dict1/2,
test_list1/2, constant_folding_test and 18 more test files is unchanged.
`list.sort` (keyword arguments: needs function.Args with namedargs) and
`dict.__ior__` still have to be added the same way for the rule to hold.
Lowering is global, not per branch, exactly like Dict.setitem with a
non-constant key today.

Suggested keys for known_findings.json (if the rule is activated before the
repair):  R1.26:unintercepted-mutators:Dict, R1.26:unintercepted-mutators:List
"""
import ast
import collections.abc as _abc

from sa.core import rule, AnalysisError
from sa.pyindex import get_module, dotted
from sa.stubs import get_stubs
from rules import _util_c11c01 as _u
from rules import c01_containers as _cc

INST = _cc.INST
FLAG = _cc.FLAG

_MUTATORS = {
    "dict": (set(dir(_abc.MutableMapping)) - set(dir(_abc.Mapping))) | {"__ior__"},
    "list": (set(dir(_abc.MutableSequence)) - set(dir(_abc.Sequence))) | {"sort", "__imul__"},
}


def _stub_defs(stubs, cls, name):
  """The stub definitions of method `name` an instance of `cls` reaches (first
  class of the stub MRO that has it), or None."""
  _, entries = stubs.lookup(cls, name)
  if entries is None or not stubs.defines(cls, name):
    return None
  return [e.node for e in entries if isinstance(getattr(e, "node", None), ast.FunctionDef)]


def _lowers_on_merge(mod, cname):
  m = _u.methods_mro(mod, cname).get("merge_instance_type_parameter")
  if m is None:
    return False
  me = m.args.args[0].arg
  return any(isinstance(s, ast.Assign) and isinstance(s.value, ast.Constant)
             and s.value.value is False
             and any(dotted(t) == f"{me}.{FLAG}" for t in s.targets) for s in m.body)


def _native_slots(mod, cname):
  names = set()
  for m in _u.methods_mro(mod, cname).values():
    for c in ast.walk(m):
      if isinstance(c, ast.Call) and isinstance(c.func, ast.Attribute) and \
          c.func.attr in ("set_native_slot", "set_slot") and c.args:
        a = c.args[0]
        if isinstance(a, ast.Constant) and isinstance(a.value, str):
          names.add(a.value)
        elif isinstance(a, ast.Name):
          # `for name in ("a", "b"): self.set_native_slot(name, ..)`
          for loop in ast.walk(m):
            if isinstance(loop, ast.For) and isinstance(loop.target, ast.Name) and \
                loop.target.id == a.id and isinstance(loop.iter, (ast.Tuple, ast.List)):
              names |= {e.value for e in loop.iter.elts
                        if isinstance(e, ast.Constant) and isinstance(e.value, str)}
        else:
          raise AnalysisError(f"{cname}: slot name `{ast.unparse(a)}` not constant")
  return names


@rule("R1.26", "C01", floor=2)
def r1_26(ctx):
  """Every mutator of the modelled builtin is intercepted or lowers the flag."""
  mod = get_module(ctx, INST)
  stubs = get_stubs(ctx)
  for cname in _cc._flag_classes(mod):
    builtin = _cc._builtin_of(mod, cname)
    if builtin not in _MUTATORS:
      raise AnalysisError(f"{INST}: no mutator reference for builtins.{builtin}")
    scls = stubs.cls(f"builtins.{builtin}")
    slots = _native_slots(mod, cname)
    lowers = _lowers_on_merge(mod, cname)
    missing, covered = [], {}
    for m in sorted(_MUTATORS[builtin]):
      defs = _stub_defs(stubs, scls, m)
      if not defs:
        continue          # the stub does not offer the method: it cannot be called
      if m in slots:
        covered[m] = "native slot"
        continue
      mutating = all(any(isinstance(s, ast.Assign) and any(
          isinstance(t, ast.Name) and t.id == "self" for t in s.targets)
          for s in d.body) for d in defs)
      if mutating and lowers:
        covered[m] = "stub mutation + flag lowered on merge"
        continue
      missing.append(m)
    ctx.check(not missing, f"unintercepted-mutators:{cname}", INST, mod.cls(cname).lineno,
              f"{cname} keeps the contents of a builtins.{builtin} in pyval and "
              f"answers from it while `{FLAG}` is set, but "
              f"{', '.join(builtin + '.' + m for m in missing)} change the contents "
              "without a native slot and without lowering the flag: pyval is stale "
              "afterwards (`d = {'a': 1}; d.clear(); x = 1 if d else 's'` infers "
              "x: int, run-time value 's')",
              {"covered": covered, "missing": missing, "lowers_on_merge": lowers})


VARIANTS = []
