"""C07 - the solver decides visibility correctly: five guards.

Decides only structural guards without which named clauses of the property
fail (conflict detection, re-binding blocks the path, condition absorption,
memo finalisation, the individual-reachability precheck).  Does NOT decide
that the memoised search equals the reaching-definitions semantics.
"""
from sa.core import rule, AnalysisError
from sa import cxx
from sa.cxx import term, uncast, inner, strip

TECHNIQUE = ("static analysis over clang's type-resolved AST of solver.cc: "
             "must-dataflow (dominance / post-dominance) and guard-shape rules")
EXPLANATION = (
    "Guard-rail rules on the clang AST of solver.cc. R7.1: in "
    "Solver::FindSolution every acceptance (`return true`, recursive "
    "RecallOrFindSolution) inside the loop over removal results is dominated "
    "by `if (GoalsConflict(result.removed_goals)) continue`, and GoalsConflict "
    "keys its map on goal->variable() and reports a second binding of the same "
    "variable ('no two bindings of one variable are required together'). "
    "R7.2: the blocked set handed to the backward path search is filled from "
    "goal->variable()->nodes() for every remaining goal, FindNodeBackwards "
    "forwards it, and FindShortestPathToNode tests the finish node first, then "
    "`blocked.count(node)` before expanding incoming edges ('no variable in "
    "the set is re-bound in between'). R7.3: a node condition is inserted into "
    "the goal set before remove_finished_goals. R7.4: in RecallOrFindSolution "
    "the provisional `solved_states_[state] = true` is overwritten by the real "
    "result on every path to an exit ('repeated queries never flip'). R7.5: "
    "Solve_ rejects a multi-binding query unless every binding is solvable "
    "alone (CanHaveSolution loops over all goals) - the 'every goal "
    "individually reachable / subsets accepted' clause. These are necessary "
    "conditions; the equivalence of the search with the path semantics is not "
    "decided (path caching, articulation points, cycle skipping are blind "
    "spots).")
ASSUMPTIONS = [
    "clang's AST is the trusted resolver",
    "only the named guards are decided; the search algorithm itself is out of "
    "reach of a static argument",
]

SC = "pytype/typegraph/solver.cc"


def _ix(ctx):
  return cxx.get_index(ctx)


def _line(n):
  return ((n.get("range") or {}).get("begin") or {}).get("line") or 0


def _stmts(n):
  if n is None:
    return []
  return inner(n) if n.get("kind") == "CompoundStmt" else [n]


def _if_parts(s):
  parts = list(inner(s))
  if s.get("hasInit"):
    parts.pop(0)
  if s.get("hasVar"):
    parts.pop(0)
  cond, then = parts[0], parts[1]
  els = parts[2] if len(parts) > 2 else None
  return cond, then, els


def _leaves_iteration(block):
  st = _stmts(block)
  if not st:
    return False
  last = st[-1]
  return last.get("kind") in ("ContinueStmt", "BreakStmt", "ReturnStmt")


def _range_for(s):
  """(loopvar decl, range term source node, body) of a CXXForRangeStmt."""
  kids = inner(s)
  body = kids[-1]
  loopvar = inner(kids[-2])[0]
  rng = inner(kids[-7])[0] if len(kids) >= 7 and kids[-7] else None
  # kids: [init?], range(DeclStmt __range), begin, end, cond, inc, loopvar, body
  rng_decl = None
  for c in kids[:-1]:
    if c.get("kind") == "DeclStmt" and inner(c) and \
        inner(c)[0].get("name", "").startswith("__range"):
      rng_decl = inner(c)[0]
  if rng_decl is None or not inner(rng_decl):
    raise AnalysisError("range-for without __range declaration")
  return loopvar, inner(rng_decl)[-1], body


def _is_true_ret(s):
  if s.get("kind") != "ReturnStmt" or not inner(s):
    return False
  return uncast(term(None, strip(inner(s)[0]))) == ("bool", True) \
      if strip(inner(s)[0]).get("kind") == "CXXBoolLiteralExpr" else False


@rule("R7.1", "C07", floor=4)
def r7_1(ctx):
  """Conflicting removals are discarded before any acceptance."""
  ix = _ix(ctx)
  fs = ix.find("Solver::FindSolution")[0]
  # the loop over `results`
  loops = [n for n in cxx.walk(fs.body) if n.get("kind") == "CXXForRangeStmt"]
  target = None
  for lp in loops:
    lv, rng, body = _range_for(lp)
    t = uncast(term(ix, rng))
    if isinstance(t, tuple) and t[0] == "var" and "results" in str(t[1]):
      target = (lp, lv, body)
  if target is None:
    raise AnalysisError("FindSolution: loop over removal results not found")
  lp, lv, body = target
  res = ("var", lv.get("name"), lv["id"])
  guard = None
  for s in _stmts(body):
    if s.get("kind") == "IfStmt":
      cond, then, els = _if_parts(s)
      c = uncast(term(ix, cond))
      if isinstance(c, tuple) and c[0] == "mcall" and str(c[1]).startswith("Solver::GoalsConflict"):
        guard = (s, c, then, els)
        break
      if isinstance(c, tuple) and c[0] == "!" and "GoalsConflict" in str(c):
        raise AnalysisError("FindSolution: negated GoalsConflict guard - idiom not understood")
  if guard is None:
    ctx.bad("FindSolution:conflict-guard", SC, _line(lp),
            "no `if (GoalsConflict(result.removed_goals))` guard is a direct "
            "statement of the loop over removal results")
    return
  s, c, then, els = guard
  arg = uncast(c[3]) if len(c) > 3 else None
  ok_arg = isinstance(arg, tuple) and arg[0] == "field" and \
      arg[1].endswith("RemoveResult::removed_goals") and uncast(arg[2]) == res
  ctx.check(ok_arg, "FindSolution:conflict-guard-argument", SC, _line(s),
            f"GoalsConflict is applied to {arg}; it must test the goals "
            "removed together in this result", {"arg": str(arg)})
  ctx.check(_leaves_iteration(then) and els is None and not any(
      _is_true_ret(x) for x in cxx.walk(then)),
      "FindSolution:conflict-guard-discards", SC, _line(s),
      "the true-branch of the conflict guard must abandon this removal "
      "result (continue/break/return false)")
  # dominance of every acceptance in the loop body
  gid = id(s)
  order = _stmts(body)
  gi = [i for i, x in enumerate(order) if x is s][0]
  accept = []
  for i, st in enumerate(order):
    for n in cxx.walk(st):
      if n.get("kind") == "ReturnStmt" and inner(n) and \
          strip(inner(n)[0]).get("kind") == "CXXBoolLiteralExpr" and \
          strip(inner(n)[0]).get("value") is True:
        accept.append((i, "return true", n))
      if n.get("kind") == "CXXMemberCallExpr":
        key = ix.callee(n)[0] or ""
        if key.startswith("Solver::RecallOrFindSolution"):
          accept.append((i, "RecallOrFindSolution", n))
  if len(accept) < 2:
    raise AnalysisError("FindSolution: acceptance sites not found")
  for i, what, n in accept:
    ctx.check(i > gi, f"FindSolution:accept-after-guard:{what}", SC, _line(n),
              f"`{what}` at line {_line(n)} is not preceded by the conflict "
              "guard in the same iteration", {"stmt_index": i, "guard_index": gi})
  # GoalsConflict itself
  gc = ix.find("Solver::GoalsConflict")[0]
  goals = ("var", gc.params[0].get("name"), gc.params[0]["id"])
  loops = [n for n in cxx.walk(gc.body) if n.get("kind") == "CXXForRangeStmt"]
  if len(loops) != 1:
    raise AnalysisError("GoalsConflict: expected one loop over the goals")
  lv, rng, body = _range_for(loops[0])
  if uncast(term(ix, rng)) != goals:
    raise AnalysisError("GoalsConflict: loop does not range over its parameter")
  g = ("var", lv.get("name"), lv["id"])
  ins = [n for n in cxx.walk(body) if n.get("kind") == "CXXMemberCallExpr"
         and ix.callee(n)[2] in ("emplace", "insert", "try_emplace")]
  if len(ins) != 1:
    raise AnalysisError("GoalsConflict: map insertion not found")
  keyarg = uncast(term(ix, inner(ins[0])[1]))
  ok = isinstance(keyarg, tuple) and keyarg[0] == "mcall" and \
      str(keyarg[1]).startswith("Binding::variable") and uncast(keyarg[2]) == g
  ctx.check(ok, "GoalsConflict:keyed-on-variable", SC, _line(ins[0]),
            f"the conflict map is keyed on {keyarg}; it must be goal->variable()",
            {"key": str(keyarg)})
  # `if (!inserted) ... return true`; final `return false`
  found = False
  for n in cxx.walk(body):
    if n.get("kind") == "IfStmt":
      cond, then, els = _if_parts(n)
      c = uncast(term(ix, cond))
      neg = isinstance(c, tuple) and c[0] == "!" and (
          "inserted" in str(c[1]) or "second" in str(c[1]))
      if neg and any(x.get("kind") == "ReturnStmt" and inner(x) and
                     strip(inner(x)[0]).get("value") is True for x in cxx.walk(then)):
        found = True
  tail = _stmts(gc.body)[-1]
  tail_false = tail.get("kind") == "ReturnStmt" and inner(tail) and \
      strip(inner(tail)[0]).get("kind") == "CXXBoolLiteralExpr" and \
      strip(inner(tail)[0]).get("value") is False
  ctx.check(found and tail_false, "GoalsConflict:reports-duplicate-variable", SC,
            gc.line, "GoalsConflict must return true when a variable is "
            "already in the map (insertion failed) and false otherwise",
            {"dup_returns_true": found, "tail_false": bool(tail_false)})


@rule("R7.2", "C07", floor=5)
def r7_2(ctx):
  """Nodes that re-bind a goal variable block the backward path."""
  ix = _ix(ctx)
  fs = ix.find("Solver::FindSolution")[0]
  # blocked.insert(...) inside a loop over result.new_goals, fed by variable()->nodes()
  calls = [n for n in cxx.walk(fs.body) if n.get("kind") == "CXXMemberCallExpr"
           and (ix.callee(n)[0] or "").startswith("internal::PathFinder::FindNodeBackwards")]
  if len(calls) != 1:
    raise AnalysisError("FindSolution: FindNodeBackwards call not found")
  args = [uncast(term(ix, a)) for a in inner(calls[0])[1:]]
  if len(args) != 3 or args[2][0] != "var":
    raise AnalysisError(f"FindNodeBackwards arguments not understood: {args}")
  blocked = args[2]
  start_ok = isinstance(args[0], tuple) and args[0][0] == "mcall" and \
      "State::pos" in str(args[0][1])
  ctx.check(start_ok, "FindSolution:search-starts-at-pos", SC, _line(calls[0]),
            f"backward search starts at {args[0]}, not at state.pos()",
            {"start": str(args[0])})
  filled = False
  src_ok = False
  for lp in [n for n in cxx.walk(fs.body) if n.get("kind") == "CXXForRangeStmt"]:
    lv, rng, body = _range_for(lp)
    r = uncast(term(ix, rng))
    if not (isinstance(r, tuple) and r[0] == "field" and r[1].endswith("RemoveResult::new_goals")):
      continue
    g = ("var", lv.get("name"), lv["id"])
    env = {}
    for s in _stmts(body):
      if s.get("kind") == "DeclStmt":
        for v in inner(s):
          if v.get("kind") == "VarDecl" and inner(v):
            env[v["id"]] = term(ix, inner(v)[-1], env)
    for n in cxx.walk(body):
      if n.get("kind") == "CXXMemberCallExpr" and ix.callee(n)[2] == "insert":
        t = term(ix, n, env)
        if uncast(t[2]) == blocked:
          filled = True
          txt = str(t[3:])
          src_ok = "Variable::nodes" in txt and "Binding::variable" in txt and \
              str(g[2]) in txt
  ctx.check(filled and src_ok, "FindSolution:blocked-from-goal-variables", SC,
            _line(calls[0]),
            "the blocked set must receive goal->variable()->nodes() for every "
            "goal in result.new_goals", {"filled": filled, "source_ok": src_ok})
  # FindNodeBackwards forwards `blocked`
  fb = ix.find("internal::PathFinder::FindNodeBackwards")[0]
  bp = ("var", fb.params[2].get("name"), fb.params[2]["id"])
  c2 = [n for n in cxx.walk(fb.body) if n.get("kind") == "CXXMemberCallExpr"
        and (ix.callee(n)[0] or "").startswith("internal::PathFinder::FindShortestPathToNode")]
  if len(c2) != 1:
    raise AnalysisError("FindNodeBackwards: FindShortestPathToNode call not found")
  a2 = [uncast(term(ix, a)) for a in inner(c2[0])[1:]]
  sp = ("var", fb.params[0].get("name"), fb.params[0]["id"])
  fp = ("var", fb.params[1].get("name"), fb.params[1]["id"])
  ctx.check(a2 == [sp, fp, bp], "FindNodeBackwards:forwards-arguments", SC, _line(c2[0]),
            f"FindShortestPathToNode is called with {a2}; expected (start, "
            "finish, blocked) unchanged", {"args": str(a2)})
  # FindShortestPathToNode: finish test, then blocked test, then expansion
  sp_fn = ix.find("internal::PathFinder::FindShortestPathToNode")[0]
  bl = ("var", sp_fn.params[2].get("name"), sp_fn.params[2]["id"])
  wl = [n for n in cxx.walk(sp_fn.body) if n.get("kind") == "WhileStmt"]
  if not wl:
    raise AnalysisError("FindShortestPathToNode: search loop not found")
  body = _stmts(inner(wl[0])[-1])
  idx_finish = idx_block = idx_expand = None
  for i, s in enumerate(body):
    if s.get("kind") == "IfStmt":
      cond, then, els = _if_parts(s)
      c = str(uncast(term(ix, cond)))
      if "==" in c and str(sp_fn.params[1]["id"]) in c and \
          any(x.get("kind") == "BreakStmt" for x in cxx.walk(then)):
        idx_finish = i if idx_finish is None else idx_finish
      if str(bl[2]) in c and "'count'" in c or (str(bl[2]) in c and "find" in c):
        if _leaves_iteration(then):
          idx_block = i if idx_block is None else idx_block
    for n in cxx.walk(s):
      if n.get("kind") == "CXXMemberCallExpr" and \
          (ix.callee(n)[0] or "").startswith("CFGNode::incoming") and idx_expand is None \
          and s.get("kind") != "IfStmt":
        idx_expand = i
  if idx_finish is None or idx_expand is None:
    raise AnalysisError("FindShortestPathToNode: loop shape not understood")
  ctx.check(idx_block is not None and idx_block < idx_expand,
            "FindShortestPathToNode:blocked-before-expansion", SC, sp_fn.line,
            "a blocked node must be skipped (continue) before its incoming "
            "edges are expanded", {"blocked_idx": idx_block, "expand_idx": idx_expand})
  ctx.check(idx_block is None or idx_finish < idx_block,
            "FindShortestPathToNode:finish-before-blocked", SC, sp_fn.line,
            "the finish test must precede the blocked test: the finish node "
            "binds a goal variable and is therefore itself in the blocked set",
            {"finish_idx": idx_finish, "blocked_idx": idx_block})


@rule("R7.3", "C07", floor=2)
def r7_3(ctx):
  """A node condition becomes a goal before goals are removed at the node."""
  ix = _ix(ctx)
  fs = ix.find("Solver::FindSolution")[0]
  calls = [n for n in cxx.walk(fs.body) if n.get("kind") == "CallExpr"
           and "remove_finished_goals" in (ix.callee(n)[0] or "")]
  if len(calls) != 1:
    raise AnalysisError("FindSolution: remove_finished_goals call not found")
  a = [uncast(term(ix, x)) for x in inner(calls[0])[1:]]
  if len(a) == 2 and a[1][0] == "mcall" and "State::goals" in str(a[1][1]):
    ctx.bad("FindSolution:condition-absorbed", SC, _line(calls[0]),
            "remove_finished_goals receives state.goals() itself, so a node "
            "condition can never be part of the goal set", {"goals_arg": str(a[1])})
    return
  if len(a) != 2 or a[1][0] != "var":
    raise AnalysisError(f"remove_finished_goals arguments not understood: {a}")
  goals = a[1]
  ctx.check("State::pos" in str(a[0]), "FindSolution:removal-at-pos", SC, _line(calls[0]),
            f"goals are removed at {a[0]}, not at state.pos()", {"pos": str(a[0])})

  def transfer(ev, st):
    if ev.kind == "call" and (ev.extra or {}).get("name") == "insert":
      t = term(ix, ev.node)
      if uncast(t[2]) == goals and "CFGNode::condition" in str(_resolve(t[3:])):
        return st | {"absorbed"}
    if ev.kind == "call" and "remove_finished_goals" in ev.what:
      return st | ({"removed_after"} if "absorbed" in st or "nocond" in st else {"removed_early"})
    return st

  env = {}
  for n in cxx.walk(fs.body):
    if n.get("kind") == "VarDecl" and inner(n) and n.get("name") == "condition":
      env[n["id"]] = term(ix, inner(n)[-1])

  def _resolve(ts):
    out = []
    for t in ts:
      t = uncast(t)
      if isinstance(t, tuple) and t[0] == "var" and t[2] in env:
        t = env[t[2]]
      out.append(t)
    return out
  # structural: an IfStmt on state.pos()->condition() whose then-branch inserts
  # the condition into `goals`, located before the removal call in the same block
  top = _stmts(fs.body)
  idx_rm = [i for i, s in enumerate(top) if any(n is calls[0] for n in cxx.walk(s))]
  idx_if = None
  for i, s in enumerate(top):
    if s.get("kind") == "IfStmt":
      cond, then, els = _if_parts(s)
      c = uncast(term(ix, cond))
      if "CFGNode::condition" in str(c) and "State::pos" in str(c) and not str(c).startswith("('!'"):
        ins = False
        for n in cxx.walk(then):
          if n.get("kind") == "CXXMemberCallExpr" and ix.callee(n)[2] == "insert":
            t = term(ix, n)
            if uncast(t[2]) == goals and "CFGNode::condition" in str(_resolve(t[3:])):
              ins = True
        if ins:
          idx_if = i
  ok = bool(idx_rm) and idx_if is not None and idx_if < idx_rm[0]
  ctx.check(ok, "FindSolution:condition-absorbed", SC, fs.line,
            "when state.pos() has a condition it must be inserted into the "
            "goal set handed to remove_finished_goals, before that call",
            {"if_index": idx_if, "remove_index": idx_rm})


@rule("R7.4", "C07", floor=2)
def r7_4(ctx):
  """The provisional memo entry is replaced by the real result on every path."""
  ix = _ix(ctx)
  fn = ix.find("Solver::RecallOrFindSolution")[0]
  result_vars = set()
  for n in cxx.walk(fn.body):
    if n.get("kind") == "VarDecl" and inner(n):
      t = term(ix, inner(n)[-1])
      if "Solver::FindSolution" in str(t):
        result_vars.add(n["id"])
  if not result_vars:
    raise AnalysisError("RecallOrFindSolution: FindSolution result not bound to a local")

  def classify(ev):
    if ev.kind != "write" or ev.what != "Solver::solved_states_":
      return None
    t = term(ix, ev.node)
    if isinstance(t, tuple) and t[0] == "=":
      rhs = uncast(t[2])
      if rhs == ("bool", True):
        return "prov"
      if isinstance(rhs, tuple) and rhs[0] == "var" and rhs[2] in result_vars:
        return "final"
      return "other"
    return None   # operator[] access itself

  kinds = []

  def transfer(ev, st):
    c = classify(ev)
    if c:
      kinds.append(c)
    if c == "prov":
      return (st - {"final"}) | {"prov"}
    if c == "final":
      return st | {"final"}
    if c == "other":
      return st | {"other"}
    return st
  fl = cxx.CxxFlow(ix, fn, transfer)
  if "prov" not in kinds:
    ctx.ok("RecallOrFindSolution:no-provisional-entry", SC, fn.line,
           {"note": "no provisional entry is written"})
  else:
    bad = [(k, _line(n)) for k, n, s in fl.exits
           if s is not None and "prov" in s and "final" not in s]
    ctx.check(not bad, "RecallOrFindSolution:memo-finalised", SC, fn.line,
              f"exits {bad} leave the provisional `true` memo entry in place",
              {"exits": [(k, sorted(s or [])) for k, n, s in fl.exits]})
  ctx.check("other" not in kinds, "RecallOrFindSolution:memo-values", SC, fn.line,
            "solved_states_ may only receive the provisional `true` or the "
            "result of FindSolution", {"writes": kinds})
  # the function returns the cached value or that same result
  rets = [uncast(term(ix, inner(n)[0])) for k, n, s in fl.exits if k == "return" and inner(n)]
  ok = all((r[0] == "var" and r[2] in result_vars) or "second" in str(r) for r in rets)
  ctx.check(ok, "RecallOrFindSolution:returns-memo-or-result", SC, fn.line,
            f"returns {rets}", {"returns": [str(r) for r in rets]})


@rule("R7.5", "C07", floor=3)
def r7_5(ctx):
  """Multi-binding queries require every binding to be solvable alone."""
  ix = _ix(ctx)
  sv = ix.find("Solver::Solve_")[0]
  attrs = ("var", sv.params[0].get("name"), sv.params[0]["id"])
  node = ("var", sv.params[1].get("name"), sv.params[1]["id"])
  top = _stmts(sv.body)
  pre = None
  for i, s in enumerate(top):
    if s.get("kind") == "IfStmt":
      cond, then, els = _if_parts(s)
      c = uncast(term(ix, cond))
      if "Solver::CanHaveSolution" in str(c):
        pre = (i, s, c, then)
  if pre is None:
    ctx.bad("Solve_:precheck", SC, sv.line,
            "Solve_ no longer pre-checks that each binding is solvable alone")
  else:
    i, s, c, then = pre
    shape = isinstance(c, tuple) and c[0] == "&&" and \
        isinstance(uncast(c[2]), tuple) and uncast(c[2])[0] == "!" and \
        "Solver::CanHaveSolution" in str(uncast(c[2])[1])
    lhs = uncast(c[1]) if shape else None
    size_ok = shape and lhs[0] == ">" and "size" in str(lhs[1]) and \
        isinstance(uncast(lhs[2]), tuple) and uncast(lhs[2])[:2] == ("int", 1)
    call = uncast(uncast(c[2])[1]) if shape else None
    args_ok = shape and [uncast(x) for x in call[3:]] == [attrs, node]
    rets_false = any(x.get("kind") == "ReturnStmt" and inner(x) and
                     strip(inner(x)[0]).get("value") is False for x in cxx.walk(then))
    ctx.check(bool(shape and size_ok and args_ok and rets_false), "Solve_:precheck", SC, _line(s),
              f"the precheck must be `if (attrs.size() > 1 && "
              f"!CanHaveSolution(attrs, node)) return false`; got {c}",
              {"cond": str(c)})
    later = [j for j, st in enumerate(top) for n in cxx.walk(st)
             if n.get("kind") == "CXXMemberCallExpr" and
             (ix.callee(n)[0] or "").startswith("Solver::RecallOrFindSolution")]
    ctx.check(bool(later) and min(later) > i, "Solve_:precheck-first", SC, _line(s),
              "the precheck must precede the search", {"search_at": later, "precheck_at": i})
  ch = ix.find("Solver::CanHaveSolution")[0]
  cattrs = ("var", ch.params[0].get("name"), ch.params[0]["id"])
  loops = [n for n in cxx.walk(ch.body) if n.get("kind") == "CXXForRangeStmt"]
  if len(loops) != 1:
    raise AnalysisError("CanHaveSolution: expected one loop")
  lv, rng, body = _range_for(loops[0])
  over_all = uncast(term(ix, rng)) == cattrs
  # inside: Solve_ on a singleton; failure returns false; tail returns true
  fails = False
  for n in cxx.walk(body):
    if n.get("kind") == "IfStmt":
      cond, then, els = _if_parts(n)
      c = uncast(term(ix, cond))
      if isinstance(c, tuple) and c[0] == "!" and "Solver::Solve_" in str(c[1]):
        fails = any(x.get("kind") == "ReturnStmt" and inner(x) and
                    strip(inner(x)[0]).get("value") is False for x in cxx.walk(then))
  tail = _stmts(ch.body)[-1]
  tail_true = tail.get("kind") == "ReturnStmt" and inner(tail) and \
      strip(inner(tail)[0]).get("value") is True
  early_true = any(x.get("kind") == "ReturnStmt" and inner(x) and
                   strip(inner(x)[0]).get("value") is True for x in cxx.walk(body))
  ctx.check(over_all and fails and tail_true and not early_true,
            "CanHaveSolution:every-goal-alone", SC, ch.line,
            "CanHaveSolution must loop over every start binding, return false "
            "as soon as one is not solvable alone, and true otherwise",
            {"over_all": over_all, "fails": fails, "tail_true": bool(tail_true)})


STATE_FIELDS = ("goals_to_remove", "seen_goals", "removed_goals", "new_goals")
ADDITIVE = {"insert", "push_back", "emplace", "emplace_back", "push"}
SUBTRACTIVE = {"erase", "pop_back", "pop"}


def _pos(n):
  b = (n.get("range") or {}).get("begin") or {}
  return (_line(n), b.get("col", 0))


def _is_action_stack(ix, obj, t):
  """The action stack: a local/parameter of type std::stack<Action> (any name)."""
  ty = cxx.qual_type(obj) if obj is not None else ""
  if "stack<" in ty and "Action" in ty:
    return True
  return isinstance(t, tuple) and t[0] == "var" and t[1] == "actions"


def _state_helper(ix, n):
  """The Fn a plain call hands the TraverseState / action stack to, else None."""
  if n.get("kind") != "CallExpr":
    return None
  key, fn, nm, obj = ix.callee(n)
  if fn is None or fn.body is None or not fn.file.endswith("solver.cc"):
    return None
  for p in fn.params:
    ty = cxx.qual_type(p)
    if "TraverseState" in ty or ("stack<" in ty and "Action" in ty):
      return fn
  return None


def _state_mutations(ix, block, _depth=0):
  """Ordered (kind, field, node) events of one statement list: mutations of
  TraverseState fields and pushes onto the action stack.  A call of a
  file-local helper that receives the state or the stack contributes the
  helper's events at the position of the call (two levels deep)."""
  keyed = []
  for n in cxx.walk(block):
    if n.get("kind") == "CallExpr":
      fn = _state_helper(ix, n) if _depth < 2 else None
      if fn is not None:
        for i, e in enumerate(_state_mutations(ix, fn.body, _depth + 1)):
          keyed.append((_pos(n) + (i,), e))
      continue
    if n.get("kind") != "CXXMemberCallExpr":
      continue
    key, fn, nm, obj = ix.callee(n)
    t = term(ix, obj) if obj is not None else None
    if isinstance(t, tuple) and t[0] == "field" and "TraverseState::" in t[1]:
      f = t[1].split("::")[-1]
      if nm in ADDITIVE:
        keyed.append((_pos(n) + (0,), ("add", f, n)))
      elif nm in SUBTRACTIVE:
        keyed.append((_pos(n) + (0,), ("sub", f, n)))
    elif nm in ("emplace", "push") and _is_action_stack(ix, obj, t):
      args = [uncast(term(ix, a)) for a in inner(n)[1:]]
      what = args[0][1] if args and args[0][0] == "var" else str(args[0]) if args else "?"
      if args and args[0][0] == "var" and "Action" in (cxx.qual_type(inner(n)[1]) or "") \
          and "ActionType" not in (cxx.qual_type(inner(n)[1]) or ""):
        what = "action"      # a whole Action pushed back: the continuation
      keyed.append((_pos(n) + (0,), ("push", what, n)))
  keyed.sort(key=lambda ke: ke[0])
  return [e for _, e in keyed]


def _added_flags(fn, call):
  """Names that hold `.second` of the pair returned by this insert() call."""
  names = set()
  for d in cxx.walk(fn.body):
    if d.get("kind") == "DecompositionDecl" and any(x is call for x in cxx.walk(d)):
      bs = [b for b in inner(d) if b.get("kind") == "BindingDecl"]
      if len(bs) == 2:
        names.add(bs[1].get("name"))
  return names


def _not_added_region(ix, fn, call):
  """ids of the nodes that only run when this insert() added nothing:
  the then-branch of `if (!added)` / the else-branch of `if (added)`."""
  flags = _added_flags(fn, call)
  region = set()
  if not flags:
    return region
  for n in cxx.walk(fn.body):
    if n.get("kind") != "IfStmt" or _pos(n) < _pos(call):
      continue
    cond, then, els = _if_parts(n)
    c = uncast(term(ix, cond))
    if isinstance(c, tuple) and c[0] == "!" and isinstance(uncast(c[1]), tuple) and \
        uncast(c[1])[0] == "var" and uncast(c[1])[1] in flags:
      region |= {id(x) for x in cxx.walk(then)}
    elif isinstance(c, tuple) and c[0] == "var" and c[1] in flags and els is not None:
      region |= {id(x) for x in cxx.walk(els)}
  return region


def _same_block(blk, a, b):
  """a and b are statements of one compound statement (b not nested deeper
  than a's siblings)."""
  for c in cxx.walk(blk):
    if c.get("kind") == "CompoundStmt":
      kids = inner(c)
      if any(k is a for k in kids) and any(any(x is b for x in cxx.walk(k)) for k in kids):
        return True
  return False


def _insert_undo_conditional(ix, fn, blk, call, fld):
  """How the ERASE undo of `state.<fld>.insert(x)` is made conditional on the
  insertion having taken place; None if it is unconditional."""
  arg = uncast(term(ix, inner(call)[1])) if len(inner(call)) > 1 else None
  # (a) the bool of the returned pair guards the push
  bool_names = set()
  for d in cxx.walk(fn.body):
    if d.get("kind") == "DecompositionDecl" and any(x is call for x in cxx.walk(d)):
      bs = [b for b in inner(d) if b.get("kind") == "BindingDecl"]
      if len(bs) == 2:
        bool_names.add(bs[1].get("name"))
    if d.get("kind") == "VarDecl" and any(x is call for x in cxx.walk(d)):
      bool_names.add(d.get("name") + ".second")
  want = "ERASE_" + fld.upper()
  pushes = []
  for n in cxx.walk(blk):
    if n.get("kind") == "CXXMemberCallExpr" and ix.callee(n)[2] in ("emplace", "push"):
      a = [uncast(term(ix, x)) for x in inner(n)[1:]]
      if a and a[0][0] == "var" and a[0][1] == want and _line(n) >= _line(call):
        pushes.append(n)
  if not pushes:
    return None
  push = pushes[0]
  for n in cxx.walk(blk):
    if n.get("kind") == "IfStmt" and any(x is push for x in cxx.walk(inner(n)[1] if len(inner(n)) > 1 else n)):
      c = uncast(term(ix, _if_parts(n)[0]))
      cs = str(c)
      if isinstance(c, tuple) and c[0] == "var" and c[1] in bool_names:
        return f"guarded by `{c[1]}` (second of the insert result)"
      if any(b.endswith(".second") and b.split(".")[0] in cs and "second" in cs for b in bool_names):
        return "guarded by .second of the insert result"
  # (a') a guard clause `if (!added) { ...; return; }` stands between insert and push
  for n in cxx.walk(blk):
    if n.get("kind") == "IfStmt" and _pos(call) < _pos(n) < _pos(push) and \
        not any(x is push for x in cxx.walk(n)):
      cond, then, els = _if_parts(n)
      c = uncast(term(ix, cond))
      if isinstance(c, tuple) and c[0] == "!" and isinstance(uncast(c[1]), tuple) and \
          uncast(c[1])[0] == "var" and uncast(c[1])[1] in bool_names and \
          _leaves_iteration(then) and _same_block(blk, n, push):
        return f"push only reached past the guard clause `if (!{uncast(c[1])[1]}) return`"
  # (b) an earlier membership test on the same element returns before the insert
  for n in cxx.walk(blk):
    if n.get("kind") == "IfStmt" and _line(n) < _line(call):
      cond, then, els = _if_parts(n)
      c = uncast(term(ix, cond))
      if isinstance(c, tuple) and c[0] == "mcall" and c[1] in ("count", "contains") and \
          fld in str(c[2]) and [uncast(x) for x in c[3:]] == [arg] and _leaves_iteration(then):
        return "insertion only reached when a prior count() test found the goal absent"
  return None


@rule("R7.6", "C07", floor=11)
def r7_6(ctx):
  """Undo discipline of the goal-removal state machine.

  remove_finished_goals explores alternatives depth-first on one mutable
  TraverseState; every mutation must push its inverse on the action stack
  (ERASE_<field> after an insertion, INSERT_<field> after a removal) and the
  switch must apply that inverse to the same field - otherwise goals leak
  from one source-set alternative into the next.
  """
  ix = _ix(ctx)
  enum = None
  for tu in ("solver.cc",):
    for o in cxx.dump_tu(ctx, tu):
      for n in cxx.walk(o):
        if n.get("kind") == "EnumDecl" and n.get("name") == "ActionType":
          enum = [c.get("name") for c in inner(n) if c.get("kind") == "EnumConstantDecl"]
  if not enum:
    raise AnalysisError("enum ActionType not found")
  undo_kinds = [e for e in enum if e.startswith(("ERASE_", "INSERT_"))]
  tr = ix.find("internal::traverse")[0]
  rm = ix.find("internal::remove_finished_goals")[0]
  # (1) in traverse: each mutation is immediately followed by its inverse push
  ev = _state_mutations(ix, tr.body)
  n_mut = 0
  for i, (kind, f, node) in enumerate(ev):
    if kind not in ("add", "sub"):
      continue
    n_mut += 1
    want = ("ERASE_" if kind == "add" else "INSERT_") + f.upper()
    skip = _not_added_region(ix, tr, node) if kind == "add" else set()
    nxt = next((e for e in ev[i + 1:] if e[0] in ("push", "add", "sub")
                and id(e[2]) not in skip), None)
    ok = nxt is not None and nxt[0] == "push" and nxt[1] == want
    ctx.check(ok, f"traverse:{f}:{'insert' if kind == 'add' else 'erase'}->{want}", SC, _line(node),
              f"the {'insertion into' if kind == 'add' else 'removal from'} "
              f"state.{f} at line {_line(node)} is not followed by pushing its "
              f"inverse {want} (next event: {nxt and nxt[:2]}): the change "
              "survives backtracking into the next alternative",
              {"next": nxt and list(nxt[:2])})
  if n_mut < 4:
    raise AnalysisError(f"traverse: only {n_mut} state mutations recognised")
  # (2) in the switch: each undo kind applies the inverse to its own field
  sw = [n for n in cxx.walk(rm.body) if n.get("kind") == "SwitchStmt"]
  if len(sw) != 1:
    raise AnalysisError("remove_finished_goals: action switch not found")
  cases = {}
  cur = None
  body = inner(sw[0])[-1]
  for st in inner(body):
    node = st
    while node.get("kind") in ("CaseStmt", "DefaultStmt"):
      lab = inner(node)[0]
      nm = None
      for x in cxx.walk(lab):
        if x.get("kind") == "DeclRefExpr":
          nm = (x.get("referencedDecl") or {}).get("name")
      cur = nm if node.get("kind") == "CaseStmt" else "default"
      cases.setdefault(cur, [])
      node = inner(node)[-1]
    if cur is not None:
      cases[cur].append(node)
  for k in undo_kinds:
    if k not in cases:
      ctx.bad(f"switch:{k}", SC, _line(sw[0]), f"action {k} is never handled")
      continue
    f = k.split("_", 1)[1].lower()
    want_kind = "sub" if k.startswith("ERASE_") else "add"
    evs = [e for st in cases[k] for e in _state_mutations(ix, st) if e[0] in ("add", "sub")]
    ok = len(evs) == 1 and evs[0][0] == want_kind and evs[0][1] == f
    ctx.check(ok, f"switch:{k}", SC, _line(cases[k][0]) if cases[k] else _line(sw[0]),
              f"case {k} must {'remove from' if want_kind == 'sub' else 'insert into'} "
              f"state.{f} exactly once; it does {[(e[0], e[1]) for e in evs]}",
              {"effects": [(e[0], e[1]) for e in evs]})
  # (3) the source-set arm: continuation first, then per-goal insert+undo, TRAVERSE last
  arm = cases.get("TRAVERSE_ALL_SOURCE_SETS")
  if not arm:
    raise AnalysisError("TRAVERSE_ALL_SOURCE_SETS arm not found")
  ev = [e for st in arm for e in _state_mutations(ix, st)]
  kinds = [(e[0], e[1]) for e in ev]
  cont = [i for i, e in enumerate(ev) if e[0] == "push" and e[1] == "action"]
  adds = [i for i, e in enumerate(ev) if e[0] == "add"]
  undo = [i for i, e in enumerate(ev) if e[0] == "push" and e[1].startswith(("ERASE_", "INSERT_"))]
  trav = [i for i, e in enumerate(ev) if e[0] == "push" and e[1] == "TRAVERSE"]
  ok = len(cont) == 1 and len(trav) == 1 and adds and undo and \
      cont[0] < min(adds) and max(undo) < trav[0] and trav[0] == len(ev) - 1
  ctx.check(ok, "source-set-arm:push-order", SC, _line(arm[0]),
            "LIFO discipline: the continuation for the remaining source sets "
            "must be pushed before this alternative's goals and their undo "
            f"actions, and TRAVERSE last; observed order {kinds}", {"order": kinds})
  pair_ok = all(ev[i + 1][0] == "push" and ev[i + 1][1] == "ERASE_" + ev[i][1].upper()
                for i in adds if i + 1 < len(ev))
  ctx.check(pair_ok, "source-set-arm:insert-undo", SC, _line(arm[0]),
            "each goal inserted for this alternative must push its ERASE undo",
            {"order": kinds})
  # (4) the undo of a *set* insertion is pushed iff the element was really added
  def check_inserts(fn_, blk, depth=0):
    for n in cxx.walk(blk):
      if n.get("kind") == "CallExpr" and depth < 2:
        h = _state_helper(ix, n)
        if h is not None and h is not tr:
          check_inserts(h, h.body, depth + 1)
        continue
      if n.get("kind") != "CXXMemberCallExpr":
        continue
      key, f_, nm, obj = ix.callee(n)
      t = term(ix, obj) if obj is not None else None
      if not (nm == "insert" and isinstance(t, tuple) and t[0] == "field"
              and "TraverseState::" in t[1]):
        continue
      fld = t[1].split("::")[-1]
      ftype = ix.field_type.get(t[1].replace("internal::", "") , "") or \
          ix.field_type.get(t[1], "")
      if "vector" in ftype:
        continue
      verdict = _insert_undo_conditional(ix, fn_, blk, n, fld)
      ctx.check(verdict is not None, f"{fn_.name}:{fld}:undo-iff-added", SC, _line(n),
                f"state.{fld} is a set: insert() is a no-op when the goal is "
                "already present, but its ERASE undo is pushed regardless - "
                "backtracking then erases a goal that belongs to an outer level "
                "(the next source-set alternative runs without it)",
                {"discharged_by": verdict})
  check_inserts(tr, tr.body)
  for blk in arm:
    check_inserts(rm, blk)
  # every action kind is produced somewhere (an undo kind nobody pushes is a lost undo)
  produced = {e[1] for e in _state_mutations(ix, tr.body) + _state_mutations(ix, rm.body)
              if e[0] == "push"}
  for k in undo_kinds:
    ctx.check(k in produced, f"produced:{k}", SC, tr.line,
              f"undo action {k} is handled by the switch but never pushed",
              {"produced": sorted(produced)})


def _tg(n):
  return f"pytype/typegraph/{n}"


VARIANTS = [
    {"name": "conflict-guard-removed", "rule": "R7.1", "file": _tg("solver.cc"), "expect": "fire",
     "old": "    if (GoalsConflict(result.removed_goals)) {\n      LOG(INFO) << indent << \"conflicting removed goals!\";\n      continue;  // We bulk-removed goals that are internally conflicting.\n    }\n",
     "new": ""},
    {"name": "conflict-guard-after-done", "rule": "R7.1", "file": _tg("solver.cc"), "expect": "fire",
     "old": "    if (GoalsConflict(result.removed_goals)) {\n      LOG(INFO) << indent << \"conflicting removed goals!\";\n      continue;  // We bulk-removed goals that are internally conflicting.\n    }\n    if (result.new_goals.empty()) {\n      LOG(INFO) << indent << \"done!\";\n      return true;\n    }\n",
     "new": "    if (result.new_goals.empty()) {\n      LOG(INFO) << indent << \"done!\";\n      return true;\n    }\n    if (GoalsConflict(result.removed_goals)) {\n      LOG(INFO) << indent << \"conflicting removed goals!\";\n      continue;  // We bulk-removed goals that are internally conflicting.\n    }\n"},
    {"name": "conflict-guard-on-new-goals", "rule": "R7.1", "file": _tg("solver.cc"), "expect": "fire",
     "old": "    if (GoalsConflict(result.removed_goals)) {", "new": "    if (GoalsConflict(result.new_goals)) {"},
    {"name": "conflict-keyed-on-binding", "rule": "R7.1", "file": _tg("solver.cc"), "expect": "fire",
     "old": "variables.emplace(goal->variable(), goal);", "new": "variables.emplace(goal->variable()->bindings()[0]->variable() == goal->variable() ? nullptr : goal->variable(), goal);"},
    {"name": "conflict-never-reported", "rule": "R7.1", "file": _tg("solver.cc"), "expect": "fire",
     "old": "          << \"Internal error. Duplicate data across bindings.\";\n      return true;",
     "new": "          << \"Internal error. Duplicate data across bindings.\";\n      return false;"},
    {"name": "blocked-not-filled", "rule": "R7.2", "file": _tg("solver.cc"), "expect": "fire",
     "old": "      blocked.insert(vnodes.begin(), vnodes.end());\n", "new": ""},
    {"name": "blocked-test-dropped", "rule": "R7.2", "file": _tg("solver.cc"), "expect": "fire",
     "old": "    if (seen.count(node) || blocked.count(node))", "new": "    if (seen.count(node))"},
    {"name": "blocked-tested-before-finish", "rule": "R7.2", "file": _tg("solver.cc"), "expect": "fire",
     "old": "    if (node->id() == finish->id()) {\n      found = true;\n      break;\n    }\n    if (seen.count(node) || blocked.count(node))\n      continue;\n",
     "new": "    if (seen.count(node) || blocked.count(node))\n      continue;\n    if (node->id() == finish->id()) {\n      found = true;\n      break;\n    }\n"},
    {"name": "shortest-path-ignores-blocked", "rule": "R7.2", "file": _tg("solver.cc"), "expect": "fire",
     "old": "  auto shortest_path = FindShortestPathToNode(start, finish, blocked);",
     "new": "  auto shortest_path = FindShortestPathToNode(start, finish, CFGNodeSet());"},
    {"name": "condition-not-absorbed", "rule": "R7.3", "file": _tg("solver.cc"), "expect": "fire",
     "old": "    goals.insert(condition);\n", "new": ""},
    {"name": "removal-uses-unabsorbed-goals", "rule": "R7.3", "file": _tg("solver.cc"), "expect": "fire",
     "old": "  auto results = internal::remove_finished_goals(state.pos(), goals);",
     "new": "  auto results = internal::remove_finished_goals(state.pos(), state.goals());"},
    {"name": "memo-not-finalised", "rule": "R7.4", "file": _tg("solver.cc"), "expect": "fire",
     "old": "  solved_states_[state] = result;\n", "new": ""},
    {"name": "memo-finalised-only-when-true", "rule": "R7.4", "file": _tg("solver.cc"), "expect": "fire",
     "old": "  solved_states_[state] = result;\n", "new": "  if (result) solved_states_[state] = result;\n"},
    {"name": "twin-memo-erase-then-set", "rule": "R7.4", "file": _tg("solver.cc"), "expect": "silent",
     "old": "  bool result = FindSolution(state, seen_states, current_depth);\n  solved_states_[state] = result;",
     "new": "  const bool result = FindSolution(state, seen_states, current_depth);\n  solved_states_[state] = result;"},
    {"name": "precheck-dropped", "rule": "R7.5", "file": _tg("solver.cc"), "expect": "fire",
     "old": "  if (start_attrs.size() > 1 && !CanHaveSolution(start_attrs, start_node)) {\n    query_metrics_.back().set_shortcircuited(true);\n    return false;\n  }\n",
     "new": ""},
    {"name": "canhave-checks-first-only", "rule": "R7.5", "file": _tg("solver.cc"), "expect": "fire",
     "old": "    if (!Solve_(attr, start_node))\n      return false;\n    attr.clear();",
     "new": "    if (!Solve_(attr, start_node))\n      return false;\n    return true;"},
    {"name": "precheck-threshold-2", "rule": "R7.5", "file": _tg("solver.cc"), "expect": "fire",
     "old": "  if (start_attrs.size() > 1 && !CanHaveSolution", "new": "  if (start_attrs.size() > 2 && !CanHaveSolution"},
    {"name": "twin-log-line-added", "rule": "R7.1", "file": _tg("solver.cc"), "expect": "silent",
     "old": "    current_depth += 1;\n    if (GoalsConflict(result.removed_goals)) {",
     "new": "    current_depth += 1;\n    LOG(INFO) << indent << \"checking\";\n    if (GoalsConflict(result.removed_goals)) {"},
    {"name": "seen-goals-undo-dropped", "rule": "R7.6", "file": _tg("solver.cc"), "expect": "fire",
     "old": "  actions.emplace(ERASE_SEEN_GOALS, it);\n", "new": ""},
    {"name": "continuation-pushed-after-undo", "rule": "R7.6", "file": _tg("solver.cc"), "expect": "fire",
     "old": "        if (action.source_sets_it[0] != action.source_sets_it[1]) {\n          actions.push(action);\n        }\n        for (const Binding* next_goal : source_set) {\n          auto [it, added] = state.goals_to_remove.insert(next_goal);\n          if (added) {\n            actions.emplace(ERASE_GOALS_TO_REMOVE, next_goal);\n          }\n        }\n",
     "new": "        for (const Binding* next_goal : source_set) {\n          auto [it, added] = state.goals_to_remove.insert(next_goal);\n          if (added) {\n            actions.emplace(ERASE_GOALS_TO_REMOVE, next_goal);\n          }\n        }\n        if (action.source_sets_it[0] != action.source_sets_it[1]) {\n          actions.push(action);\n        }\n"},
    {"name": "erase-new-goals-pops-removed", "rule": "R7.6", "file": _tg("solver.cc"), "expect": "fire",
     "old": "      case ERASE_NEW_GOALS:\n        state.new_goals.pop_back();", "new": "      case ERASE_NEW_GOALS:\n        state.removed_goals.pop_back();"},
    {"name": "twin-undo-comment-only", "rule": "R7.6", "file": _tg("solver.cc"), "expect": "silent",
     "old": "  actions.emplace(ERASE_SEEN_GOALS, it);\n", "new": "  // undo on backtrack\n  actions.emplace(ERASE_SEEN_GOALS, it);\n"},
    {"name": "seeded-C07-r2m1-undo-pushed-unconditionally", "rule": "R7.6", "patch": "seeded/C07-r2m1/patch.diff", "expect": "fire"},
    {"name": "twin-undo-guarded-by-second", "rule": "R7.6", "file": _tg("solver.cc"), "expect": "silent",
     "old": "          auto [it, added] = state.goals_to_remove.insert(next_goal);\n          if (added) {",
     "new": "          auto res = state.goals_to_remove.insert(next_goal);\n          if (res.second) {"},
]
