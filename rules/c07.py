"""C07 - the solver decides visibility correctly: five guards.

Decides only structural guards without which named clauses of the property
fail (conflict detection, re-binding blocks the path, condition absorption,
memo finalisation, the individual-reachability precheck).  Does NOT decide
that the memoised search equals the reaching-definitions semantics.
"""
from sa.core import rule, AnalysisError
from sa import cxx
from sa.cxx import term, uncast, inner, strip
from rules import _cxxutil_c07c08 as U

TECHNIQUE = ("static analysis over clang's type-resolved AST of solver.cc: "
             "must-dataflow (dominance / post-dominance) and guard-shape rules")
EXPLANATION = (
    "Guard-rail rules on the clang AST of solver.cc. Anchors are found by "
    "role where a name may change: the search driver is Solver::FindSolution "
    "(else the one Solver method calling remove_finished_goals), the loop over "
    "removal results is the range-for whose element type is RemoveResult, the "
    "conflict predicate is GoalsConflict as member or file-local free function, "
    "the memo functions are the Solver methods that write solved_states_. "
    "Once-bound locals (`const CFGNode* pos = state.pos()`, `const bool "
    "conflict = ...`, `if (const auto* c = pos->condition())`) are replaced by "
    "their initialiser, and calls of file-local helpers are followed with the "
    "parameters bound to the argument terms (two levels). "
    "R7.1: walking the body of the loop over removal results, every "
    "acceptance (a `return` of anything but literal false, a call of a "
    "function from which the driver is reachable again, e.g. "
    "RecallOrFindSolution) is reachable only where the conflict test has "
    "excluded a conflict: after a guard clause `if (GoalsConflict(result."
    "removed_goals)) continue`, in the else-branch of that test, or inside "
    "`if (!GoalsConflict(..)) {..}`; the test may be hoisted into a once-bound "
    "bool or a single-return predicate; it must be applied to result."
    "removed_goals; GoalsConflict keys its map on goal->variable() and "
    "returns true exactly when the insertion failed ('no two bindings of one "
    "variable are required together'). A conflict test inside a condition of "
    "another shape, or inside a helper, is an analysis error. "
    "R7.2: the one FindNodeBackwards call reachable from the driver (in it or "
    "in a helper such as FindNewPositions(pos, new_goals)) starts at "
    "state.pos() of the driver's State parameter and receives a local set "
    "that a loop over result.new_goals (through parameter binding) fills from "
    "goal->variable()->nodes() before the call; FindNodeBackwards forwards "
    "(start, finish, blocked) unchanged, and in FindShortestPathToNode's "
    "search loop the finish test (leaving the loop by break or return) comes "
    "first, then the blocked-membership test: either a guard clause whose "
    "condition is a disjunction containing blocked.count/contains/find(node) "
    "and whose branch leaves the iteration, or a wrapping `if (.. && "
    "!blocked.count(node))` that contains every expansion of node->incoming() "
    "('no variable in the set is re-bound in between'). R7.3: "
    "remove_finished_goals is called at state.pos() with a local goal set "
    "into which, before the call, `if (state.pos()->condition())` (also as "
    "if-with-declaration or `!= nullptr`) inserts that condition. R7.4: in "
    "every Solver method that writes solved_states_ the provisional "
    "`solved_states_[state] = true` is overwritten by the result of the "
    "driver on every path to an exit, nothing else is stored, and the method "
    "(and a lookup wrapper that delegates the miss to it) returns only the "
    "cached `find(..)->second`, that result, or the memoising method's own "
    "return value ('repeated queries never flip'). R7.5: Solve_ rejects a "
    "multi-binding query unless every binding is solvable alone "
    "(CanHaveSolution loops over all goals). R7.6: undo discipline of the "
    "goal-removal state machine (see the rule). These are necessary "
    "conditions; the equivalence of the search with the path semantics is not "
    "decided (path caching, articulation points, cycle skipping are blind "
    "spots).")
ASSUMPTIONS = [
    "clang's AST is the trusted resolver",
    "only the named guards are decided; the search algorithm itself is out of "
    "reach of a static argument",
    "a local with an initialiser that is a reference, or a const / pointer / "
    "iterator / scalar local never assigned, incremented, address-taken or "
    "mutated through a member call afterwards, denotes its initialiser; the "
    "initialisers involved (state.pos(), condition(), variable()->nodes(), "
    "find()) are const getters, i.e. pure",
    "helpers are followed only when defined in solver.cc / solver.h and "
    "called on `this` or as free functions, at most two levels deep; anything "
    "deeper is reported as an analysis error, not guessed",
]

EXPLANATION += (
    " R7.7 (rules/c07_visibility.py): the entry points the property is observed "
    "at obtain their answer from the solver on every path. Producers - "
    "Binding::IsVisible, CFGNode::HasCombination and any other bool function of "
    "typegraph.{h,cc} that returns a Solver::Solve result: every `return` is the "
    "value of Solver::Solve called on Program::GetSolver() (directly, through a "
    "once-bound local, or by delegation to another producer); a literal, a "
    "reachability test or a combination of the solver's answer with anything "
    "else is a violation (the single-binding / origin-reachable shortcut of "
    "Variable::Prune must not leak into the exact queries); the query must be "
    "the function's own - IsVisible(viewpoint) asks ({this}, viewpoint), "
    "HasCombination(bindings) asks (bindings, this) - read off the leaves "
    "(this / parameters, looking only through conversions, braces and container "
    "construction) of the two arguments, mapped through delegation. Strict "
    "filter: Variable::Filter is executed symbolically (if/else with &&, ||, ! "
    "split into path alternatives, guard-clause `continue`, hoisted once-bound "
    "flags, index or range-for loop) and every push_back into the returned "
    "vector must happen on a path on which IsVisible(viewpoint) of that same "
    "element is true, or on the triaged approximation `!strict && "
    "bindings_.size() == 1`; callers taking (viewpoint, strict) themselves "
    "(FilteredData) forward both unchanged; cfg.cc's IsVisible / "
    "HasCombination call the producer of the same name. Blind spots of R7.7: "
    "Variable::Prune and CanHaveCombination are approximations by design and "
    "not examined; a result kept in a reassigned local, a Solve call on "
    "something other than GetSolver(), or a result vector not filled by "
    "push_back are analysis errors.")
ASSUMPTIONS += [
    "R7.7: a shortcut that answers an exact query without the solver is "
    "reported even if it happens to be semantically equivalent (e.g. `no "
    "origins -> false`): equivalence with the solver cannot be decided "
    "statically, and the property is stated about the solver's semantics",
]

EXPLANATION += (
    " R7.8 (rules/c07_origins.py): every origin of every new goal is tried as a "
    "next position. The finish argument of the one FindNodeBackwards call (in "
    "the driver or in a helper, parameters bound to the driver's arguments; "
    "once-bound locals and range-for variables resolved) must be origin->where "
    "for origin an element of goal->origins() for goal an element of "
    "result.new_goals - either directly (query fused into the two loops) or as "
    "an element of a set local to the handling of one removal result that "
    "receives exactly those origin->where values before the query. Every "
    "range-for on that chain (goals, origins, the set of finish nodes) and every "
    "loop around the recursive search (positions) must be total: a `break` "
    "bound to it, a `return false`, or - in a helper - any return inside it is a "
    "violation (the remaining origins / finish nodes / positions are never "
    "explored, so a combination whose first-recorded origin is a dead end is "
    "rejected although a later origin explains it); `return true` is the "
    "accepted short-circuit of the existential search. An element may be skipped "
    "in front of its contribution only by the de-duplication idiom "
    "`!S.insert(finish).second` on a set local to the same scope; any other "
    "skipping condition, an index loop, goto/throw, a computed return value, a "
    "set of finish nodes that is a member or is mutated otherwise are analysis "
    "errors. Blind spots of R7.8: what happens between the query and "
    "new_positions (the first conditional node on the path), the cycle-skipping "
    "`continue` in the positions loop, and the completeness of origins() "
    "itself.")

SC = "pytype/typegraph/solver.cc"


def _ix(ctx):
  return cxx.get_index(ctx)


def _line(n):
  return ((n.get("range") or {}).get("begin") or {}).get("line") or 0


def _stmts(n):
  if n is None:
    return []
  return inner(n) if n.get("kind") == "CompoundStmt" else [n]


def _if_parts(s):
  parts = list(inner(s))
  if s.get("hasInit"):
    parts.pop(0)
  if s.get("hasVar"):
    parts.pop(0)
  cond, then = parts[0], parts[1]
  els = parts[2] if len(parts) > 2 else None
  return cond, then, els


def _leaves_iteration(block):
  st = _stmts(block)
  if not st:
    return False
  last = st[-1]
  return last.get("kind") in ("ContinueStmt", "BreakStmt", "ReturnStmt")


def _range_for(s):
  """(loopvar decl, range term source node, body) of a CXXForRangeStmt."""
  kids = inner(s)
  body = kids[-1]
  loopvar = inner(kids[-2])[0]
  rng = inner(kids[-7])[0] if len(kids) >= 7 and kids[-7] else None
  # kids: [init?], range(DeclStmt __range), begin, end, cond, inc, loopvar, body
  rng_decl = None
  for c in kids[:-1]:
    if c.get("kind") == "DeclStmt" and inner(c) and \
        inner(c)[0].get("name", "").startswith("__range"):
      rng_decl = inner(c)[0]
  if rng_decl is None or not inner(rng_decl):
    raise AnalysisError("range-for without __range declaration")
  return loopvar, inner(rng_decl)[-1], body


def _ret_true(x):
  return x.get("kind") == "ReturnStmt" and U.return_value(x) is not None and \
      U.bool_literal(U.return_value(x)) is True


def _ret_false(x):
  return x.get("kind") == "ReturnStmt" and U.return_value(x) is not None and \
      U.bool_literal(U.return_value(x)) is False


def _calls(ix, root, needle):
  """Call nodes under `root` whose resolved callee key contains `needle`."""
  return [n for n in cxx.walk(root)
          if n.get("kind") in ("CallExpr", "CXXMemberCallExpr")
          and needle in (ix.callee(n)[0] or "")]


def _search_fn(ix):
  """The search driver Solver::FindSolution: by name, else by role (the one
  Solver method that calls internal::remove_finished_goals)."""
  cands = [f for f in ix.by_key.values()
           if f.qual == "Solver::FindSolution" and f.body is not None]
  if not cands:
    cands = [f for f in ix.by_key.values()
             if f.file == SC and f.cls == "Solver" and f.body is not None
             and _calls(ix, f.body, "remove_finished_goals")]
  if len(cands) != 1:
    raise AnalysisError("anchor: the search driver (Solver::FindSolution, the "
                        "caller of remove_finished_goals) not found")
  return cands[0]


def _state_param(fs):
  ps = [p for p in fs.params if "State" in cxx.qual_type(p) and
        "StateSet" not in cxx.qual_type(p)]
  if len(ps) != 1:
    raise AnalysisError(f"{fs.name}: State parameter not found")
  return U.var_of(ps[0])


def _is_pos_of(t, state_p):
  """t == <state>.pos() for the State parameter of the search driver."""
  t = uncast(t)
  return isinstance(t, tuple) and t[0] == "mcall" and "State::pos" in str(t[1]) \
      and uncast(t[2]) == state_p and len(t) == 3


def _results_loop(ix, fs):
  """The loop over the removal results: the range-for whose element type is
  RemoveResult (whatever the container variable is called)."""
  out = []
  for lp in cxx.walk(fs.body):
    if lp.get("kind") == "CXXForRangeStmt":
      lv, rng, body = U.range_for(lp)
      if "RemoveResult" in cxx.qual_type(lv):
        out.append((lp, lv, body))
  if len(out) != 1:
    raise AnalysisError(f"{fs.name}: loop over removal results not found")
  return out[0]


def _conflict_fns(ix):
  """GoalsConflict (member or free function): by name, else by role (a bool
  predicate over one GoalSet that looks at goal->variable() and fills a map)."""
  out = [f for f in ix.by_key.values()
         if f.name == "GoalsConflict" and f.file == SC and f.body is not None]
  if not out:
    for f in ix.by_key.values():
      if f.file != SC or f.body is None or len(f.params) != 1 or \
          not f.sig.startswith("bool") or "GoalSet" not in cxx.qual_type(f.params[0]):
        continue
      if _calls(ix, f.body, "Binding::variable") and any(
          n.get("kind") == "CXXMemberCallExpr" and
          ix.callee(n)[2] in ("emplace", "insert", "try_emplace")
          for n in cxx.walk(f.body)):
        out.append(f)
  if len(out) != 1:
    raise AnalysisError("anchor: the conflict predicate (GoalsConflict) not found")
  return out


def _pred_term(ix, e, env, skip, depth=2):
  """Term of a condition; `!`, `&&`, `||` are kept structural and a call of a
  file-local single-`return` predicate is replaced by its returned expression."""
  s = strip(e)
  if s is None:
    return None
  k = s.get("kind")
  kids = inner(s)
  if k == "UnaryOperator" and s.get("opcode") == "!":
    return ("!", _pred_term(ix, kids[0], env, skip, depth))
  if k == "BinaryOperator" and s.get("opcode") in ("&&", "||"):
    return (s.get("opcode"), _pred_term(ix, kids[0], env, skip, depth),
            _pred_term(ix, kids[1], env, skip, depth))
  if depth > 0:
    h = U.local_callee(ix, s)
    if h is not None and h.key not in skip:
      body = [x for x in U.stmts(h.body) if x.get("kind") != "DeclStmt"]
      if len(body) == 1 and body[0].get("kind") == "ReturnStmt" and \
          U.return_value(body[0]) is not None:
        henv = dict(env)
        henv.update(U.bind_params(ix, h, s, env))
        henv = U.once_bound_env(ix, h, henv)
        return _pred_term(ix, U.return_value(body[0]), henv, skip, depth - 1)
  return uncast(term(ix, s, env))


@rule("R7.1", "C07", floor=4)
def r7_1(ctx):
  """Conflicting removals are discarded before any acceptance."""
  ix = _ix(ctx)
  fs = _search_fn(ix)
  fname = fs.name
  gcs = _conflict_fns(ix)
  ckeys = {f.key for f in gcs}
  recursive = U.reaching(ix, fs.key)
  env = U.once_bound_env(ix, fs)
  lp, lv, body = _results_loop(ix, fs)
  res = U.var_of(lv)
  accepts = []     # (what, node, guarded)
  guards = []      # (if-stmt, form, call term, then, else)

  def classify(cond):
    t = _pred_term(ix, cond, env, ckeys | recursive)
    for d in U.flatten(t, "||"):
      if U.call_parts(d)[0] in ckeys:
        return "pos", d
    for c in U.flatten(t, "&&"):
      if isinstance(c, tuple) and c and c[0] == "!" and \
          U.call_parts(c[1])[0] in ckeys:
        return "neg", uncast(c[1])
    if any(k in str(t) for k in ckeys):
      raise AnalysisError(f"{fname}: the conflict test occurs in a condition "
                          f"that is not understood: {t}")
    return None, None

  def sites(e, g):
    if e is None:
      return
    for n in cxx.walk(e):
      if n.get("kind") in ("CallExpr", "CXXMemberCallExpr"):
        f = ix.callee(n)[1]
        if f is not None and f.key in recursive:
          accepts.append((f.name, n, g))

  def scan(s, g):
    """Visits statement s knowing whether the conflict test has excluded a
    conflict (g); returns g after s, or None when s never falls through."""
    if s is None or not s.get("kind"):
      return g
    k = s["kind"]
    if k == "CompoundStmt":
      for c in inner(s):
        g = scan(c, g)
        if g is None:
          return None
      return g
    if k == "ReturnStmt":
      v = U.return_value(s)
      if v is not None:
        sites(v, g)
        b = U.bool_literal(v)
        if b is not False:
          accepts.append(("return true" if b else "return <expr>", s, g))
      return None
    if k in ("ContinueStmt", "BreakStmt"):
      return None
    if k == "IfStmt":
      init, var, cond, then, els = U.if_parts(s)
      sites(init, g)
      sites(var, g)
      sites(cond, g)
      form, ct = classify(cond)
      gt, ge = g, g
      if form == "pos":
        ge = True
      elif form == "neg":
        gt = True
      if form:
        guards.append((s, form, ct, then, els))
      a = scan(then, gt)
      b = scan(els, ge) if els is not None else ge
      outs = [x for x in (a, b) if x is not None]
      return all(outs) if outs else None
    if k in ("ForStmt", "WhileStmt", "DoStmt", "CXXForRangeStmt"):
      kids = inner(s)
      bd = kids[0] if k == "DoStmt" else kids[-1]
      for c in kids:
        if c is not bd:
          sites(c, g)
      scan(bd, g)
      return g
    if k in ("SwitchStmt", "CXXTryStmt", "CXXCatchStmt", "CaseStmt", "DefaultStmt",
             "LabelStmt", "AttributedStmt"):
      for c in inner(s):
        if c.get("kind", "").endswith("Stmt") and c.get("kind") != "DeclStmt":
          scan(c, g)
        else:
          sites(c, g)
      return g
    if k == "GotoStmt":
      raise AnalysisError(f"{fname}: goto in the loop over removal results")
    sites(s, g)
    return g

  scan(body, False)
  if not guards:
    # the test may sit in a helper the loop body calls: that is not decided
    for n in cxx.walk(body):
      h = U.local_callee(ix, n)
      if h is not None and h.key not in recursive and h.key not in ckeys:
        for m, _, _ in U.walk_inlined(ix, h, depth=1, skip=recursive):
          if m.get("kind") in ("CallExpr", "CXXMemberCallExpr") and \
              (ix.callee(m)[0] or "") in ckeys:
            raise AnalysisError(f"{fname}: the conflict test is made inside "
                                f"helper {h.name}; idiom not understood")
    ctx.bad(f"{fname}:conflict-guard", SC, _line(lp),
            "no `if (GoalsConflict(result.removed_goals))` test guards the "
            "body of the loop over removal results")
    return
  s, form, ct, then, els = guards[0]
  args = U.call_parts(ct)[1]
  arg = args[0] if args else None
  ok_arg = isinstance(arg, tuple) and arg[0] == "field" and \
      arg[1].endswith("RemoveResult::removed_goals") and uncast(arg[2]) == res
  ctx.check(ok_arg, f"{fname}:conflict-guard-argument", SC, _line(s),
            f"GoalsConflict is applied to {arg}; it must test the goals "
            "removed together in this result", {"arg": str(arg), "form": form})
  conflict_branch = then if form == "pos" else els
  in_branch = {id(x) for x in cxx.walk(conflict_branch)} if conflict_branch else set()
  discards = not any(id(n) in in_branch for _, n, _ in accepts)
  if form == "pos":
    discards = discards and (U.leaves(then) or all(g for _, _, g in accepts))
  ctx.check(bool(discards), f"{fname}:conflict-guard-discards", SC, _line(s),
            "the conflicting case must abandon this removal result "
            "(continue/break/return false) without accepting it", {"form": form})
  if len(accepts) < 2:
    raise AnalysisError(f"{fname}: acceptance sites not found")
  for what, n, g in accepts:
    ctx.check(bool(g), f"{fname}:accept-after-guard:{what}", SC, _line(n),
              f"`{what}` at line {_line(n)} can be reached in an iteration "
              "in which the conflict test has not excluded a conflict",
              {"guarded": bool(g), "guard_line": _line(s)})
  # GoalsConflict itself
  gc = gcs[0]
  goals = U.var_of(gc.params[0])
  loops = [n for n in cxx.walk(gc.body) if n.get("kind") == "CXXForRangeStmt"]
  if len(loops) != 1:
    raise AnalysisError("GoalsConflict: expected one loop over the goals")
  glv, rng, gbody = _range_for(loops[0])
  if uncast(term(ix, rng)) != goals:
    raise AnalysisError("GoalsConflict: loop does not range over its parameter")
  g = U.var_of(glv)
  ins = [n for n in cxx.walk(gbody) if n.get("kind") == "CXXMemberCallExpr"
         and ix.callee(n)[2] in ("emplace", "insert", "try_emplace")]
  if len(ins) != 1:
    raise AnalysisError("GoalsConflict: map insertion not found")
  genv = U.once_bound_env(ix, gc)
  keyarg = uncast(term(ix, inner(ins[0])[1], genv))
  ok = isinstance(keyarg, tuple) and keyarg[0] == "mcall" and \
      str(keyarg[1]).startswith("Binding::variable") and uncast(keyarg[2]) == g
  ctx.check(ok, "GoalsConflict:keyed-on-variable", SC, _line(ins[0]),
            f"the conflict map is keyed on {keyarg}; it must be goal->variable()",
            {"key": str(keyarg)})
  # `if (!<insertion took place>) ... return true`; final `return false`
  flags = _added_flags(gc, ins[0])
  pair_vars = {d["id"] for d in cxx.walk(gc.body) if d.get("kind") == "VarDecl"
               and any(x is ins[0] for x in cxx.walk(d))}

  def is_added(t):
    t = uncast(t)
    if not isinstance(t, tuple):
      return False
    if t[0] == "var" and t[1] in flags:
      return True
    if t[0] == "member" and t[1] == "second":
      b = uncast(t[2])
      return (isinstance(b, tuple) and b[0] == "var" and b[2] in pair_vars) or \
          b == uncast(term(ix, ins[0]))
    return False
  found = False
  unknown = []
  for n in cxx.walk(gbody):
    if n.get("kind") == "IfStmt":
      _, _, cond, then, els = U.if_parts(n)
      c = uncast(term(ix, cond))
      rets = any(_ret_true(x) for x in cxx.walk(then))
      if isinstance(c, tuple) and c[0] == "!" and is_added(c[1]) and rets:
        found = True
      elif rets and is_added(c):
        pass    # understood: reports a conflict when the variable was NOT seen before
      elif rets:
        unknown.append(str(c))
  if not found and unknown:
    raise AnalysisError("GoalsConflict: `return true` under a condition that "
                        f"is not understood: {unknown}")
  tail = _stmts(gc.body)[-1]
  tail_false = _ret_false(tail)
  ctx.check(found and tail_false, "GoalsConflict:reports-duplicate-variable", SC,
            gc.line, "GoalsConflict must return true when a variable is "
            "already in the map (insertion failed) and false otherwise",
            {"dup_returns_true": found, "tail_false": bool(tail_false)})


def x_body(loop):
  kids = inner(loop)
  return kids[0] if loop.get("kind") == "DoStmt" else kids[-1]


def _membership(ix, t, setvar):
  """+1 if term t is true exactly when <elem> is in `setvar`, -1 if exactly
  when it is not, None if t does not test membership in `setvar`."""
  t = uncast(t)
  if not isinstance(t, tuple) or not t:
    return None
  if t[0] == "!":
    m = _membership(ix, t[1], setvar)
    return -m if m else None
  if t[0] == "mcall" and t[1] in ("count", "contains") and uncast(t[2]) == setvar:
    return 1
  if t[0] in ("!=", ">", "==") and len(t) == 3:
    a, b = uncast(t[1]), uncast(t[2])
    if isinstance(a, tuple) and a[0] == "mcall" and a[1] == "count" and \
        uncast(a[2]) == setvar and isinstance(b, tuple) and b[:2] == ("int", 0):
      return -1 if t[0] == "==" else 1
  if t[0] == "opcall" and t[1] in ("operator!=", "operator==") and len(t) == 4:
    a, b = uncast(t[2]), uncast(t[3])
    for x, y in ((a, b), (b, a)):
      if isinstance(x, tuple) and x[0] == "mcall" and x[1] == "find" and \
          uncast(x[2]) == setvar and isinstance(y, tuple) and y[0] == "mcall" \
          and y[1] == "end" and uncast(y[2]) == setvar:
        return 1 if t[1] == "operator!=" else -1
  return None


@rule("R7.2", "C07", floor=5)
def r7_2(ctx):
  """Nodes that re-bind a goal variable block the backward path."""
  ix = _ix(ctx)
  fs = _search_fn(ix)
  state_p = _state_param(fs)
  recursive = U.reaching(ix, fs.key)
  # the FindNodeBackwards call, in the driver or in a helper it calls (the
  # helper's parameters are bound to the driver's argument terms)
  sites = []
  for n, env, fn in U.walk_inlined(ix, fs, depth=2, skip=recursive):
    if n.get("kind") == "CXXMemberCallExpr" and \
        (ix.callee(n)[0] or "").startswith("internal::PathFinder::FindNodeBackwards"):
      sites.append((n, env, fn))
  if len(sites) != 1:
    raise AnalysisError(f"{fs.name}: FindNodeBackwards call not found "
                        f"({len(sites)} call sites in the driver and its helpers)")
  call, env, host = sites[0]
  args = [uncast(term(ix, a, env)) for a in inner(call)[1:]]
  if len(args) != 3 or args[2][0] != "var":
    raise AnalysisError(f"FindNodeBackwards arguments not understood: {args}")
  blocked = args[2]
  ctx.check(_is_pos_of(args[0], state_p), "FindSolution:search-starts-at-pos", SC,
            _line(call), f"backward search starts at {args[0]}, not at state.pos()",
            {"start": str(args[0]), "in": host.name})
  filled = False
  src_ok = False
  before = False
  for lp in [n for n in cxx.walk(host.body) if n.get("kind") == "CXXForRangeStmt"]:
    lv, rng, body = _range_for(lp)
    r = uncast(term(ix, rng, env))
    if not (isinstance(r, tuple) and r[0] == "field" and r[1].endswith("RemoveResult::new_goals")):
      continue
    g = U.var_of(lv)
    lenv = dict(env)
    for inl in cxx.walk(body):     # `for (n : goal->variable()->nodes()) blocked.insert(n)`
      if inl.get("kind") == "CXXForRangeStmt":
        ilv, irng, _ = _range_for(inl)
        lenv[ilv["id"]] = ("elem", term(ix, irng, env))
    for n in cxx.walk(body):
      if n.get("kind") == "CXXMemberCallExpr" and ix.callee(n)[2] == "insert":
        t = term(ix, n, lenv)
        if uncast(t[2]) == blocked:
          filled = True
          txt = str(t[3:])
          src_ok = "Variable::nodes" in txt and "Binding::variable" in txt and \
              str(g[2]) in txt
          before = U.pos(lp) < U.pos(call) and not any(x is call for x in cxx.walk(lp))
  ctx.check(filled and src_ok and before, "FindSolution:blocked-from-goal-variables", SC,
            _line(call),
            "the blocked set must receive goal->variable()->nodes() for every "
            "goal in result.new_goals before the backward search is started",
            {"filled": filled, "source_ok": src_ok, "before_search": before,
             "in": host.name})
  # FindNodeBackwards forwards `blocked`
  fb = ix.find("internal::PathFinder::FindNodeBackwards")[0]
  bp = U.var_of(fb.params[2])
  c2 = [n for n in cxx.walk(fb.body) if n.get("kind") == "CXXMemberCallExpr"
        and (ix.callee(n)[0] or "").startswith("internal::PathFinder::FindShortestPathToNode")]
  if len(c2) != 1:
    raise AnalysisError("FindNodeBackwards: FindShortestPathToNode call not found")
  fenv = U.once_bound_env(ix, fb)
  a2 = [uncast(term(ix, a, fenv)) for a in inner(c2[0])[1:]]
  sp = U.var_of(fb.params[0])
  fp = U.var_of(fb.params[1])
  ctx.check(a2 == [sp, fp, bp], "FindNodeBackwards:forwards-arguments", SC, _line(c2[0]),
            f"FindShortestPathToNode is called with {a2}; expected (start, "
            "finish, blocked) unchanged", {"args": str(a2)})
  # FindShortestPathToNode: finish test, then blocked test, then expansion
  sp_fn = ix.find("internal::PathFinder::FindShortestPathToNode")[0]
  bl = U.var_of(sp_fn.params[2])
  fin_id = str(sp_fn.params[1]["id"])
  wl = [n for n in cxx.walk(sp_fn.body) if n.get("kind") in ("WhileStmt", "ForStmt", "DoStmt")
        and any(x.get("kind") == "CXXMemberCallExpr" and
                (ix.callee(x)[0] or "").startswith("CFGNode::incoming")
                for x in cxx.walk(x_body(n)))]
  if not wl:
    raise AnalysisError("FindShortestPathToNode: search loop not found")
  body = _stmts(x_body(wl[0]))
  senv = U.once_bound_env(ix, sp_fn)
  idx_finish = idx_block = None
  wrap = None
  expands = []
  for i, s in enumerate(body):
    inside_wrap = set()
    if s.get("kind") == "IfStmt":
      _, _, cond, then, els = U.if_parts(s)
      ct = uncast(term(ix, cond, senv))
      c = str(ct)
      if "==" in c and fin_id in c and str(bl[2]) not in c and U.leaves(then) and \
          not any(x.get("kind") == "ContinueStmt" for x in cxx.walk(then)):
        idx_finish = i if idx_finish is None else idx_finish
      if str(bl[2]) in c:
        pos_m = [_membership(ix, d, bl) for d in U.flatten(ct, "||")]
        neg_m = [_membership(ix, d, bl) for d in U.flatten(ct, "&&")]
        if 1 in pos_m and U.leaves(then):
          idx_block = i if idx_block is None else idx_block
        elif -1 in neg_m and els is None:
          wrap = (i, then)
          idx_block = i if idx_block is None else idx_block
          inside_wrap = {id(x) for x in cxx.walk(then)}
        else:
          raise AnalysisError("FindShortestPathToNode: test on the blocked set "
                              f"not understood: {ct}")
    for n in cxx.walk(s):
      if n.get("kind") == "CXXMemberCallExpr" and \
          (ix.callee(n)[0] or "").startswith("CFGNode::incoming"):
        expands.append((i, id(n) in inside_wrap))
  if idx_finish is None or not expands:
    raise AnalysisError("FindShortestPathToNode: loop shape not understood")
  idx_expand = min(i for i, _ in expands)
  if idx_block is None and any(
      str(bl[2]) in str(term(ix, n)) for s in body for n in cxx.walk(s)
      if n.get("kind") in ("CXXMemberCallExpr", "CXXOperatorCallExpr", "CallExpr")):
    raise AnalysisError("FindShortestPathToNode: the blocked set is used in the "
                        "search loop in a way that is not understood")
  if wrap is not None:
    ok_block = all(inw for _, inw in expands)
  else:
    ok_block = idx_block is not None and idx_block < idx_expand
  ctx.check(ok_block,
            "FindShortestPathToNode:blocked-before-expansion", SC, sp_fn.line,
            "a blocked node must be skipped (continue) before its incoming "
            "edges are expanded", {"blocked_idx": idx_block, "expand_idx": idx_expand,
                                   "form": "wrap" if wrap else "guard-clause"})
  ctx.check(idx_block is None or idx_finish < idx_block,
            "FindShortestPathToNode:finish-before-blocked", SC, sp_fn.line,
            "the finish test must precede the blocked test: the finish node "
            "binds a goal variable and is therefore itself in the blocked set",
            {"finish_idx": idx_finish, "blocked_idx": idx_block})


@rule("R7.3", "C07", floor=2)
def r7_3(ctx):
  """A node condition becomes a goal before goals are removed at the node."""
  ix = _ix(ctx)
  fs = _search_fn(ix)
  state_p = _state_param(fs)
  env = U.once_bound_env(ix, fs)
  calls = [n for n in cxx.walk(fs.body) if n.get("kind") == "CallExpr"
           and "remove_finished_goals" in (ix.callee(n)[0] or "")]
  if len(calls) != 1:
    raise AnalysisError("FindSolution: remove_finished_goals call not found")
  a = [uncast(term(ix, x, env)) for x in inner(calls[0])[1:]]
  if len(a) == 2 and a[1][0] == "mcall" and "State::goals" in str(a[1][1]):
    ctx.bad("FindSolution:condition-absorbed", SC, _line(calls[0]),
            "remove_finished_goals receives state.goals() itself, so a node "
            "condition can never be part of the goal set", {"goals_arg": str(a[1])})
    return
  if len(a) != 2 or a[1][0] != "var":
    raise AnalysisError(f"remove_finished_goals arguments not understood: {a}")
  goals = a[1]
  ctx.check(_is_pos_of(a[0], state_p), "FindSolution:removal-at-pos", SC, _line(calls[0]),
            f"goals are removed at {a[0]}, not at state.pos()", {"pos": str(a[0])})

  def is_condition(t):
    """t == <state>.pos()->condition()"""
    t = uncast(t)
    return isinstance(t, tuple) and t[0] == "mcall" and len(t) == 3 and \
        "CFGNode::condition" in str(t[1]) and _is_pos_of(t[2], state_p)

  def tests_condition(c):
    c = uncast(c)
    if is_condition(c):
      return True
    if isinstance(c, tuple) and c[0] == "!=" and len(c) == 3:
      x, y = uncast(c[1]), uncast(c[2])
      return (is_condition(x) and y == ("nullptr",)) or (is_condition(y) and x == ("nullptr",))
    return False
  # structural: an IfStmt on state.pos()->condition() whose then-branch inserts
  # the condition into `goals`, located before the removal call in the same block
  top = _stmts(fs.body)
  idx_rm = [i for i, s in enumerate(top) if any(n is calls[0] for n in cxx.walk(s))]
  idx_if = None
  unknown = []
  for i, s in enumerate(top):
    if s.get("kind") != "IfStmt":
      continue
    _, _, cond, then, els = U.if_parts(s)
    c = uncast(term(ix, cond, env))
    ins = False
    for n in cxx.walk(then):
      if n.get("kind") == "CXXMemberCallExpr" and ix.callee(n)[2] == "insert":
        t = term(ix, n, env)
        if uncast(t[2]) == goals and len(t) == 4 and is_condition(t[3]):
          ins = True
    negated = isinstance(c, tuple) and (
        (c[0] == "!" and tests_condition(c[1])) or
        (c[0] == "==" and len(c) == 3 and ("nullptr",) in (uncast(c[1]), uncast(c[2]))
         and (is_condition(c[1]) or is_condition(c[2]))))
    if tests_condition(c) and ins:
      idx_if = i
    elif negated and els is None:
      pass    # understood: the insertion happens only when there is NO condition
    elif "CFGNode::condition" in str(c) and any(
        n.get("kind") == "CXXMemberCallExpr" and ix.callee(n)[2] in ("insert", "emplace")
        and uncast(term(ix, n, env)[2]) == goals for n in cxx.walk(s)):
      unknown.append(str(c))
  if idx_if is None and unknown:
    raise AnalysisError("FindSolution: the goal set is extended under a test of "
                        f"the node condition that is not understood: {unknown}")
  ok = bool(idx_rm) and idx_if is not None and idx_if < idx_rm[0]
  ctx.check(ok, "FindSolution:condition-absorbed", SC, fs.line,
            "when state.pos() has a condition it must be inserted into the "
            "goal set handed to remove_finished_goals, before that call",
            {"if_index": idx_if, "remove_index": idx_rm})


def _writes_memo(ix, f):
  return any(ev.kind == "write" and ev.what == "Solver::solved_states_"
             for ev in cxx.events(ix, f.body, {}))


def _is_cached_value(t):
  """<iterator from solved_states_.find(..)>->second"""
  t = uncast(t)
  if not (isinstance(t, tuple) and t[0] == "member" and t[1] == "second"):
    return False
  s = str(t[2])
  return "Solver::solved_states_" in s and "'find'" in s


@rule("R7.4", "C07", floor=2)
def r7_4(ctx):
  """The provisional memo entry is replaced by the real result on every path."""
  ix = _ix(ctx)
  fs = _search_fn(ix)
  cands = [f for f in ix.by_key.values()
           if f.file == SC and f.cls == "Solver" and f.body is not None
           and f.kind == "CXXMethodDecl"]
  writers = sorted([f for f in cands if _writes_memo(ix, f)], key=lambda f: f.key)
  if not writers:
    raise AnalysisError("no Solver method writes solved_states_: the memo "
                        "function (RecallOrFindSolution) was not found")
  wkeys = {f.key for f in writers}
  for fn in writers:
    env = U.once_bound_env(ix, fn)
    result_vars = set()
    for n in cxx.walk(fn.body):
      if n.get("kind") == "VarDecl" and inner(n) and n.get("init"):
        t = uncast(term(ix, inner(n)[-1]))
        if U.call_parts(t)[0] == fs.key:
          result_vars.add(n["id"])
    if not result_vars:
      raise AnalysisError(f"{fn.name}: {fs.name} result not bound to a local")

    def is_result(t, result_vars=result_vars):
      t = uncast(t)
      return isinstance(t, tuple) and t[0] == "var" and t[2] in result_vars

    def classify(ev):
      if ev.kind != "write" or ev.what != "Solver::solved_states_":
        return None
      t = term(ix, ev.node)
      if isinstance(t, tuple) and t[0] == "=":
        rhs = uncast(t[2])
        if rhs == ("bool", True):
          return "prov"
        if is_result(rhs):
          return "final"
        return "other"
      if (ev.extra or {}).get("how") == "operator[]":
        return None   # operator[] access itself
      return "other"  # insert / emplace / erase ...: not understood as memo write

    kinds = []

    def transfer(ev, st, classify=classify, kinds=kinds):
      c = classify(ev)
      if c:
        kinds.append(c)
      if c == "prov":
        return (st - {"final"}) | {"prov"}
      if c == "final":
        return st | {"final"}
      if c == "other":
        return st | {"other"}
      return st
    fl = cxx.CxxFlow(ix, fn, transfer)
    if "prov" not in kinds:
      ctx.ok(f"{fn.name}:no-provisional-entry", SC, fn.line,
             {"note": "no provisional entry is written"})
    else:
      bad = [(k, _line(n)) for k, n, s in fl.exits
             if s is not None and "prov" in s and "final" not in s]
      ctx.check(not bad, f"{fn.name}:memo-finalised", SC, fn.line,
                f"exits {bad} leave the provisional `true` memo entry in place",
                {"exits": [(k, sorted(s or [])) for k, n, s in fl.exits]})
    ctx.check("other" not in kinds, f"{fn.name}:memo-values", SC, fn.line,
              "solved_states_ may only receive the provisional `true` or the "
              f"result of {fs.name}", {"writes": kinds})
    # the function returns the cached value or that same result
    rets = [(uncast(term(ix, U.return_value(n))), uncast(term(ix, U.return_value(n), env)))
            for k, n, s in fl.exits if k == "return" and U.return_value(n) is not None]
    ok = all(is_result(raw) or _is_cached_value(res) or U.call_parts(raw)[0] in wkeys
             for raw, res in rets)
    ctx.check(ok, f"{fn.name}:returns-memo-or-result", SC, fn.line,
              f"returns {[r for r, _ in rets]}", {"returns": [str(r) for _, r in rets]})
  # lookup wrappers (cache hit answered here, miss delegated to a writer)
  for fn in sorted(cands, key=lambda f: f.key):
    if fn.key in wkeys or fn.key == fs.key or not fn.sig.startswith("bool"):
      continue
    delegates = [n for n in cxx.walk(fn.body) if n.get("kind") == "CXXMemberCallExpr"
                 and (ix.callee(n)[0] or "") in wkeys]
    reads = any(ev.what == "Solver::solved_states_" for ev in cxx.events(ix, fn.body, {}))
    if not (delegates and reads):
      continue
    env = U.once_bound_env(ix, fn)
    rets = [uncast(term(ix, U.return_value(n), env)) for n in cxx.walk(fn.body)
            if n.get("kind") == "ReturnStmt" and U.return_value(n) is not None]
    ok = bool(rets) and all(_is_cached_value(r) or U.call_parts(r)[0] in wkeys for r in rets)
    ctx.check(ok, f"{fn.name}:returns-memo-or-result", SC, fn.line,
              f"the memo lookup {fn.name} returns {rets}; it must return the "
              "cached value or the result of the memoising search",
              {"returns": [str(r) for r in rets]})


def _size_of(t, v):
  t = uncast(t)
  return isinstance(t, tuple) and t[0] == "mcall" and t[1] == "size" and \
      len(t) == 3 and uncast(t[2]) == v


def _more_than_one(t, v):
  """t == `v.size() > 1` (also `>= 2`, `1 < v.size()`, `2 <= v.size()`)."""
  t = uncast(t)
  if not (isinstance(t, tuple) and len(t) == 3 and t[0] in (">", ">=", "<", "<=")):
    return False
  a, b = uncast(t[1]), uncast(t[2])
  op = t[0]
  if op in ("<", "<="):
    a, b, op = b, a, {"<": ">", "<=": ">="}[op]
  return _size_of(a, v) and isinstance(b, tuple) and b[0] == "int" and \
      ((op == ">" and b[1] == 1) or (op == ">=" and b[1] == 2))


@rule("R7.5", "C07", floor=3)
def r7_5(ctx):
  """Multi-binding queries require every binding to be solvable alone."""
  ix = _ix(ctx)
  sv = ix.find("Solver::Solve_")[0]
  attrs = U.var_of(sv.params[0])
  node = U.var_of(sv.params[1])
  recursive = U.reaching(ix, _search_fn(ix).key)
  env = U.once_bound_env(ix, sv)
  top = _stmts(sv.body)
  pre_calls = _calls(ix, sv.body, "Solver::CanHaveSolution")
  # the `return false` whose path condition contains !CanHaveSolution(..)
  pre = None
  for r in cxx.walk(sv.body):
    if not _ret_false(r):
      continue
    conds = U.path_conditions(ix, sv, r, env) or []
    lits = []
    for c, pol in conds:
      lits += U.flatten(c, "&&") if pol else [("!", c)]
    neg = [l for l in lits if isinstance(l, tuple) and l[0] == "!" and
           str(U.call_parts(l[1])[0] or "").startswith("Solver::CanHaveSolution")]
    if neg:
      pre = (r, neg[0], [l for l in lits if l is not neg[0]])
  if pre is None and pre_calls:
    for n in cxx.walk(sv.body):
      if n.get("kind") == "IfStmt":
        cond, then, els = _if_parts(n)
        lits = U.flatten(uncast(term(ix, cond, env)), "&&")
        if any(isinstance(l, tuple) and l[0] == "!" and
               str(U.call_parts(l[1])[0] or "").startswith("Solver::CanHaveSolution")
               for l in lits) and not any(x.get("kind") == "ReturnStmt" for x in cxx.walk(then)):
          ctx.bad("Solve_:precheck", SC, _line(n),
                  "the negative outcome of CanHaveSolution does not end the "
                  "query: its branch contains no return")
          pre_calls = None
          break
  if pre is None and pre_calls:
    raise AnalysisError("Solve_: CanHaveSolution is called but no `return false` "
                        "is guarded by its negation; idiom not understood")
  if pre is None and pre_calls is None:
    pass
  elif pre is None:
    ctx.bad("Solve_:precheck", SC, sv.line,
            "Solve_ no longer pre-checks that each binding is solvable alone")
  else:
    r, neg, rest = pre
    i = [j for j, st in enumerate(top) if any(x is r for x in cxx.walk(st))][0]
    s = top[i]
    size_ok = len(rest) == 1 and _more_than_one(rest[0], attrs)
    args_ok = U.call_parts(neg[1])[1] == [attrs, node]
    ctx.check(bool(size_ok and args_ok), "Solve_:precheck", SC, _line(s),
              f"the precheck must be `if (attrs.size() > 1 && "
              f"!CanHaveSolution(attrs, node)) return false`; the `return false` "
              f"is guarded by {[neg] + rest}",
              {"guards": [str(neg)] + [str(x) for x in rest]})
    later = [j for j, st in enumerate(top) if j != i for n in cxx.walk(st)
             if n.get("kind") == "CXXMemberCallExpr" and
             (ix.callee(n)[0] or "") in recursive]
    ctx.check(bool(later) and min(later) > i, "Solve_:precheck-first", SC, _line(s),
              "the precheck must precede the search", {"search_at": later, "precheck_at": i})
  ch = ix.find("Solver::CanHaveSolution")[0]
  cattrs = U.var_of(ch.params[0])
  cenv = U.once_bound_env(ix, ch)
  loops = [n for n in cxx.walk(ch.body)
           if n.get("kind") in ("CXXForRangeStmt", "ForStmt", "WhileStmt", "DoStmt")]
  if len(loops) != 1:
    raise AnalysisError("CanHaveSolution: expected one loop")
  lp = loops[0]
  if lp.get("kind") == "CXXForRangeStmt":
    lv, rng, body = _range_for(lp)
    over_all = uncast(term(ix, rng, cenv)) == cattrs
    form = "range-for"
  elif lp.get("kind") == "ForStmt":
    # for (i = 0; i < attrs.size(); ++i) ... attrs[i]
    init, _, cond, inc, body = (inner(lp) + [None] * 5)[:5]
    ivs = [v for v in cxx.walk(init or {}) if v.get("kind") == "VarDecl"]
    if len(ivs) != 1 or not inner(ivs[0]) or body is None or not cond or not inc:
      raise AnalysisError("CanHaveSolution: index loop header not understood")
    iv = U.var_of(ivs[0])
    start = uncast(term(ix, inner(ivs[0])[-1]))
    if not (isinstance(start, tuple) and start[0] == "int"):
      raise AnalysisError(f"CanHaveSolution: index loop starts at {start}; not understood")
    from_zero = start[1] == 0
    c = uncast(term(ix, cond, cenv))
    to_size = isinstance(c, tuple) and len(c) == 3 and (
        (c[0] in ("<", "!=") and uncast(c[1]) == iv and _size_of(c[2], cattrs)) or
        (c[0] in (">", "!=") and uncast(c[2]) == iv and _size_of(c[1], cattrs)))
    t_inc = uncast(term(ix, inc))
    by_one = isinstance(t_inc, tuple) and t_inc[0] in ("pre++", "post++") and uncast(t_inc[1]) == iv
    stable = ivs[0]["id"] not in U.written_vars(body)
    if not (to_size and by_one and stable):
      raise AnalysisError(f"CanHaveSolution: index loop `{c}` / `{t_inc}` not understood")
    over_all = from_zero and any(uncast(term(ix, n, cenv)) == ("index", cattrs, iv) for n in cxx.walk(body)
                   if n.get("kind") in ("CXXOperatorCallExpr", "ArraySubscriptExpr"))
    form = "index-for"
  else:
    raise AnalysisError("CanHaveSolution: loop form not understood")
  if any(x.get("kind") in ("BreakStmt", "ContinueStmt", "GotoStmt") for x in cxx.walk(body)):
    raise AnalysisError("CanHaveSolution: the loop over the goals can skip or "
                        "stop early; idiom not understood")
  # inside: Solve_ on a singleton; failure returns false; tail returns true
  fails = False
  for n in cxx.walk(body):
    if n.get("kind") == "IfStmt":
      cond, then, els = _if_parts(n)
      c = uncast(term(ix, cond, cenv))
      if isinstance(c, tuple) and c[0] == "!" and \
          str(U.call_parts(c[1])[0] or "").startswith("Solver::Solve_"):
        fails = any(_ret_false(x) for x in cxx.walk(then))
  tail = _stmts(ch.body)[-1]
  tail_true = _ret_true(tail)
  early_true = any(_ret_true(x) for x in cxx.walk(body))
  ctx.check(over_all and fails and tail_true and not early_true,
            "CanHaveSolution:every-goal-alone", SC, ch.line,
            "CanHaveSolution must loop over every start binding, return false "
            "as soon as one is not solvable alone, and true otherwise",
            {"over_all": over_all, "fails": fails, "tail_true": bool(tail_true),
             "loop": form})


STATE_FIELDS = ("goals_to_remove", "seen_goals", "removed_goals", "new_goals")
ADDITIVE = {"insert", "push_back", "emplace", "emplace_back", "push"}
SUBTRACTIVE = {"erase", "pop_back", "pop"}


def _pos(n):
  b = (n.get("range") or {}).get("begin") or {}
  return (_line(n), b.get("col", 0))


def _is_action_stack(ix, obj, t):
  """The action stack: a local/parameter of type std::stack<Action> (any name)."""
  ty = cxx.qual_type(obj) if obj is not None else ""
  if "stack<" in ty and "Action" in ty:
    return True
  return isinstance(t, tuple) and t[0] == "var" and t[1] == "actions"


def _state_helper(ix, n):
  """The Fn a plain call hands the TraverseState / action stack to, else None."""
  if n.get("kind") != "CallExpr":
    return None
  key, fn, nm, obj = ix.callee(n)
  if fn is None or fn.body is None or not fn.file.endswith("solver.cc"):
    return None
  for p in fn.params:
    ty = cxx.qual_type(p)
    if "TraverseState" in ty or ("stack<" in ty and "Action" in ty):
      return fn
  return None


def _state_mutations(ix, block, _depth=0):
  """Ordered (kind, field, node) events of one statement list: mutations of
  TraverseState fields and pushes onto the action stack.  A call of a
  file-local helper that receives the state or the stack contributes the
  helper's events at the position of the call (two levels deep)."""
  keyed = []
  for n in cxx.walk(block):
    if n.get("kind") == "CallExpr":
      fn = _state_helper(ix, n) if _depth < 2 else None
      if fn is not None:
        for i, e in enumerate(_state_mutations(ix, fn.body, _depth + 1)):
          keyed.append((_pos(n) + (i,), e))
      continue
    if n.get("kind") != "CXXMemberCallExpr":
      continue
    key, fn, nm, obj = ix.callee(n)
    t = term(ix, obj) if obj is not None else None
    if isinstance(t, tuple) and t[0] == "field" and "TraverseState::" in t[1]:
      f = t[1].split("::")[-1]
      if nm in ADDITIVE:
        keyed.append((_pos(n) + (0,), ("add", f, n)))
      elif nm in SUBTRACTIVE:
        keyed.append((_pos(n) + (0,), ("sub", f, n)))
    elif nm in ("emplace", "push") and _is_action_stack(ix, obj, t):
      args = [uncast(term(ix, a)) for a in inner(n)[1:]]
      what = args[0][1] if args and args[0][0] == "var" else str(args[0]) if args else "?"
      if args and args[0][0] == "var" and "Action" in (cxx.qual_type(inner(n)[1]) or "") \
          and "ActionType" not in (cxx.qual_type(inner(n)[1]) or ""):
        what = "action"      # a whole Action pushed back: the continuation
      keyed.append((_pos(n) + (0,), ("push", what, n)))
  keyed.sort(key=lambda ke: ke[0])
  return [e for _, e in keyed]


def _added_flags(fn, call):
  """Names that hold `.second` of the pair returned by this insert() call."""
  names = set()
  for d in cxx.walk(fn.body):
    if d.get("kind") == "DecompositionDecl" and any(x is call for x in cxx.walk(d)):
      bs = [b for b in inner(d) if b.get("kind") == "BindingDecl"]
      if len(bs) == 2:
        names.add(bs[1].get("name"))
  return names


def _not_added_region(ix, fn, call):
  """ids of the nodes that only run when this insert() added nothing:
  the then-branch of `if (!added)` / the else-branch of `if (added)`."""
  flags = _added_flags(fn, call)
  region = set()
  if not flags:
    return region
  for n in cxx.walk(fn.body):
    if n.get("kind") != "IfStmt" or _pos(n) < _pos(call):
      continue
    cond, then, els = _if_parts(n)
    c = uncast(term(ix, cond))
    if isinstance(c, tuple) and c[0] == "!" and isinstance(uncast(c[1]), tuple) and \
        uncast(c[1])[0] == "var" and uncast(c[1])[1] in flags:
      region |= {id(x) for x in cxx.walk(then)}
    elif isinstance(c, tuple) and c[0] == "var" and c[1] in flags and els is not None:
      region |= {id(x) for x in cxx.walk(els)}
  return region


def _same_block(blk, a, b):
  """a and b are statements of one compound statement (b not nested deeper
  than a's siblings)."""
  for c in cxx.walk(blk):
    if c.get("kind") == "CompoundStmt":
      kids = inner(c)
      if any(k is a for k in kids) and any(any(x is b for x in cxx.walk(k)) for k in kids):
        return True
  return False


def _insert_undo_conditional(ix, fn, blk, call, fld):
  """How the ERASE undo of `state.<fld>.insert(x)` is made conditional on the
  insertion having taken place; None if it is unconditional."""
  arg = uncast(term(ix, inner(call)[1])) if len(inner(call)) > 1 else None
  # (a) the bool of the returned pair guards the push
  bool_names = set()
  for d in cxx.walk(fn.body):
    if d.get("kind") == "DecompositionDecl" and any(x is call for x in cxx.walk(d)):
      bs = [b for b in inner(d) if b.get("kind") == "BindingDecl"]
      if len(bs) == 2:
        bool_names.add(bs[1].get("name"))
    if d.get("kind") == "VarDecl" and any(x is call for x in cxx.walk(d)):
      bool_names.add(d.get("name") + ".second")
  want = "ERASE_" + fld.upper()
  pushes = []
  for n in cxx.walk(blk):
    if n.get("kind") == "CXXMemberCallExpr" and ix.callee(n)[2] in ("emplace", "push"):
      a = [uncast(term(ix, x)) for x in inner(n)[1:]]
      if a and a[0][0] == "var" and a[0][1] == want and _line(n) >= _line(call):
        pushes.append(n)
  if not pushes:
    return None
  push = pushes[0]
  for n in cxx.walk(blk):
    if n.get("kind") == "IfStmt" and any(x is push for x in cxx.walk(inner(n)[1] if len(inner(n)) > 1 else n)):
      c = uncast(term(ix, _if_parts(n)[0]))
      cs = str(c)
      if isinstance(c, tuple) and c[0] == "var" and c[1] in bool_names:
        return f"guarded by `{c[1]}` (second of the insert result)"
      if any(b.endswith(".second") and b.split(".")[0] in cs and "second" in cs for b in bool_names):
        return "guarded by .second of the insert result"
  # (a') a guard clause `if (!added) { ...; return; }` stands between insert and push
  for n in cxx.walk(blk):
    if n.get("kind") == "IfStmt" and _pos(call) < _pos(n) < _pos(push) and \
        not any(x is push for x in cxx.walk(n)):
      cond, then, els = _if_parts(n)
      c = uncast(term(ix, cond))
      if isinstance(c, tuple) and c[0] == "!" and isinstance(uncast(c[1]), tuple) and \
          uncast(c[1])[0] == "var" and uncast(c[1])[1] in bool_names and \
          _leaves_iteration(then) and _same_block(blk, n, push):
        return f"push only reached past the guard clause `if (!{uncast(c[1])[1]}) return`"
  # (b) an earlier membership test on the same element returns before the insert
  for n in cxx.walk(blk):
    if n.get("kind") == "IfStmt" and _line(n) < _line(call):
      cond, then, els = _if_parts(n)
      c = uncast(term(ix, cond))
      if isinstance(c, tuple) and c[0] == "mcall" and c[1] in ("count", "contains") and \
          fld in str(c[2]) and [uncast(x) for x in c[3:]] == [arg] and _leaves_iteration(then):
        return "insertion only reached when a prior count() test found the goal absent"
  return None


@rule("R7.6", "C07", floor=11)
def r7_6(ctx):
  """Undo discipline of the goal-removal state machine.

  remove_finished_goals explores alternatives depth-first on one mutable
  TraverseState; every mutation must push its inverse on the action stack
  (ERASE_<field> after an insertion, INSERT_<field> after a removal) and the
  switch must apply that inverse to the same field - otherwise goals leak
  from one source-set alternative into the next.
  """
  ix = _ix(ctx)
  enum = None
  for tu in ("solver.cc",):
    for o in cxx.dump_tu(ctx, tu):
      for n in cxx.walk(o):
        if n.get("kind") == "EnumDecl" and n.get("name") == "ActionType":
          enum = [c.get("name") for c in inner(n) if c.get("kind") == "EnumConstantDecl"]
  if not enum:
    raise AnalysisError("enum ActionType not found")
  undo_kinds = [e for e in enum if e.startswith(("ERASE_", "INSERT_"))]
  tr = ix.find("internal::traverse")[0]
  rm = ix.find("internal::remove_finished_goals")[0]
  # (1) in traverse: each mutation is immediately followed by its inverse push
  ev = _state_mutations(ix, tr.body)
  n_mut = 0
  for i, (kind, f, node) in enumerate(ev):
    if kind not in ("add", "sub"):
      continue
    n_mut += 1
    want = ("ERASE_" if kind == "add" else "INSERT_") + f.upper()
    skip = _not_added_region(ix, tr, node) if kind == "add" else set()
    nxt = next((e for e in ev[i + 1:] if e[0] in ("push", "add", "sub")
                and id(e[2]) not in skip), None)
    ok = nxt is not None and nxt[0] == "push" and nxt[1] == want
    ctx.check(ok, f"traverse:{f}:{'insert' if kind == 'add' else 'erase'}->{want}", SC, _line(node),
              f"the {'insertion into' if kind == 'add' else 'removal from'} "
              f"state.{f} at line {_line(node)} is not followed by pushing its "
              f"inverse {want} (next event: {nxt and nxt[:2]}): the change "
              "survives backtracking into the next alternative",
              {"next": nxt and list(nxt[:2])})
  if n_mut < 4:
    raise AnalysisError(f"traverse: only {n_mut} state mutations recognised")
  # (2) in the switch: each undo kind applies the inverse to its own field
  sw = [n for n in cxx.walk(rm.body) if n.get("kind") == "SwitchStmt"]
  if len(sw) != 1:
    raise AnalysisError("remove_finished_goals: action switch not found")
  cases = {}
  cur = None
  body = inner(sw[0])[-1]
  for st in inner(body):
    node = st
    while node.get("kind") in ("CaseStmt", "DefaultStmt"):
      lab = inner(node)[0]
      nm = None
      for x in cxx.walk(lab):
        if x.get("kind") == "DeclRefExpr":
          nm = (x.get("referencedDecl") or {}).get("name")
      cur = nm if node.get("kind") == "CaseStmt" else "default"
      cases.setdefault(cur, [])
      node = inner(node)[-1]
    if cur is not None:
      cases[cur].append(node)
  for k in undo_kinds:
    if k not in cases:
      ctx.bad(f"switch:{k}", SC, _line(sw[0]), f"action {k} is never handled")
      continue
    f = k.split("_", 1)[1].lower()
    want_kind = "sub" if k.startswith("ERASE_") else "add"
    evs = [e for st in cases[k] for e in _state_mutations(ix, st) if e[0] in ("add", "sub")]
    ok = len(evs) == 1 and evs[0][0] == want_kind and evs[0][1] == f
    ctx.check(ok, f"switch:{k}", SC, _line(cases[k][0]) if cases[k] else _line(sw[0]),
              f"case {k} must {'remove from' if want_kind == 'sub' else 'insert into'} "
              f"state.{f} exactly once; it does {[(e[0], e[1]) for e in evs]}",
              {"effects": [(e[0], e[1]) for e in evs]})
  # (3) the source-set arm: continuation first, then per-goal insert+undo, TRAVERSE last
  arm = cases.get("TRAVERSE_ALL_SOURCE_SETS")
  if not arm:
    raise AnalysisError("TRAVERSE_ALL_SOURCE_SETS arm not found")
  ev = [e for st in arm for e in _state_mutations(ix, st)]
  kinds = [(e[0], e[1]) for e in ev]
  cont = [i for i, e in enumerate(ev) if e[0] == "push" and e[1] == "action"]
  adds = [i for i, e in enumerate(ev) if e[0] == "add"]
  undo = [i for i, e in enumerate(ev) if e[0] == "push" and e[1].startswith(("ERASE_", "INSERT_"))]
  trav = [i for i, e in enumerate(ev) if e[0] == "push" and e[1] == "TRAVERSE"]
  ok = len(cont) == 1 and len(trav) == 1 and adds and undo and \
      cont[0] < min(adds) and max(undo) < trav[0] and trav[0] == len(ev) - 1
  ctx.check(ok, "source-set-arm:push-order", SC, _line(arm[0]),
            "LIFO discipline: the continuation for the remaining source sets "
            "must be pushed before this alternative's goals and their undo "
            f"actions, and TRAVERSE last; observed order {kinds}", {"order": kinds})
  pair_ok = all(ev[i + 1][0] == "push" and ev[i + 1][1] == "ERASE_" + ev[i][1].upper()
                for i in adds if i + 1 < len(ev))
  ctx.check(pair_ok, "source-set-arm:insert-undo", SC, _line(arm[0]),
            "each goal inserted for this alternative must push its ERASE undo",
            {"order": kinds})
  # (4) the undo of a *set* insertion is pushed iff the element was really added
  def check_inserts(fn_, blk, depth=0):
    for n in cxx.walk(blk):
      if n.get("kind") == "CallExpr" and depth < 2:
        h = _state_helper(ix, n)
        if h is not None and h is not tr:
          check_inserts(h, h.body, depth + 1)
        continue
      if n.get("kind") != "CXXMemberCallExpr":
        continue
      key, f_, nm, obj = ix.callee(n)
      t = term(ix, obj) if obj is not None else None
      if not (nm == "insert" and isinstance(t, tuple) and t[0] == "field"
              and "TraverseState::" in t[1]):
        continue
      fld = t[1].split("::")[-1]
      ftype = ix.field_type.get(t[1].replace("internal::", "") , "") or \
          ix.field_type.get(t[1], "")
      if "vector" in ftype:
        continue
      verdict = _insert_undo_conditional(ix, fn_, blk, n, fld)
      ctx.check(verdict is not None, f"{fn_.name}:{fld}:undo-iff-added", SC, _line(n),
                f"state.{fld} is a set: insert() is a no-op when the goal is "
                "already present, but its ERASE undo is pushed regardless - "
                "backtracking then erases a goal that belongs to an outer level "
                "(the next source-set alternative runs without it)",
                {"discharged_by": verdict})
  check_inserts(tr, tr.body)
  for blk in arm:
    check_inserts(rm, blk)
  # every action kind is produced somewhere (an undo kind nobody pushes is a lost undo)
  produced = {e[1] for e in _state_mutations(ix, tr.body) + _state_mutations(ix, rm.body)
              if e[0] == "push"}
  for k in undo_kinds:
    ctx.check(k in produced, f"produced:{k}", SC, tr.line,
              f"undo action {k} is handled by the switch but never pushed",
              {"produced": sorted(produced)})


def _tg(n):
  return f"pytype/typegraph/{n}"



# -- texts used by the refactored-shape variants ---------------------------------
_GUARD = ("    if (GoalsConflict(result.removed_goals)) {\n"
          "      LOG(INFO) << indent << \"conflicting removed goals!\";\n"
          "      continue;  // We bulk-removed goals that are internally conflicting.\n"
          "    }\n")
_DONE = ("    if (result.new_goals.empty()) {\n"
         "      LOG(INFO) << indent << \"done!\";\n"
         "      return true;\n"
         "    }\n")
_LOOP_TAIL = "    current_depth -= 1;\n  }\n\n  return false;\n}"
_BFS_TESTS = ("    if (node->id() == finish->id()) {\n      found = true;\n      break;\n    }\n"
              "    if (seen.count(node) || blocked.count(node))\n      continue;\n"
              "    seen.insert(node);\n")
_BFS_EXPAND = ("    if (seen.count(node) || blocked.count(node))\n      continue;\n"
               "    seen.insert(node);\n"
               "    for (auto n : node->incoming()) {\n      previous.emplace(n, node);\n    }\n"
               "    queue.insert(queue.end(), node->incoming().begin(), node->incoming().end());\n")
_POSITIONS_BLOCK_HEAD = ("    CFGNodeSet blocked;\n"
                         "    for (const auto* goal : result.new_goals) {\n"
                         "      const auto vnodes = goal->variable()->nodes();\n"
                         "      blocked.insert(vnodes.begin(), vnodes.end());\n"
                         "    }\n"
                         "    CFGNodeSet new_positions;\n")
_POSITIONS_BLOCK_TAIL = ("    for (const CFGNode* finish_node : unique_finish_nodes) {\n"
                         "      internal::QueryResult origin_path =\n"
                         "          path_finder_.FindNodeBackwards(state.pos(), finish_node, blocked);\n"
                         "      if (origin_path.path_exists) {\n"
                         "        const CFGNode* where = finish_node;\n"
                         "        // Check if we found conditions on the way.\n"
                         "        for (const CFGNode* node : *origin_path.path) {\n"
                         "          if (node != state.pos()) {\n"
                         "            where = node;\n"
                         "            break;\n"
                         "          }\n"
                         "        }\n"
                         "        new_positions.insert(where);\n"
                         "      }\n"
                         "    }\n")
_H_RECALL = ("  bool RecallOrFindSolution(const internal::State& state,\n"
             "                            internal::StateSet& seen_state, int current_depth);\n")


def _helper_blocked(fill, callarg="result.new_goals"):
  """FindSolution's blocked-set computation moved into Solver::BlockedFor()."""
  return [
      (_tg("solver.h"), _H_RECALL,
       _H_RECALL + "  CFGNodeSet BlockedFor(const internal::GoalSet& new_goals);\n"),
      (_tg("solver.cc"), "bool Solver::FindSolution(const internal::State& state,",
       "CFGNodeSet Solver::BlockedFor(const internal::GoalSet& new_goals) {\n"
       "  CFGNodeSet blocked;\n" + fill + "  return blocked;\n}\n\n"
       "bool Solver::FindSolution(const internal::State& state,"),
      (_tg("solver.cc"), _POSITIONS_BLOCK_HEAD,
       f"    const CFGNodeSet blocked = BlockedFor({callarg});\n    CFGNodeSet new_positions;\n"),
  ]


def _helper_positions(fill, callargs="state.pos(), result.new_goals", start="pos"):
  """FindSolution's blocked set + backward search moved into FindNewPositions()."""
  return [
      (_tg("solver.h"), _H_RECALL,
       _H_RECALL + "  CFGNodeSet FindNewPositions(const CFGNode* pos,\n"
       "                              const internal::GoalSet& new_goals);\n"),
      (_tg("solver.cc"), "bool Solver::FindSolution(const internal::State& state,",
       "CFGNodeSet Solver::FindNewPositions(const CFGNode* pos,\n"
       "                                    const internal::GoalSet& new_goals) {\n"
       "  CFGNodeSet blocked;\n" + fill +
       "  CFGNodeSet new_positions;\n"
       "  for (const Binding* goal : new_goals) {\n"
       "    for (const auto& origin : goal->origins()) {\n"
       "      internal::QueryResult origin_path =\n"
       f"          path_finder_.FindNodeBackwards({start}, origin->where, blocked);\n"
       "      if (!origin_path.path_exists) {\n        continue;\n      }\n"
       "      const CFGNode* where = origin->where;\n"
       "      for (const CFGNode* node : *origin_path.path) {\n"
       "        if (node != pos) {\n          where = node;\n          break;\n        }\n      }\n"
       "      new_positions.insert(where);\n"
       "    }\n  }\n  return new_positions;\n}\n\n"
       "bool Solver::FindSolution(const internal::State& state,"),
      (_tg("solver.cc"), _POSITIONS_BLOCK_HEAD, "    CFGNodeSet blocked_unused;\n"),
      (_tg("solver.cc"), _POSITIONS_BLOCK_TAIL,
       f"    const CFGNodeSet new_positions = FindNewPositions({callargs});\n"),
  ]


_FILL = ("  for (const auto* goal : new_goals) {\n"
         "    const auto vnodes = goal->variable()->nodes();\n"
         "    blocked.insert(vnodes.begin(), vnodes.end());\n"
         "  }\n")
_FILL_NESTED = ("  for (const auto* goal : new_goals) {\n"
                "    for (const CFGNode* n : goal->variable()->nodes()) {\n"
                "      blocked.insert(n);\n"
                "    }\n"
                "  }\n")


def _split_memo(final="  solved_states_[state] = result;\n"):
  """RecallOrFindSolution split into lookup + FindAndMemoizeSolution()."""
  return [
      (_tg("solver.h"), _H_RECALL,
       _H_RECALL + "  bool FindAndMemoizeSolution(const internal::State& state,\n"
       "                              internal::StateSet& seen_state, int current_depth);\n"),
      (_tg("solver.cc"), "  } else {\n    state_cache_misses_ += 1;\n  }\n",
       "  }\n  state_cache_misses_ += 1;\n"
       "  return FindAndMemoizeSolution(state, seen_states, current_depth);\n}\n\n"
       "bool Solver::FindAndMemoizeSolution(\n"
       "    const internal::State& state, internal::StateSet& seen_states,\n"
       "    int current_depth) {\n"),
      (_tg("solver.cc"), "  solved_states_[state] = result;\n", final),
  ]



_PRECHECK = ("  if (start_attrs.size() > 1 && !CanHaveSolution(start_attrs, start_node)) {\n"
             "    query_metrics_.back().set_shortcircuited(true);\n"
             "    return false;\n"
             "  }\n")
_CANHAVE_LOOP = ("  std::vector<const Binding*> attr;\n"
                 "  attr.reserve(1);\n"
                 "  for (const Binding* goal : start_attrs) {\n"
                 "    attr.push_back(goal);\n"
                 "    if (!Solve_(attr, start_node))\n"
                 "      return false;\n"
                 "    attr.clear();\n"
                 "  }\n")


def _nested_precheck(size="start_attrs.size() > 1", test="!all_possible", ret="      return false;\n"):
  return (f"  const bool multiple_goals = {size};\n"
          "  if (multiple_goals) {\n"
          "    const bool all_possible = CanHaveSolution(start_attrs, start_node);\n"
          f"    if ({test}) {{\n"
          "      query_metrics_.back().set_shortcircuited(true);\n"
          + ret + "    }\n  }\n")


def _index_canhave(start="0", stop="i < start_attrs.size()"):
  return (f"  for (std::size_t i = {start}; {stop}; ++i) {{\n"
          "    const std::vector<const Binding*> single_goal(1, start_attrs[i]);\n"
          "    if (!Solve_(single_goal, start_node)) {\n"
          "      return false;\n"
          "    }\n"
          "  }\n")


VARIANTS = [
    {"name": "conflict-guard-removed", "rule": "R7.1", "file": _tg("solver.cc"), "expect": "fire",
     "old": "    if (GoalsConflict(result.removed_goals)) {\n      LOG(INFO) << indent << \"conflicting removed goals!\";\n      continue;  // We bulk-removed goals that are internally conflicting.\n    }\n",
     "new": ""},
    {"name": "conflict-guard-after-done", "rule": "R7.1", "file": _tg("solver.cc"), "expect": "fire",
     "old": "    if (GoalsConflict(result.removed_goals)) {\n      LOG(INFO) << indent << \"conflicting removed goals!\";\n      continue;  // We bulk-removed goals that are internally conflicting.\n    }\n    if (result.new_goals.empty()) {\n      LOG(INFO) << indent << \"done!\";\n      return true;\n    }\n",
     "new": "    if (result.new_goals.empty()) {\n      LOG(INFO) << indent << \"done!\";\n      return true;\n    }\n    if (GoalsConflict(result.removed_goals)) {\n      LOG(INFO) << indent << \"conflicting removed goals!\";\n      continue;  // We bulk-removed goals that are internally conflicting.\n    }\n"},
    {"name": "conflict-guard-on-new-goals", "rule": "R7.1", "file": _tg("solver.cc"), "expect": "fire",
     "old": "    if (GoalsConflict(result.removed_goals)) {", "new": "    if (GoalsConflict(result.new_goals)) {"},
    {"name": "conflict-keyed-on-binding", "rule": "R7.1", "file": _tg("solver.cc"), "expect": "fire",
     "old": "variables.emplace(goal->variable(), goal);", "new": "variables.emplace(goal->variable()->bindings()[0]->variable() == goal->variable() ? nullptr : goal->variable(), goal);"},
    {"name": "conflict-never-reported", "rule": "R7.1", "file": _tg("solver.cc"), "expect": "fire",
     "old": "          << \"Internal error. Duplicate data across bindings.\";\n      return true;",
     "new": "          << \"Internal error. Duplicate data across bindings.\";\n      return false;"},
    {"name": "blocked-not-filled", "rule": "R7.2", "file": _tg("solver.cc"), "expect": "fire",
     "old": "      blocked.insert(vnodes.begin(), vnodes.end());\n", "new": ""},
    {"name": "blocked-test-dropped", "rule": "R7.2", "file": _tg("solver.cc"), "expect": "fire",
     "old": "    if (seen.count(node) || blocked.count(node))", "new": "    if (seen.count(node))"},
    {"name": "blocked-tested-before-finish", "rule": "R7.2", "file": _tg("solver.cc"), "expect": "fire",
     "old": "    if (node->id() == finish->id()) {\n      found = true;\n      break;\n    }\n    if (seen.count(node) || blocked.count(node))\n      continue;\n",
     "new": "    if (seen.count(node) || blocked.count(node))\n      continue;\n    if (node->id() == finish->id()) {\n      found = true;\n      break;\n    }\n"},
    {"name": "shortest-path-ignores-blocked", "rule": "R7.2", "file": _tg("solver.cc"), "expect": "fire",
     "old": "  auto shortest_path = FindShortestPathToNode(start, finish, blocked);",
     "new": "  auto shortest_path = FindShortestPathToNode(start, finish, CFGNodeSet());"},
    {"name": "condition-not-absorbed", "rule": "R7.3", "file": _tg("solver.cc"), "expect": "fire",
     "old": "    goals.insert(condition);\n", "new": ""},
    {"name": "removal-uses-unabsorbed-goals", "rule": "R7.3", "file": _tg("solver.cc"), "expect": "fire",
     "old": "  auto results = internal::remove_finished_goals(state.pos(), goals);",
     "new": "  auto results = internal::remove_finished_goals(state.pos(), state.goals());"},
    {"name": "memo-not-finalised", "rule": "R7.4", "file": _tg("solver.cc"), "expect": "fire",
     "old": "  solved_states_[state] = result;\n", "new": ""},
    {"name": "memo-finalised-only-when-true", "rule": "R7.4", "file": _tg("solver.cc"), "expect": "fire",
     "old": "  solved_states_[state] = result;\n", "new": "  if (result) solved_states_[state] = result;\n"},
    {"name": "twin-memo-erase-then-set", "rule": "R7.4", "file": _tg("solver.cc"), "expect": "silent",
     "old": "  bool result = FindSolution(state, seen_states, current_depth);\n  solved_states_[state] = result;",
     "new": "  const bool result = FindSolution(state, seen_states, current_depth);\n  solved_states_[state] = result;"},
    {"name": "precheck-dropped", "rule": "R7.5", "file": _tg("solver.cc"), "expect": "fire",
     "old": "  if (start_attrs.size() > 1 && !CanHaveSolution(start_attrs, start_node)) {\n    query_metrics_.back().set_shortcircuited(true);\n    return false;\n  }\n",
     "new": ""},
    {"name": "canhave-checks-first-only", "rule": "R7.5", "file": _tg("solver.cc"), "expect": "fire",
     "old": "    if (!Solve_(attr, start_node))\n      return false;\n    attr.clear();",
     "new": "    if (!Solve_(attr, start_node))\n      return false;\n    return true;"},
    {"name": "precheck-threshold-2", "rule": "R7.5", "file": _tg("solver.cc"), "expect": "fire",
     "old": "  if (start_attrs.size() > 1 && !CanHaveSolution", "new": "  if (start_attrs.size() > 2 && !CanHaveSolution"},
    {"name": "twin-log-line-added", "rule": "R7.1", "file": _tg("solver.cc"), "expect": "silent",
     "old": "    current_depth += 1;\n    if (GoalsConflict(result.removed_goals)) {",
     "new": "    current_depth += 1;\n    LOG(INFO) << indent << \"checking\";\n    if (GoalsConflict(result.removed_goals)) {"},
    {"name": "seen-goals-undo-dropped", "rule": "R7.6", "file": _tg("solver.cc"), "expect": "fire",
     "old": "  actions.emplace(ERASE_SEEN_GOALS, it);\n", "new": ""},
    {"name": "continuation-pushed-after-undo", "rule": "R7.6", "file": _tg("solver.cc"), "expect": "fire",
     "old": "        if (action.source_sets_it[0] != action.source_sets_it[1]) {\n          actions.push(action);\n        }\n        for (const Binding* next_goal : source_set) {\n          auto [it, added] = state.goals_to_remove.insert(next_goal);\n          if (added) {\n            actions.emplace(ERASE_GOALS_TO_REMOVE, next_goal);\n          }\n        }\n",
     "new": "        for (const Binding* next_goal : source_set) {\n          auto [it, added] = state.goals_to_remove.insert(next_goal);\n          if (added) {\n            actions.emplace(ERASE_GOALS_TO_REMOVE, next_goal);\n          }\n        }\n        if (action.source_sets_it[0] != action.source_sets_it[1]) {\n          actions.push(action);\n        }\n"},
    {"name": "erase-new-goals-pops-removed", "rule": "R7.6", "file": _tg("solver.cc"), "expect": "fire",
     "old": "      case ERASE_NEW_GOALS:\n        state.new_goals.pop_back();", "new": "      case ERASE_NEW_GOALS:\n        state.removed_goals.pop_back();"},
    {"name": "twin-undo-comment-only", "rule": "R7.6", "file": _tg("solver.cc"), "expect": "silent",
     "old": "  actions.emplace(ERASE_SEEN_GOALS, it);\n", "new": "  // undo on backtrack\n  actions.emplace(ERASE_SEEN_GOALS, it);\n"},
    {"name": "seeded-C07-r2m1-undo-pushed-unconditionally", "rule": "R7.6", "patch": "seeded/C07-r2m1/patch.diff", "expect": "fire"},
    {"name": "twin-undo-guarded-by-second", "rule": "R7.6", "file": _tg("solver.cc"), "expect": "silent",
     "old": "          auto [it, added] = state.goals_to_remove.insert(next_goal);\n          if (added) {",
     "new": "          auto res = state.goals_to_remove.insert(next_goal);\n          if (res.second) {"},
    # -- refactored shapes: must-silent twins and the same defects in the new shape
    {"name": "twin-benign-C07-r3-driver-decomposed", "rule": "R7.1",
     "patch": "benign/C07-r3/patch.diff", "expect": "silent"},
    {"name": "twin-benign-C07-r2-search-restructured", "rule": "R7.2",
     "patch": "benign/C07-r2/patch.diff", "expect": "silent"},
    {"name": "twin-benign-C08-r2-memo-split", "rule": "R7.4",
     "patch": "benign/C08-r2/patch.diff", "expect": "silent"},
    {"name": "twin-conflict-flag-hoisted", "rule": "R7.1", "file": _tg("solver.cc"), "expect": "silent",
     "old": "    if (GoalsConflict(result.removed_goals)) {",
     "new": "    const bool conflict = GoalsConflict(result.removed_goals);\n    if (conflict) {"},
    {"name": "conflict-flag-hoisted-on-new-goals", "rule": "R7.1", "file": _tg("solver.cc"), "expect": "fire",
     "old": "    if (GoalsConflict(result.removed_goals)) {",
     "new": "    const bool conflict = GoalsConflict(result.new_goals);\n    if (conflict) {"},
    {"name": "twin-conflict-guard-wraps-rest", "rule": "R7.1", "expect": "silent",
     "edits": [(_tg("solver.cc"), _GUARD, "    if (!GoalsConflict(result.removed_goals)) {\n"),
               (_tg("solver.cc"), _LOOP_TAIL,
                "    } else {\n      LOG(INFO) << indent << \"conflicting removed goals!\";\n"
                "      continue;\n    }\n" + _LOOP_TAIL)]},
    {"name": "twin-conflict-guard-if-else", "rule": "R7.1", "expect": "silent",
     "edits": [(_tg("solver.cc"), _GUARD + _DONE,
                _GUARD[:-len("    }\n")] + "    } else {\n" + _DONE),
               (_tg("solver.cc"), _LOOP_TAIL, "    }\n" + _LOOP_TAIL)]},
    {"name": "conflict-wrap-covers-done-only", "rule": "R7.1", "file": _tg("solver.cc"), "expect": "fire",
     "old": _GUARD + _DONE,
     "new": "    if (!GoalsConflict(result.removed_goals) && result.new_goals.empty()) {\n"
            "      LOG(INFO) << indent << \"done!\";\n      return true;\n    }\n"},
    {"name": "conflict-guard-only-logs", "rule": "R7.1", "file": _tg("solver.cc"), "expect": "fire",
     "old": "      continue;  // We bulk-removed goals that are internally conflicting.\n", "new": ""},
    {"name": "conflict-test-and-ed-with-other", "rule": "R7.1", "file": _tg("solver.cc"), "expect": "error",
     "old": "    if (GoalsConflict(result.removed_goals)) {",
     "new": "    if (GoalsConflict(result.removed_goals) && current_depth > 3) {"},
    {"name": "twin-conflict-flag-renamed", "rule": "R7.1", "expect": "silent",
     "edits": [(_tg("solver.cc"), "const auto& [it, inserted] = variables.emplace(goal->variable(), goal);",
                "const auto& [it, is_new] = variables.emplace(goal->variable(), goal);"),
               (_tg("solver.cc"), "    if (!inserted) {", "    if (!is_new) {")]},
    {"name": "conflict-reported-when-inserted", "rule": "R7.1", "file": _tg("solver.cc"), "expect": "fire",
     "old": "    if (!inserted) {", "new": "    if (inserted) {"},
    {"name": "bfs-insert-second-blocked-dropped", "rule": "R7.2", "file": _tg("solver.cc"), "expect": "fire",
     "old": "    if (seen.count(node) || blocked.count(node))\n      continue;\n    seen.insert(node);\n",
     "new": "    if (!seen.insert(node).second)\n      continue;\n"},
    {"name": "bfs-insert-second-blocked-before-finish", "rule": "R7.2", "file": _tg("solver.cc"), "expect": "fire",
     "old": _BFS_TESTS,
     "new": "    if (blocked.count(node) || !seen.insert(node).second)\n      continue;\n"
            "    if (node->id() == finish->id()) {\n      found = true;\n      break;\n    }\n"},
    {"name": "twin-bfs-blocked-test-wraps-expansion", "rule": "R7.2", "file": _tg("solver.cc"), "expect": "silent",
     "old": _BFS_EXPAND,
     "new": "    if (!seen.count(node) && !blocked.count(node)) {\n      seen.insert(node);\n"
            "      for (auto n : node->incoming()) {\n        previous.emplace(n, node);\n      }\n"
            "      queue.insert(queue.end(), node->incoming().begin(), node->incoming().end());\n    }\n"},
    {"name": "bfs-wrap-without-blocked", "rule": "R7.2", "file": _tg("solver.cc"), "expect": "fire",
     "old": _BFS_EXPAND,
     "new": "    if (!seen.count(node)) {\n      seen.insert(node);\n"
            "      for (auto n : node->incoming()) {\n        previous.emplace(n, node);\n      }\n"
            "      queue.insert(queue.end(), node->incoming().begin(), node->incoming().end());\n    }\n"},
    {"name": "bfs-wrap-expansion-also-outside", "rule": "R7.2", "file": _tg("solver.cc"), "expect": "fire",
     "old": _BFS_EXPAND,
     "new": "    if (!seen.count(node) && !blocked.count(node)) {\n      seen.insert(node);\n"
            "      for (auto n : node->incoming()) {\n        previous.emplace(n, node);\n      }\n    }\n"
            "    queue.insert(queue.end(), node->incoming().begin(), node->incoming().end());\n"},
    {"name": "bfs-blocked-test-xor", "rule": "R7.2", "file": _tg("solver.cc"), "expect": "error",
     "old": "    if (seen.count(node) || blocked.count(node))", "new": "    if (seen.count(node) != blocked.count(node))"},
    {"name": "twin-blocked-computed-in-helper", "rule": "R7.2", "expect": "silent",
     "edits": _helper_positions(_FILL)},
    {"name": "twin-blocked-filled-by-nested-loop-in-helper", "rule": "R7.2", "expect": "silent",
     "edits": _helper_positions(_FILL_NESTED)},
    {"name": "helper-blocked-not-filled", "rule": "R7.2", "expect": "fire",
     "edits": _helper_positions("")},
    {"name": "helper-blocked-from-removed-goals", "rule": "R7.2", "expect": "fire",
     "edits": _helper_positions(_FILL, callargs="state.pos(), result.removed_goals")},
    {"name": "helper-search-starts-at-origin", "rule": "R7.2", "expect": "fire",
     "edits": _helper_positions(_FILL, start="origin->where")},
    {"name": "helper-called-with-other-position", "rule": "R7.2", "expect": "fire",
     "edits": _helper_positions(_FILL, callargs="*new_positions_seed.begin(), result.new_goals")
     + [(_tg("solver.cc"), "    CFGNodeSet blocked_unused;\n",
         "    CFGNodeSet new_positions_seed;\n    new_positions_seed.insert(state.pos());\n")]},
    {"name": "blocked-filled-after-search", "rule": "R7.2", "expect": "fire",
     "edits": [(_tg("solver.cc"), _POSITIONS_BLOCK_HEAD, "    CFGNodeSet blocked;\n    CFGNodeSet new_positions;\n"),
               (_tg("solver.cc"), _POSITIONS_BLOCK_TAIL,
                _POSITIONS_BLOCK_TAIL + "    for (const auto* goal : result.new_goals) {\n"
                "      const auto vnodes = goal->variable()->nodes();\n"
                "      blocked.insert(vnodes.begin(), vnodes.end());\n    }\n")]},
    {"name": "twin-pos-hoisted", "rule": "R7.3", "file": _tg("solver.cc"), "expect": "silent",
     "old": "  auto results = internal::remove_finished_goals(state.pos(), goals);",
     "new": "  const CFGNode* pos = state.pos();\n  auto results = internal::remove_finished_goals(pos, goals);"},
    {"name": "pos-hoisted-but-conditional", "rule": "R7.3", "file": _tg("solver.cc"), "expect": "fire",
     "old": "  auto results = internal::remove_finished_goals(state.pos(), goals);",
     "new": "  const CFGNode* pos = seen_states.empty() ? state.pos() : nullptr;\n"
            "  auto results = internal::remove_finished_goals(pos, goals);"},
    {"name": "pos-local-reassigned", "rule": "R7.3", "file": _tg("solver.cc"), "expect": "fire",
     "old": "  auto results = internal::remove_finished_goals(state.pos(), goals);",
     "new": "  const CFGNode* pos = state.pos();\n  if (!seen_states.empty()) pos = nullptr;\n"
            "  auto results = internal::remove_finished_goals(pos, goals);"},
    {"name": "twin-condition-declared-in-if", "rule": "R7.3", "file": _tg("solver.cc"), "expect": "silent",
     "old": "  if (state.pos()->condition()) {\n    const auto* condition = state.pos()->condition();\n",
     "new": "  if (const auto* condition = state.pos()->condition()) {\n"},
    {"name": "condition-declared-in-if-not-absorbed", "rule": "R7.3", "file": _tg("solver.cc"), "expect": "fire",
     "old": "  if (state.pos()->condition()) {\n    const auto* condition = state.pos()->condition();\n    goals.insert(condition);\n",
     "new": "  if (const auto* condition = state.pos()->condition()) {\n"},
    {"name": "condition-absorbed-when-absent", "rule": "R7.3", "file": _tg("solver.cc"), "expect": "fire",
     "old": "  if (state.pos()->condition()) {\n", "new": "  if (!state.pos()->condition()) {\n"},
    {"name": "twin-memo-split-into-lookup-and-search", "rule": "R7.4", "expect": "silent",
     "edits": _split_memo()},
    {"name": "memo-split-not-finalised", "rule": "R7.4", "expect": "fire",
     "edits": _split_memo(final="")},
    {"name": "memo-split-finalised-only-when-false", "rule": "R7.4", "expect": "fire",
     "edits": _split_memo(final="  if (!result) solved_states_[state] = result;\n")},
    {"name": "twin-cached-value-hoisted", "rule": "R7.4", "file": _tg("solver.cc"), "expect": "silent",
     "old": "    return it->second;\n  } else {",
     "new": "    const bool known_result = it->second;\n    return known_result;\n  } else {"},
    {"name": "cached-value-negated", "rule": "R7.4", "file": _tg("solver.cc"), "expect": "fire",
     "old": "    return it->second;\n  } else {",
     "new": "    const bool known_result = it->second;\n    return !known_result;\n  } else {"},
    {"name": "memo-split-lookup-returns-constant", "rule": "R7.4", "expect": "fire",
     "edits": _split_memo() + [(_tg("solver.cc"), "    return it->second;\n  }\n  state_cache_misses_ += 1;",
                                "    return true;\n  }\n  state_cache_misses_ += 1;")]},
    {"name": "twin-benign-C01-r2-query-restructured", "rule": "R7.5",
     "patch": "benign/C01-r2/patch.diff", "expect": "silent"},
    {"name": "twin-precheck-nested-with-named-flags", "rule": "R7.5", "file": _tg("solver.cc"),
     "expect": "silent", "old": _PRECHECK, "new": _nested_precheck()},
    {"name": "precheck-nested-threshold-2", "rule": "R7.5", "file": _tg("solver.cc"),
     "expect": "fire", "old": _PRECHECK, "new": _nested_precheck(size="start_attrs.size() > 2")},
    {"name": "twin-precheck-nested-at-least-2", "rule": "R7.5", "file": _tg("solver.cc"),
     "expect": "silent", "old": _PRECHECK, "new": _nested_precheck(size="start_attrs.size() >= 2")},
    {"name": "precheck-nested-does-not-return", "rule": "R7.5", "file": _tg("solver.cc"),
     "expect": "fire", "old": _PRECHECK, "new": _nested_precheck(ret="")},
    {"name": "precheck-nested-on-positive-outcome", "rule": "R7.5", "file": _tg("solver.cc"),
     "expect": "error", "old": _PRECHECK, "new": _nested_precheck(test="all_possible")},
    {"name": "twin-canhave-index-loop", "rule": "R7.5", "file": _tg("solver.cc"),
     "expect": "silent", "old": _CANHAVE_LOOP, "new": _index_canhave()},
    {"name": "canhave-index-loop-skips-first", "rule": "R7.5", "file": _tg("solver.cc"),
     "expect": "fire", "old": _CANHAVE_LOOP, "new": _index_canhave(start="1")},
    {"name": "canhave-index-loop-stops-short", "rule": "R7.5", "file": _tg("solver.cc"),
     "expect": "error", "old": _CANHAVE_LOOP, "new": _index_canhave(stop="i + 1 < start_attrs.size()")},
    {"name": "canhave-index-loop-accepts-early", "rule": "R7.5", "file": _tg("solver.cc"),
     "expect": "fire", "old": _CANHAVE_LOOP,
     "new": _index_canhave().replace("      return false;\n    }\n", "      return false;\n    }\n    return true;\n")},
]
