"""C15 extension (R15.30): a partial conversion applied to a user-written
pattern-matching operand is protected.

Was parked as pending_c15_partial_conversion.py while it fired; the defect
(D70) is repaired in /repo 176e621 (match_keys / copy_dict_without_keys catch
ConversionError around _convert_keys), so the rule is active.

Confirmed defect (real VM, tree before 176e621, python_version 3.12):

    def f(m):
      match m:
        case {2.5: z}: return z

  -> pytype.abstract.abstract_utils.ConversionError: <float [PyTDClass(float)]>
     is not of type constant     escapes io.generate_pyi
     (vm.py byte_MATCH_KEYS -> vm_utils.match_keys -> _convert_keys ->
      abstract_utils.get_atomic_python_constant -> convert.value_to_constant).
  Failing key kinds: float (2.5, -2.5, K.F), complex (2j, 1+2j), enum members
  (Color.RED), a dotted name with two possible values.  Fine: str, bytes, int
  (-1 is folded), None, True, dotted name of a str/int constant.  The same
  helper serves COPY_DICT_WITHOUT_KEYS (`{2.5: z, **rest}`) and MATCH_CLASS.
  Cause: pytype keeps float/complex literals and enum members as abstract
  instances (no pyval); `get_atomic_python_constant` is partial (raises
  ConversionError for a non-concrete or ambiguous value) and _convert_keys maps
  it over the key tuple with no handler; nothing between there and
  generate_pyi catches ConversionError.

Obligation checked.  P = the functions of abstract_utils.py that can let
ConversionError (or a subclass) escape (direct `raise`, a module-local call of
a member of P, `..value_to_constant(..)`; an enclosing try that catches it
inside the function removes it - so match_atomic_* are total).  H = the
handlers of the pattern-matching opcode family in vm.py (byte_MATCH_*,
byte_COPY_DICT_WITHOUT_KEYS): their operands are the match subject and the
values of user-written sub-patterns.  Every *use* of a member of P (a call, or
a reference handed to map()/a comprehension as a callback) in a function
reachable from H through `vm_utils.f(..)` / module-local calls must be
protected on every call chain: inside a `try` whose handler covers
ConversionError at the use, or at a call site up the chain.  One derived
exemption: `p(<parameter>, tuple)` - a shape assertion on the opcode's own
keys/names operand, which CPython's compiler always builds as a tuple (see
ASSUMPTIONS); the *elements* of that tuple get no exemption - except for the
names operand of MATCH_CLASS: the tuple on top of the stack holds the keyword
attribute names of the class pattern, which the grammar restricts to
identifiers, so the compiler always emits a tuple of str constants and the
element conversion cannot fail.  The exemption is derived, not named: the
operand is the target of the first `state, <x> = state.pop()` of
byte_MATCH_CLASS, it is followed through plain-name arguments into the
callees' parameters, and a use is exempt on that chain only when the partial
function is applied to the elements of exactly that operand (`map(p, t)` /
`p(k) for k in t` with t the operand or a once-bound local holding
`p(<operand>, tuple)`).  Passing any other value (the subject, the class)
down the same chain gets no exemption.
"""
import ast

from sa.core import rule, AnalysisError
from sa.pyindex import get_module, walk_no_nested

VM = "pytype/vm.py"
VU = "pytype/vm_utils.py"
AU = "pytype/abstract/abstract_utils.py"
EXC = "ConversionError"

ASSUMPTIONS = [
    "MATCH_KEYS / MATCH_CLASS / COPY_DICT_WITHOUT_KEYS: the keys (names) operand on top of the "
    "stack is a tuple built by the CPython compiler (dis documentation); only its elements are "
    "user-written values.",
    "MATCH_CLASS: the elements of its names operand (kwd_attrs) are identifiers of the class "
    "pattern (`case C(x=..)`: the grammar allows only NAME there), emitted by the compiler as a "
    "tuple of str constants; converting them to Python constants cannot raise ConversionError.",
]
IDENTIFIER_OPERAND_HANDLERS = ("byte_MATCH_CLASS",)


def _last(e):
  return e.attr if isinstance(e, ast.Attribute) else (e.id if isinstance(e, ast.Name) else None)


def _covering(ctx):
  """Exception names whose handler catches ConversionError (its base-class chain)."""
  mod = get_module(ctx, AU)
  names, cur = {"Exception", "BaseException"}, EXC
  while cur in mod.classes:
    names.add(cur)
    bases = [_last(b) for b in mod.cls(cur).bases]
    cur = bases[0] if len(bases) == 1 else None
  if EXC not in names:
    raise AnalysisError(f"{AU}: class {EXC} not found")
  return names | ({cur} if cur else set())


def _protected(mod, node, stop, cover):
  cur = node
  while cur is not stop and cur in mod.parent:
    par = mod.parent[cur]
    if isinstance(par, ast.Try) and cur in par.body:
      for h in par.handlers:
        ts = [None] if h.type is None else (h.type.elts if isinstance(h.type, ast.Tuple) else [h.type])
        if any(t is None or _last(t) in cover for t in ts):
          return True
    cur = par
  return False


def _partial_functions(ctx, cover):
  mod = get_module(ctx, AU)
  part, changed = {}, True
  while changed:
    changed = False
    for name, fn in mod.functions.items():
      if name in part:
        continue
      for n in walk_no_nested(fn):
        hit = None
        if isinstance(n, ast.Raise) and n.exc is not None and \
            _last(n.exc.func if isinstance(n.exc, ast.Call) else n.exc) == EXC:
          hit = f"raise {EXC} (line {n.lineno})"
        elif isinstance(n, ast.Call) and (
            (isinstance(n.func, ast.Name) and n.func.id in part)
            or _last(n.func) == "value_to_constant"):
          hit = f"calls {_last(n.func)} (line {n.lineno})"
        if hit and not _protected(mod, n, fn, cover):
          part[name] = hit
          changed = True
          break
  if not part:
    raise AnalysisError(f"{AU}: no function raising {EXC} found")
  return part


def _shape_assertion(use, call, fn):
  """p(<parameter of fn>, tuple)."""
  if call is None or call.func is not use or len(call.args) < 1:
    return False
  typ = call.args[1] if len(call.args) > 1 else next(
      (k.value for k in call.keywords if k.arg == "constant_type"), None)
  params = {a.arg for a in fn.args.args + fn.args.kwonlyargs}
  return isinstance(call.args[0], ast.Name) and call.args[0].id in params \
      and isinstance(typ, ast.Name) and typ.id == "tuple"


@rule("R15.30", "C15", floor=5)
def r15_30(ctx):
  """Partial conversions reachable from the pattern-matching opcodes are protected."""
  cover = _covering(ctx)
  part = _partial_functions(ctx, cover)
  vm, vu = get_module(ctx, VM), get_module(ctx, VU)
  au_alias = [a for a, d in vu.imports.items() if d.endswith("abstract_utils")]
  vu_alias = [a for a, d in vm.imports.items() if d.endswith("vm_utils")]
  if not au_alias or not vu_alias:
    raise AnalysisError("abstract_utils / vm_utils are not imported under a module alias")
  meths = vm.methods("VirtualMachine")
  handlers = {n: f for n, f in meths.items()
              if n.startswith("byte_MATCH_") or n == "byte_COPY_DICT_WITHOUT_KEYS"}
  if len(handlers) < 4:
    raise AnalysisError(f"{VM}: pattern-matching opcode handlers not found ({sorted(handlers)})")

  uses = {}   # (function name, line) -> [use node, fn, [protected per chain], [chains]]

  def is_partial(e):
    return isinstance(e, ast.Attribute) and e.attr in part and _last(e.value) in au_alias

  def names_tuple(mod, fn, e, names):
    """Is e the identifier operand, or a once-bound local holding p(<operand>, tuple)?"""
    if not isinstance(e, ast.Name):
      return False
    if e.id in names:
      return True
    stores = [x for x in ast.walk(fn) if isinstance(x, ast.Name) and x.id == e.id
              and isinstance(x.ctx, ast.Store)]
    par = mod.parent.get(stores[0]) if len(stores) == 1 else None
    if isinstance(par, ast.Assign) and len(par.targets) == 1 and isinstance(par.value, ast.Call) \
        and is_partial(par.value.func) and par.value.args \
        and isinstance(par.value.args[0], ast.Name) and par.value.args[0].id in names:
      return True
    return False

  def on_identifier_elements(mod, fn, use, names):
    """Is the partial function `use` applied to the elements of the identifier operand?"""
    if not names:
      return False
    par = mod.parent.get(use)
    if isinstance(par, ast.Call) and par.func is not use and isinstance(par.func, ast.Name) \
        and par.func.id == "map" and len(par.args) == 2 and par.args[0] is use:
      return names_tuple(mod, fn, par.args[1], names)
    if isinstance(par, ast.Call) and par.func is use and len(par.args) == 1 and not par.keywords \
        and isinstance(par.args[0], ast.Name):
      comp = mod.parent.get(par)
      if isinstance(comp, (ast.GeneratorExp, ast.ListComp)) and comp.elt is par \
          and len(comp.generators) == 1 and isinstance(comp.generators[0].target, ast.Name) \
          and comp.generators[0].target.id == par.args[0].id and not comp.generators[0].ifs:
        return names_tuple(mod, fn, comp.generators[0].iter, names)
    return False

  def visit(mod, fn, prot, chain, seen, names=frozenset()):
    stored = {x.id for x in ast.walk(fn) if isinstance(x, ast.Name) and isinstance(x.ctx, ast.Store)}
    if mod is vu:
      names = frozenset(x for x in names if x not in stored)   # a re-bound parameter is unknown
    for n in walk_no_nested(fn):
      if isinstance(n, ast.Attribute) and isinstance(n.ctx, ast.Load) and n.attr in part \
          and mod is vu and _last(n.value) in au_alias:
        rec = uses.setdefault((fn.name, n.lineno, n.attr), [n, fn, [], [], []])
        ident = on_identifier_elements(mod, fn, n, names)
        rec[2].append(prot or ident or _protected(mod, n, fn, cover))
        rec[3].append(" -> ".join(chain))
        if ident:
          rec[4].append(" -> ".join(chain))
      if not isinstance(n, ast.Call):
        continue
      callee = None
      if isinstance(n.func, ast.Name) and mod is vu and n.func.id in vu.functions:
        callee = vu.functions[n.func.id]
      elif isinstance(n.func, ast.Attribute) and mod is vm and _last(n.func.value) in vu_alias \
          and n.func.attr in vu.functions:
        callee = vu.functions[n.func.attr]
      if callee is not None and callee not in seen:
        params = [a.arg for a in callee.args.posonlyargs + callee.args.args]
        passed = set()
        if not any(isinstance(a, ast.Starred) for a in n.args):
          for i, a in enumerate(n.args):
            if isinstance(a, ast.Name) and a.id in names and i < len(params):
              passed.add(params[i])
          for k in n.keywords:
            if k.arg in params and isinstance(k.value, ast.Name) and k.value.id in names:
              passed.add(k.arg)
        visit(vu, callee, prot or _protected(mod, n, fn, cover), chain + [callee.name],
              seen | {callee}, frozenset(passed))

  def tos_operand(fn):
    """The name bound by the first `state, <x> = state.pop()` of a handler."""
    for st in fn.body:
      if isinstance(st, ast.Assign) and len(st.targets) == 1 and isinstance(st.targets[0], ast.Tuple) \
          and len(st.targets[0].elts) == 2 and isinstance(st.value, ast.Call) \
          and isinstance(st.value.func, ast.Attribute) and st.value.func.attr in ("pop", "popn", "topn"):
        if st.value.func.attr == "pop" and isinstance(st.targets[0].elts[1], ast.Name):
          x = st.targets[0].elts[1].id
          again = [y for y in ast.walk(fn) if isinstance(y, ast.Name) and y.id == x
                   and isinstance(y.ctx, ast.Store)]
          return x if len(again) == 1 else None
        return None
    return None

  for name, fn in sorted(handlers.items()):
    names = frozenset()
    if name in IDENTIFIER_OPERAND_HANDLERS:
      x = tos_operand(fn)
      if x is None:
        raise AnalysisError(f"{VM}:{name}: the names operand (first `state, x = state.pop()`) "
                            "was not found; the identifier-operand exemption cannot be derived")
      names = frozenset({x})
    visit(vm, fn, False, [name], frozenset(), names)
  if not uses:
    raise AnalysisError("no use of a partial conversion function is reachable from "
                        f"{sorted(handlers)}")
  for (fname, line, attr), (use, fn, prots, chains, idents) in sorted(uses.items()):
    par = vu.parent.get(use)
    call = par if isinstance(par, ast.Call) and par.func is use else None
    kind = "call" if call is not None else "callback"
    facts = {"partial": f"{attr}: {part[attr]}", "chains": sorted(set(chains))[:4], "use": kind}
    if idents:
      facts["identifier_operand_chains"] = sorted(set(idents))
    if _shape_assertion(use, call, fn):
      ctx.ok(f"conversion:{fname}:{attr}:operand-shape", VU, line, facts | {"exempt": "tuple operand"})
      continue
    open_chains = sorted({c for c, p in zip(chains, prots) if not p})
    ctx.check(not open_chains, f"conversion:{fname}:{attr}:{kind}", VU, line,
              f"{attr} raises {EXC} for a value without a concrete Python constant (float / "
              f"complex literal, enum member, ambiguous name) and this {kind} is not inside a "
              f"try/except {EXC} on the chain(s) {open_chains[:3]}: the exception leaves the "
              "analysis", facts)


_MAP = "  return tuple(map(abstract_utils.get_atomic_python_constant, keys))\n"
_D70_KEYS = ("  try:\n    keys = _convert_keys(keys_var)\n"
             "  except abstract_utils.ConversionError:\n"
             "    # A key we have no constant for, e.g. a float literal or an enum member.\n"
             "    keys = None\n")
_D70_COPY = ("  try:\n    keys = _convert_keys(keys_var)\n"
             "  except abstract_utils.ConversionError:\n    return obj_var\n")

VARIANTS = [
    # D70 (/repo 176e621) reverted, one site at a time
    {"name": "revert-D70-match-keys-unprotected", "rule": "R15.30", "file": VU, "expect": "fire",
     "old": _D70_KEYS, "new": "  keys = _convert_keys(keys_var)\n"},
    {"name": "revert-D70-copy-dict-unprotected", "rule": "R15.30", "file": VU, "expect": "fire",
     "old": _D70_COPY, "new": "  keys = _convert_keys(keys_var)\n"},
    # wrong exception type in the handler
    {"name": "match-keys-handler-keyerror", "rule": "R15.30", "file": VU, "expect": "fire",
     "old": _D70_KEYS, "new": _D70_KEYS.replace("abstract_utils.ConversionError", "KeyError")},
    # an existing protection removed (match subject conversion in match_keys)
    {"name": "subject-conversion-handler-narrowed", "rule": "R15.30", "file": VU, "expect": "fire",
     "old": "  except abstract_utils.ConversionError:\n    # We have an abstract mapping\n",
     "new": "  except KeyError:\n    # We have an abstract mapping\n"},
    # match_class converts the elements of another operand: no identifier exemption
    {"name": "match-class-converts-class-operand-elements", "rule": "R15.30", "file": VU,
     "expect": "fire",
     "old": ("  \"\"\"Pick attributes out of a class instance for pattern matching.\"\"\"\n"
             "  keys = _convert_keys(keys_var)\n"),
     "new": ("  \"\"\"Pick attributes out of a class instance for pattern matching.\"\"\"\n"
             "  keys = _convert_keys(cls_var)\n")},
    # the names operand is re-bound before it is converted
    {"name": "match-class-rebinds-names-operand", "rule": "R15.30", "file": VU, "expect": "fire",
     "old": ("  \"\"\"Pick attributes out of a class instance for pattern matching.\"\"\"\n"
             "  keys = _convert_keys(keys_var)\n"),
     "new": ("  \"\"\"Pick attributes out of a class instance for pattern matching.\"\"\"\n"
             "  keys_var = obj_var if posarg_count else keys_var\n"
             "  keys = _convert_keys(keys_var)\n")},
    # twins
    {"name": "twin-catch-valueerror", "rule": "R15.30", "expect": "silent",
     "edits": [(VU, _D70_KEYS, _D70_KEYS.replace("abstract_utils.ConversionError", "ValueError")),
               (VU, _D70_COPY, _D70_COPY.replace("abstract_utils.ConversionError", "ValueError"))]},
    {"name": "twin-convert-keys-by-comprehension", "rule": "R15.30", "file": VU, "expect": "silent",
     "old": _MAP,
     "new": "  return tuple(abstract_utils.get_atomic_python_constant(k) for k in keys)\n"},
    {"name": "twin-match-class-protects-the-names-too", "rule": "R15.30", "file": VU,
     "expect": "silent",
     "old": ("  \"\"\"Pick attributes out of a class instance for pattern matching.\"\"\"\n"
             "  keys = _convert_keys(keys_var)\n"),
     "new": ("  \"\"\"Pick attributes out of a class instance for pattern matching.\"\"\"\n"
             "  try:\n    keys = _convert_keys(keys_var)\n"
             "  except abstract_utils.ConversionError:\n"
             "    return ClassMatch(success=None, values=None)\n")},
]
