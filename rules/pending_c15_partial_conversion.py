"""C15 pending rule (R15.30): a partial conversion applied to a user-written
pattern-matching operand is protected.

PARKED (pending_*: not loaded by check.py) - it fires on today's tree.

Confirmed defect (real VM, unmodified tree, python_version 3.12):

    def f(m):
      match m:
        case {2.5: z}: return z

  -> pytype.abstract.abstract_utils.ConversionError: <float [PyTDClass(float)]>
     is not of type constant     escapes io.generate_pyi
     (vm.py byte_MATCH_KEYS -> vm_utils.match_keys -> _convert_keys ->
      abstract_utils.get_atomic_python_constant -> convert.value_to_constant).
  Failing key kinds: float (2.5, -2.5, K.F), complex (2j, 1+2j), enum members
  (Color.RED), a dotted name with two possible values.  Fine: str, bytes, int
  (-1 is folded), None, True, dotted name of a str/int constant.  The same
  helper serves COPY_DICT_WITHOUT_KEYS (`{2.5: z, **rest}`) and MATCH_CLASS.
  Cause: pytype keeps float/complex literals and enum members as abstract
  instances (no pyval); `get_atomic_python_constant` is partial (raises
  ConversionError for a non-concrete or ambiguous value) and _convert_keys maps
  it over the key tuple with no handler; nothing between there and
  generate_pyi catches ConversionError.

Obligation checked.  P = the functions of abstract_utils.py that can let
ConversionError (or a subclass) escape (direct `raise`, a module-local call of
a member of P, `..value_to_constant(..)`; an enclosing try that catches it
inside the function removes it - so match_atomic_* are total).  H = the
handlers of the pattern-matching opcode family in vm.py (byte_MATCH_*,
byte_COPY_DICT_WITHOUT_KEYS): their operands are the match subject and the
values of user-written sub-patterns.  Every *use* of a member of P (a call, or
a reference handed to map()/a comprehension as a callback) in a function
reachable from H through `vm_utils.f(..)` / module-local calls must be
protected on every call chain: inside a `try` whose handler covers
ConversionError at the use, or at a call site up the chain.  One derived
exemption: `p(<parameter>, tuple)` - a shape assertion on the opcode's own
keys/names operand, which CPython's compiler always builds as a tuple (see
ASSUMPTIONS); the *elements* of that tuple get no exemption.
"""
import ast

from sa.core import rule, AnalysisError
from sa.pyindex import get_module, walk_no_nested

VM = "pytype/vm.py"
VU = "pytype/vm_utils.py"
AU = "pytype/abstract/abstract_utils.py"
EXC = "ConversionError"

ASSUMPTIONS = [
    "MATCH_KEYS / MATCH_CLASS / COPY_DICT_WITHOUT_KEYS: the keys (names) operand on top of the "
    "stack is a tuple built by the CPython compiler (dis documentation); only its elements are "
    "user-written values.",
]


def _last(e):
  return e.attr if isinstance(e, ast.Attribute) else (e.id if isinstance(e, ast.Name) else None)


def _covering(ctx):
  """Exception names whose handler catches ConversionError (its base-class chain)."""
  mod = get_module(ctx, AU)
  names, cur = {"Exception", "BaseException"}, EXC
  while cur in mod.classes:
    names.add(cur)
    bases = [_last(b) for b in mod.cls(cur).bases]
    cur = bases[0] if len(bases) == 1 else None
  if EXC not in names:
    raise AnalysisError(f"{AU}: class {EXC} not found")
  return names | ({cur} if cur else set())


def _protected(mod, node, stop, cover):
  cur = node
  while cur is not stop and cur in mod.parent:
    par = mod.parent[cur]
    if isinstance(par, ast.Try) and cur in par.body:
      for h in par.handlers:
        ts = [None] if h.type is None else (h.type.elts if isinstance(h.type, ast.Tuple) else [h.type])
        if any(t is None or _last(t) in cover for t in ts):
          return True
    cur = par
  return False


def _partial_functions(ctx, cover):
  mod = get_module(ctx, AU)
  part, changed = {}, True
  while changed:
    changed = False
    for name, fn in mod.functions.items():
      if name in part:
        continue
      for n in walk_no_nested(fn):
        hit = None
        if isinstance(n, ast.Raise) and n.exc is not None and \
            _last(n.exc.func if isinstance(n.exc, ast.Call) else n.exc) == EXC:
          hit = f"raise {EXC} (line {n.lineno})"
        elif isinstance(n, ast.Call) and (
            (isinstance(n.func, ast.Name) and n.func.id in part)
            or _last(n.func) == "value_to_constant"):
          hit = f"calls {_last(n.func)} (line {n.lineno})"
        if hit and not _protected(mod, n, fn, cover):
          part[name] = hit
          changed = True
          break
  if not part:
    raise AnalysisError(f"{AU}: no function raising {EXC} found")
  return part


def _shape_assertion(use, call, fn):
  """p(<parameter of fn>, tuple)."""
  if call is None or call.func is not use or len(call.args) < 1:
    return False
  typ = call.args[1] if len(call.args) > 1 else next(
      (k.value for k in call.keywords if k.arg == "constant_type"), None)
  params = {a.arg for a in fn.args.args + fn.args.kwonlyargs}
  return isinstance(call.args[0], ast.Name) and call.args[0].id in params \
      and isinstance(typ, ast.Name) and typ.id == "tuple"


@rule("R15.30", "C15", floor=1)
def r15_30(ctx):
  """Partial conversions reachable from the pattern-matching opcodes are protected."""
  cover = _covering(ctx)
  part = _partial_functions(ctx, cover)
  vm, vu = get_module(ctx, VM), get_module(ctx, VU)
  au_alias = [a for a, d in vu.imports.items() if d.endswith("abstract_utils")]
  vu_alias = [a for a, d in vm.imports.items() if d.endswith("vm_utils")]
  if not au_alias or not vu_alias:
    raise AnalysisError("abstract_utils / vm_utils are not imported under a module alias")
  meths = vm.methods("VirtualMachine")
  handlers = {n: f for n, f in meths.items()
              if n.startswith("byte_MATCH_") or n == "byte_COPY_DICT_WITHOUT_KEYS"}
  if len(handlers) < 4:
    raise AnalysisError(f"{VM}: pattern-matching opcode handlers not found ({sorted(handlers)})")

  uses = {}   # (function name, line) -> [use node, fn, [protected per chain], [chains]]

  def visit(mod, fn, prot, chain, seen):
    for n in walk_no_nested(fn):
      if isinstance(n, ast.Attribute) and isinstance(n.ctx, ast.Load) and n.attr in part \
          and mod is vu and _last(n.value) in au_alias:
        rec = uses.setdefault((fn.name, n.lineno, n.attr), [n, fn, [], []])
        rec[2].append(prot or _protected(mod, n, fn, cover))
        rec[3].append(" -> ".join(chain))
      if not isinstance(n, ast.Call):
        continue
      callee = None
      if isinstance(n.func, ast.Name) and mod is vu and n.func.id in vu.functions:
        callee = vu.functions[n.func.id]
      elif isinstance(n.func, ast.Attribute) and mod is vm and _last(n.func.value) in vu_alias \
          and n.func.attr in vu.functions:
        callee = vu.functions[n.func.attr]
      if callee is not None and callee not in seen:
        visit(vu, callee, prot or _protected(mod, n, fn, cover), chain + [callee.name],
              seen | {callee})

  for name, fn in sorted(handlers.items()):
    visit(vm, fn, False, [name], frozenset())
  if not uses:
    raise AnalysisError("no use of a partial conversion function is reachable from "
                        f"{sorted(handlers)}")
  for (fname, line, attr), (use, fn, prots, chains) in sorted(uses.items()):
    par = vu.parent.get(use)
    call = par if isinstance(par, ast.Call) and par.func is use else None
    kind = "call" if call is not None else "callback"
    facts = {"partial": f"{attr}: {part[attr]}", "chains": sorted(set(chains))[:4], "use": kind}
    if _shape_assertion(use, call, fn):
      ctx.ok(f"conversion:{fname}:{attr}:operand-shape", VU, line, facts | {"exempt": "tuple operand"})
      continue
    open_chains = sorted({c for c, p in zip(chains, prots) if not p})
    ctx.check(not open_chains, f"conversion:{fname}:{attr}:{kind}", VU, line,
              f"{attr} raises {EXC} for a value without a concrete Python constant (float / "
              f"complex literal, enum member, ambiguous name) and this {kind} is not inside a "
              f"try/except {EXC} on the chain(s) {open_chains[:3]}: the exception leaves the "
              "analysis", facts)


_MAP = "  return tuple(map(abstract_utils.get_atomic_python_constant, keys))\n"
_LOOP = ("  ret = []\n  for k in keys:\n    try:\n"
         "      ret.append(abstract_utils.get_atomic_python_constant(k))\n"
         "    except abstract_utils.ConversionError:\n"
         "      ret.append(_NON_CONSTANT_KEY)\n  return tuple(ret)\n")

VARIANTS = [
    # the repair verified on the real VM (`{2.5: z}`, `{Color.RED: z}`, `{1+2j: z}` -> z: Any)
    {"name": "repair-non-constant-key-sentinel", "rule": "R15.30", "expect": "silent",
     "edits": [(VU, _MAP, _LOOP),
               (VU, "def _convert_keys(", "_NON_CONSTANT_KEY = object()\n\n\ndef _convert_keys("),
               (VU, "  keys = _convert_keys(keys_var)\n  if _var_maybe_unknown(obj_var):\n",
                "  keys = _convert_keys(keys_var)\n"
                "  if _var_maybe_unknown(obj_var) or _NON_CONSTANT_KEY in keys:\n")]},
    # ConversionError is a ValueError: that handler protects too
    {"name": "repair-catch-valueerror", "rule": "R15.30", "file": VU, "expect": "silent",
     "old": _MAP, "new": _LOOP.replace("except abstract_utils.ConversionError", "except ValueError")},
    # loop instead of map(), still unprotected
    {"name": "comprehension-unprotected", "rule": "R15.30", "file": VU, "expect": "fire",
     "old": _MAP,
     "new": "  return tuple(abstract_utils.get_atomic_python_constant(k) for k in keys)\n"},
    # wrong exception type in the handler
    {"name": "handler-keyerror", "rule": "R15.30", "file": VU, "expect": "fire",
     "old": _MAP, "new": _LOOP.replace("except abstract_utils.ConversionError", "except KeyError")},
    # an existing protection removed (match subject conversion in match_keys)
    {"name": "subject-conversion-handler-narrowed", "rule": "R15.30", "file": VU, "expect": "fire",
     "old": "  except abstract_utils.ConversionError:\n    # We have an abstract mapping\n",
     "new": "  except KeyError:\n    # We have an abstract mapping\n"},
]
