"""C03 extension: directives must not influence inference through checkpoints.

`ErrorLog.checkpoint()` records the errors logged inside a `with` block and
then discards them; callers branch on `record.errors` to decide what a piece of
code *means* (is `a | b` a union annotation?  did a lazy member load cleanly?).
Because `ErrorLog._add` consults the director's filter before appending, an
error silenced by a directive never reaches `record.errors`: a disable comment
then changes the decision, i.e. changes other errors and the inferred stub -
the "changes nothing else" half of the property.
"""
import ast

from sa.core import rule, AnalysisError
from sa.pyindex import get_module, dotted, src, calls_in, all_py_files
from sa import flow

ERR = "pytype/errors/errors.py"


@rule("R3.20", "C03", floor=1)
def r3_20(ctx):
  """The filter must not be consulted while a checkpoint is recording."""
  mod = get_module(ctx, ERR)
  add = mod.func("ErrorLog._add")
  cp = mod.func("ErrorLog.checkpoint")
  # does _add exempt checkpoint recording from the filter?
  tests = [src(n.test) for n in ast.walk(add) if isinstance(n, ast.If)]
  uses_filter = any("self._filter" in t for t in tests)
  if not uses_filter:
    raise AnalysisError("ErrorLog._add no longer consults self._filter in an if-test")
  # state that checkpoint() sets and _add reads
  set_by_cp = {dotted(t) for n in ast.walk(cp) if isinstance(n, (ast.Assign, ast.AugAssign))
               for t in (n.targets if isinstance(n, ast.Assign) else [n.target])
               if (dotted(t) or "").startswith("self.")}
  exempt = any(a and a in t for t in tests for a in set_by_cp)
  # consumers that branch on record.errors
  files = ["pytype/vm_utils.py", "pytype/overlays/typing_overlay.py",
           "pytype/overlays/overlay.py", "pytype/abstract/abstract_utils.py"]
  if ctx.tier == "thorough":
    files = [f for f in all_py_files(ctx) if not f.endswith("_test.py") and "/tests/" not in f]
  consumers = []
  for rel in files:
    text = ctx.read(rel)
    if ".checkpoint()" not in text:
      continue
    m = get_module(ctx, rel)
    for w in ast.walk(m.tree):
      if isinstance(w, ast.With):
        for item in w.items:
          if isinstance(item.context_expr, ast.Call) and \
              (dotted(item.context_expr.func) or "").endswith(".checkpoint") and \
              isinstance(item.optional_vars, ast.Name):
            rec = item.optional_vars.id
            fn = m.enclosing_function(w)
            branches = [n for n in ast.walk(fn) if isinstance(n, (ast.If, ast.IfExp, ast.BoolOp))
                        and f"{rec}.errors" in src(n.test if not isinstance(n, ast.BoolOp) else n)]
            if branches:
              consumers.append(f"{rel}:{getattr(fn, 'name', '?')}")
  if not consumers:
    raise AnalysisError("no checkpoint consumer branching on record.errors found")
  ctx.check(exempt, "ErrorLog._add:filter-applies-inside-checkpoint", ERR, add.lineno,
            "ErrorLog._add applies the director's filter even while a "
            "checkpoint is recording, and these callers branch on "
            f"record.errors: {consumers}; a directive that silences an error "
            "logged inside the checkpoint flips their decision",
            {"consumers": consumers, "checkpoint_state": sorted(x for x in set_by_cp if x)})


VARIANTS = [
    {"name": "twin-filter-exempt-in-checkpoint", "rule": "R3.20", "expect": "silent",
     "edits": [(ERR, "    checkpoint = CheckPoint(self._errors)\n    try:\n      yield checkpoint\n    finally:\n      checkpoint.revert()",
                "    checkpoint = CheckPoint(self._errors)\n    self._recording = True\n    try:\n      yield checkpoint\n    finally:\n      self._recording = False\n      checkpoint.revert()"),
               (ERR, "    if self._filter is None or self._filter(error):",
                "    if self._filter is None or self._recording or self._filter(error):")]},
]
