"""C12 extension R12.7: the canonical order is computed on the state that is encoded.

`CanonicalOrderingVisitor` sorts with `Node.__lt__`, whose key `_ToTuple` is
built from `str()` of every field - i.e. from the `__str__`/`__repr__` of the
nodes below.  A field that a node's rendering reads but its equality ignores
("equality-blind": `ClassType.cls` - `__eq__` compares the name only,
`__str__`/`__repr__` print `cls.name` / `<unresolved>`) makes two *equal* trees
sort differently.  The tree that is encoded has such fields reset (the decoder
cannot restore them), so the sort has to be done on a tree in which they are
ALREADY reset: otherwise the encoded tree is ordered by keys it does not have,
the decoded tree is not a fixpoint of the canonical ordering and
Serialize(Decode(Serialize(x))) gives other bytes.

The rule derives everything from the sources:
  * the sort key (`Node._ToTuple` applies `str` to the fields),
  * per node class the fields its hand-written `__eq__` never reads and its
    rendering (`__str__`/`__repr__`, generated ones print every field) does,
  * per visitor applied in SerializeAst whether it resets such a field
    (`node.F = None` in Enter/Visit/Leave<Class>), sets it (any other store to
    `.F`, or a constructor / Replace of the class that passes it on) or leaves
    it alone,
and demands, on every path, that a resetting visitor has been applied to the
lineage of the exported tree - and no setting one since - when
CanonicalOrderingVisitor is applied, and that no setting one follows.
"""
import ast

from sa.core import rule, AnalysisError
from sa.pyindex import get_module, dotted, src
from sa import flow
from rules._pytd_schema import get_schema, defs_at, NODE, SERIALIZE
from rules import _util_c12c17c18 as U
from rules.c12 import _export_pipeline

_FUNCS = (ast.FunctionDef, ast.AsyncFunctionDef)
_RENDER = ("__str__", "__repr__")
_FRAMEWORK_BASES = {"Visitor", "visitors.Visitor", "base_visitor.Visitor"}


def _sort_key_uses_str(ctx):
  """Anchor: Node.__lt__ compares _ToTuple(), which applies str() to every
  field of the node (so the rendering of the children is the sort key)."""
  mod = get_module(ctx, NODE)
  mod.cls("Node")
  # own methods or those of a mixin / base class defined in node.py (local MRO;
  # nothing is taken from behind a base that is not defined in the file)
  found = [U.resolve_method(mod, "Node", m) for m in ("__lt__", "_ToTuple")]
  if None in found:
    raise AnalysisError("node.py: Node.__lt__ / Node._ToTuple not found (also "
                        "not in a base class defined in node.py)")
  lt, tt = found[0][1], found[1][1]
  if not any(isinstance(n, ast.Attribute) and n.attr == "_ToTuple"
             for n in ast.walk(lt)):
    raise AnalysisError("node.py: Node.__lt__ no longer compares _ToTuple()")
  over_self = any(isinstance(g, ast.comprehension) and dotted(g.iter) ==
                  tt.args.args[0].arg for g in ast.walk(tt))
  renders = any(isinstance(c, ast.Call) and dotted(c.func) in ("str", "repr")
                for c in ast.walk(tt))
  if not (over_self and renders):
    raise AnalysisError("node.py: Node._ToTuple is no longer str() of every "
                        "field: what the sort key reads is not understood")
  return tt.lineno


def _method(sch, cname, mname):
  for c in [cname] + sch.ancestors(cname):
    for st in sch.classes[c].node.body:
      if isinstance(st, _FUNCS) and st.name == mname:
        return st
  return None


def _self_fields(sch, cname, fn, fields, also=(), _seen=None):
  """Struct fields read as <first param>.F (or <also>.F) in fn, also through
  the methods / properties of the class it reaches (`self._Members()`)."""
  _seen = set() if _seen is None else _seen
  if fn in _seen:
    return set()
  _seen.add(fn)
  names = {fn.args.args[0].arg, *also} if fn.args.args else set(also)
  out = set()
  for n in ast.walk(fn):
    if isinstance(n, ast.Attribute) and isinstance(n.value, ast.Name) and \
        n.value.id in names:
      if n.attr in fields:
        out.add(n.attr)
      else:
        m = _method(sch, cname, n.attr)
        if m is not None:
          out |= _self_fields(sch, cname, m, fields, (), _seen)
  return out


def equality_blind_rendered_fields(ctx):
  """[(class, field, facts)]: struct fields the class's hand-written __eq__
  never reads but its rendering does."""
  sch = get_schema(ctx)
  out = []
  for c in sorted(sch.classes):
    if sch.is_abstract(c):
      continue
    eq = _method(sch, c, "__eq__")
    if eq is None:
      continue      # generated equality compares every field / identity
    fields = list(sch.fields(c))
    other = [a.arg for a in eq.args.args[1:2]]
    compared = _self_fields(sch, c, eq, fields, other)
    rendered, how = set(), {}
    for r in _RENDER:
      m = _method(sch, c, r)
      if m is None:
        if r == "__str__" and _method(sch, c, "__repr__") is not None:
          continue   # object.__str__ falls back to the hand-written __repr__
        rendered |= set(fields)
        how[r] = "generated: every field"
      else:
        got = _self_fields(sch, c, m, fields)
        rendered |= got
        how[r] = sorted(got)
    for f in fields:
      if f in rendered and f not in compared:
        out.append((c, f, {"compared_by___eq__": sorted(compared),
                           "rendered_by": how}))
  return out


# -- what a visitor does to such a field ---------------------------------------

def _module_rel(dotted_mod):
  return dotted_mod.lstrip(".").replace(".", "/") + ".py"


def resolve_class(ctx, mod, name, depth=0):
  """(module, ClassDef) for the class `name` denotes in `mod` (through
  re-export assignments and imports), or None."""
  if depth > 5 or not name:
    return None
  head, _, tail = name.partition(".")
  if not tail:
    if head in mod.classes:
      return mod, mod.classes[head]
    if head in mod.assigns:
      d = dotted(mod.assigns[head])
      return resolve_class(ctx, mod, d, depth + 1) if d and d != name else None
    target = mod.imports.get(head)
    if target and "." in target:
      m, _, n = target.rpartition(".")
      rel = _module_rel(m)
      if ctx.exists(rel):
        return resolve_class(ctx, get_module(ctx, rel), n, depth + 1)
    return None
  target = mod.imports.get(head)
  if target:
    rel = _module_rel(target)
    if ctx.exists(rel):
      return resolve_class(ctx, get_module(ctx, rel), tail, depth + 1)
  return None


def _all_methods(ctx, mod, cd, depth=0):
  """Methods of the visitor class and of its resolvable bases (the visitor
  framework's own base class writes no node fields and is skipped)."""
  out = [st for st in cd.body if isinstance(st, _FUNCS)]
  if depth > 6:
    raise AnalysisError(f"{cd.name}: base-class chain too deep")
  for b in cd.bases:
    bn = dotted(b.value if isinstance(b, ast.Subscript) else b)
    if bn is None or bn in _FRAMEWORK_BASES or bn in ("object",):
      continue
    r = resolve_class(ctx, mod, bn)
    if r is None:
      raise AnalysisError(f"{cd.name}: base class {bn} cannot be resolved: what "
                          "it writes is unknown")
    out.extend(_all_methods(ctx, r[0], r[1], depth + 1))
  return out


def visitor_effect(ctx, sch, mod, cd, cname, field):
  """'reset' / 'set' / 'none': what applying visitor `cd` does to <cname>.<field>."""
  fields = list(sch.fields(cname))
  pos = fields.index(field)
  hooks = {f"{k}{cname}" for k in ("Enter", "Visit", "Leave")}
  sets, resets = [], []
  for m in _all_methods(ctx, mod, cd):
    for n in ast.walk(m):
      tgt = None
      val = None
      if isinstance(n, ast.Assign):
        for t in n.targets:
          if isinstance(t, ast.Attribute) and t.attr == field and \
              dotted(t.value) != "self":
            tgt, val = t, n.value
      elif isinstance(n, (ast.AugAssign, ast.AnnAssign)) and \
          isinstance(n.target, ast.Attribute) and n.target.attr == field and \
          dotted(n.target.value) != "self":
        tgt, val = n.target, n.value
      elif isinstance(n, ast.Call) and dotted(n.func) == "setattr" and \
          len(n.args) == 3 and isinstance(n.args[1], ast.Constant) and \
          n.args[1].value == field:
        tgt, val = n, n.args[2]
      elif isinstance(n, ast.Call):
        last = (dotted(n.func) or "").split(".")[-1]
        given = None
        if last == cname:
          given = n.args[pos] if len(n.args) > pos else None
        if last == cname or last == "Replace":
          for k in n.keywords:
            if k.arg == field:
              given = k.value
        if given is not None and not (isinstance(given, ast.Constant)
                                      and given.value is None):
          sets.append(f"{m.name}: {src(n)[:60]}")
        continue
      if tgt is None:
        continue
      is_none = isinstance(val, ast.Constant) and val.value is None
      unconditional = m.name in hooks and len(m.args.args) == 2 and \
          isinstance(n, ast.Assign) and n in m.body and \
          dotted(tgt.value) == m.args.args[1].arg
      if is_none and unconditional:
        resets.append(m.name)
      elif is_none:
        pass      # a reset of some nodes only: establishes nothing, breaks nothing
      else:
        sets.append(f"{m.name}: {src(n)[:60]}")
  if sets:
    return "set", sets
  if resets:
    return "reset", resets
  return "none", []


@rule("R12.7", "C12", floor=1)
def r12_7(ctx):
  """CanonicalOrderingVisitor sorts a tree whose equality-blind rendered
  fields are already in the state that gets encoded."""
  sch = get_schema(ctx)
  _sort_key_uses_str(ctx)
  blind = equality_blind_rendered_fields(ctx)
  if not blind:
    raise AnalysisError(
        "no node class renders a field its __eq__ ignores (ClassType.cls "
        "expected): the anchor of the rule has vanished")
  p = _export_pipeline(ctx)
  smod, fn, cstmt, lineage = p.smod, p.fn, p.cstmt, p.lineage
  if not p.canon_stmts:
    raise AnalysisError("SerializeAst: no CanonicalOrderingVisitor application "
                        "in the lineage of the exported tree (R12.3 reports it)")

  def applications(unit):
    """[(receiver, visitor class expr)] applied whenever `unit` is evaluated."""
    out = []
    for c in flow.unconditional_calls(unit):
      if not (isinstance(c, ast.Call) and isinstance(c.func, ast.Attribute)
              and c.func.attr == "Visit" and isinstance(c.func.value, ast.Name)
              and len(c.args) >= 1):
        continue
      a = c.args[0]
      if isinstance(a, ast.Name):
        st = smod.enclosing_stmt(c)
        defs = defs_at(p.rd, st, a.id)
        if len(defs) == 1 and isinstance(defs[0], ast.Assign) and \
            isinstance(defs[0].value, ast.Call):
          a = defs[0].value
        elif c.func.value.id in lineage:
          raise AnalysisError(
              f"SerializeAst: `{src(c)}` applies a visitor object whose class "
              "the rule cannot see")
      if isinstance(a, ast.Call) and dotted(a.func):
        out.append((c.func.value.id, dotted(a.func)))
      elif c.func.value.id in lineage:
        raise AnalysisError(f"SerializeAst: `{src(c)}` applies an unknown visitor")
    return out

  effects = {}

  def effect(vname, cname, field):
    k = (vname, cname, field)
    if k not in effects:
      r = resolve_class(ctx, smod, vname)
      if r is None:
        raise AnalysisError(f"SerializeAst: visitor {vname} cannot be resolved "
                            f"to a class: what it does to {cname}.{field} is unknown")
      effects[k] = visitor_effect(ctx, sch, r[0], r[1], cname, field)
    return effects[k]

  for cname, field, facts in blind:
    fact = f"reset:{cname}.{field}"
    seen = {}

    def gen(unit, cname=cname, field=field, fact=fact, seen=seen):
      out = set()
      for recv, v in applications(unit):
        if recv in lineage:
          kind = effect(v, cname, field)[0]
          seen[v.split(".")[-1]] = kind
          if kind == "reset":
            out.add(fact)
      return out

    def kill(unit, cname=cname, field=field, fact=fact):
      for recv, v in applications(unit):
        if recv in lineage and effect(v, cname, field)[0] == "set":
          return {fact}
      return None

    mf = flow.flow(fn, gen, kill, mode="must")
    at_sort = []
    for d in p.canon_stmts:
      st = mf.before.get(d)
      if st is None:
        raise AnalysisError("SerializeAst: CanonicalOrderingVisitor application "
                            "unreachable")
      at_sort.append(fact in st)
    at_ctor = mf.before.get(cstmt)
    if at_ctor is None:
      raise AnalysisError("SerializeAst: constructor statement unreachable")
    ok = all(at_sort) and fact in at_ctor
    facts = dict(facts, visitors={k: v for k, v in sorted(seen.items())},
                 reset_when_sorted=all(at_sort), reset_when_encoded=fact in at_ctor,
                 sort_key="Node.__lt__ -> _ToTuple -> str() of every field")
    resetters = sorted(k for k, v in seen.items() if v == "reset")
    ctx.check(ok, f"SerializeAst:CanonicalOrderingVisitor:sorts-with-{cname}.{field}-reset",
              SERIALIZE, p.canon_stmts[0].lineno,
              f"{cname}.__eq__ ignores `{field}` but the node's rendering "
              f"({'/'.join(_RENDER)}) prints it, and Node.__lt__ sorts by that "
              f"rendering: when CanonicalOrderingVisitor runs, `{field}` must "
              f"already be in the state that is encoded (reset by "
              f"{resetters or 'a resetting visitor'} on every path, nothing "
              "setting it afterwards).  Here the tree is sorted "
              + (f"before `{field}` is reset" if not all(at_sort)
                 else "and a visitor sets the field again afterwards")
              + ": the encoded, pointer-free tree is ordered by keys it no "
              "longer has, so the decoded AST is not canonically ordered and "
              "Serialize(Decode(Serialize(ast))) yields different bytes", facts)


_S = SERIALIZE
_PAIR = ("  ast.Visit(visitors.ClearClassPointers())\n"
         "  ast = ast.Visit(visitors.CanonicalOrderingVisitor())\n")
_SER_DEF = "def SerializeAst(ast, src_path=None, metadata=None) -> SerializableAst:\n"
_TAIL = (_PAIR + "\n  # Clear out the Lookup caches.\n  ast.Visit(ClearLookupCache())\n")

VARIANTS = [
    {"name": "seeded-C12-r3m1", "rule": "R12.7", "patch": "seeded/C12-r3m1/patch.diff",
     "expect": "fire"},
    {"name": "clear-pointers-after-canonical", "rule": "R12.7", "file": _S, "expect": "fire",
     "old": _PAIR,
     "new": "  ast = ast.Visit(visitors.CanonicalOrderingVisitor())\n"
            "  ast.Visit(visitors.ClearClassPointers())\n"},
    {"name": "clear-pointers-last-of-all", "rule": "R12.7", "expect": "fire",
     "edits": [(_S, "  ast.Visit(visitors.ClearClassPointers())\n", ""),
               (_S, "  ast.Visit(ClearLookupCache())\n",
                "  ast.Visit(ClearLookupCache())\n  ast.Visit(visitors.ClearClassPointers())\n")]},
    {"name": "pointers-cleared-before-sorting-on-one-path-only", "rule": "R12.7", "file": _S,
     "expect": "fire",
     "old": _PAIR,
     "new": "  if src_path:\n    ast.Visit(visitors.ClearClassPointers())\n"
            "  ast = ast.Visit(visitors.CanonicalOrderingVisitor())\n"
            "  ast.Visit(visitors.ClearClassPointers())\n"},
    {"name": "pointers-filled-in-again-before-sorting", "rule": "R12.7", "file": _S,
     "expect": "fire",
     "old": _PAIR,
     "new": "  ast.Visit(visitors.ClearClassPointers())\n"
            "  ast.Visit(visitors.FillInLocalPointers({'': ast}))\n"
            "  ast = ast.Visit(visitors.CanonicalOrderingVisitor())\n"
            "  ast.Visit(visitors.ClearClassPointers())\n"},
    {"name": "cleanup-helper-sorts-before-clearing", "rule": "R12.7", "expect": "fire",
     "edits": [(_S, _TAIL, "  ast = _CleanForExport(ast)\n"),
               (_S, _SER_DEF,
                "def _CleanForExport(tree):\n"
                "  tree = tree.Visit(visitors.CanonicalOrderingVisitor())\n"
                "  tree.Visit(visitors.ClearClassPointers())\n"
                "  tree.Visit(ClearLookupCache())\n"
                "  return tree\n\n\n" + _SER_DEF)]},
    {"name": "pointer-setting-visitor-between-clearing-and-sorting", "rule": "R12.7",
     "file": _S, "expect": "fire",
     "old": _PAIR,
     "new": "  ast.Visit(visitors.ClearClassPointers())\n"
            "  ast = ast.Visit(visitors.LookupLocalTypes())\n"
            "  ast = ast.Visit(visitors.CanonicalOrderingVisitor())\n"
            "  ast.Visit(visitors.ClearClassPointers())\n"},
    {"name": "twin-clear-pointers-before-and-after-sorting", "rule": "R12.7", "file": _S,
     "expect": "silent",
     "old": _PAIR,
     "new": _PAIR + "  ast.Visit(visitors.ClearClassPointers())\n"},
    {"name": "twin-sorted-tree-derived-from-a-renamed-tree", "rule": "R12.7", "file": _S,
     "expect": "silent",
     "old": "  ast = ast.Visit(visitors.CanonicalOrderingVisitor())\n",
     "new": "  unsorted = ast\n  ast = unsorted.Visit(visitors.CanonicalOrderingVisitor())\n"},
    {"name": "twin-clearing-visitor-object-bound-to-a-local", "rule": "R12.7", "file": _S,
     "expect": "silent",
     "old": "  ast.Visit(visitors.ClearClassPointers())\n",
     "new": "  ast.Visit(visitors.ClearClassPointers())\n  again = visitors.ClearClassPointers()\n  ast.Visit(again)\n"},
    {"name": "twin-pointers-cleared-first-of-all", "rule": "R12.7", "expect": "silent",
     "edits": [(_S, "  ast.Visit(visitors.ClearClassPointers())\n", ""),
               (_S, "  ast = ast.Visit(UndoModuleAliasesVisitor())\n",
                "  ast = ast.Visit(UndoModuleAliasesVisitor())\n"
                "  ast.Visit(visitors.ClearClassPointers())\n")]},
    {"name": "twin-benign-C12-r2-step-functions-sortkey", "rule": "R12.7",
     "patch": "benign/C12-r2/patch.diff", "expect": "silent"},
    {"name": "twin-cleanup-helper-clears-before-sorting", "rule": "R12.7", "expect": "silent",
     "edits": [(_S, _TAIL, "  ast = _CleanForExport(ast)\n"),
               (_S, _SER_DEF,
                "def _CleanForExport(tree):\n"
                "  tree.Visit(visitors.ClearClassPointers())\n"
                "  result = tree.Visit(visitors.CanonicalOrderingVisitor())\n"
                "  result.Visit(ClearLookupCache())\n"
                "  return result\n\n\n" + _SER_DEF)]},
    {"name": "rendering-no-longer-reads-the-pointer", "rule": "R12.7", "expect": "error",
     "edits": [("pytype/pytd/pytd.py",
                "    return str(self.cls.name) if self.cls else self.name\n",
                "    return self.name\n"),
               ("pytype/pytd/pytd.py",
                "        cls='<unresolved>' if self.cls is None else '',\n",
                "        cls='',\n")]},
]
