"""C01 extension, PARKED (fires on today's tree: genuine defect, see below).

R1.25  A folded list that build_folded_type hands to the VM as a CONCRETE list
       (ctx.convert.build_list -> abstract.List with is_concrete set) is
       indexable: List.getitem_slot returns pyval[i] for a constant i.  It
       must therefore mirror the literal element by element: as many values
       as the literal has elements, the i-th admitting the i-th element's
       typestruct.  A truncated literal (>= MAX_VAR_SIZE elements: a prefix of
       the elements plus one placeholder per element type) does not, so it
       must not be concrete (clear the flag on the built list, or build it
       with build_collection_of_type as the `elements is None` arm does).
       Decided on the same small-scope evaluation as R1.24
       (rules/c01_containers.py): for every list constant of the scope whose
       result is a concrete list record, the recorded values are compared with
       the constant's elements.

Today (confirmed on a scratch build of /repo HEAD 427b34d, 2026-09-24): with
    table = [0, 0, .. (69 zeros) .., 'sentinel']      # 70 elements
    other = ['first', 0, 0, .. (69 zeros)]            # 70 elements
    x = table[-1]        # run time 'sentinel'
    y = other[-1]        # run time 0
pyval is elements[:61] + one placeholder per member of the frozenset
{('prim', int), ('prim', str)}, in the frozenset's iteration order; `[-1]`
returns the LAST placeholder.  Both literals have the same parameter set, so
in one process both x and y get the same type (`int` in one run, `str` in
another: the order follows the str hash of 'prim' vs the type hashes) and one
of them excludes its run-time value - a C01 violation under every hash seed,
and a C04 violation as well (the stub of the same source differs between
PYTHONHASHSEED values).  Indices 0, 1, 2 hit the kept prefix and are right;
other constant indices are not concrete ints in pytype and fall back to T.

Repair options (not applied; /tmp/val/c01_folded_prefix_repair.diff is the
first).  (1) minimal and sound - constant_folding.collect_list, last arm:
      state, vs = expand(state, elts)
      var = ctx.convert.build_list(state.node, vs)
      for v in var.data:
        v.is_concrete = False   # a prefix + type placeholders, not the literal
      return state, var
Tried on a private copy of the scratch build: `table[-1]` becomes
Union[int, str] for both programs; the only upstream tests that change are
constant_folding_test.PyvalTest.test_long_list / test_long_list_of_tuples,
which pin `a[0]` / `a[1]` of an 84-element literal to the element's own type
(the prefix optimisation is given up, so their expectation becomes the union).
(2) precision-preserving, larger: let abstract.List carry the length of the
known prefix and make getitem_slot / getslice_slot answer from pyval only for
constant indices 0 <= i < prefix (negative indices and the placeholder
positions fall back to T).

Suggested key for known_findings.json (if activated before the repair):
  R1.25:concrete-folded-list:truncated
"""
from sa.core import rule, AnalysisError
from sa.pyindex import get_module
from rules import _minieval as _me
from rules import c01_containers as _cc

CF = _cc.CF
FLAG = _cc.FLAG


@rule("R1.25", "C01", floor=2)
def r1_25(ctx):
  """A concrete folded list mirrors the literal element by element."""
  fn = get_module(ctx, CF).func("build_folded_type")
  limit, results = _cc.run_build_folded_type(ctx)
  bad = {"complete": [], "truncated": []}
  seen = {"complete": 0, "truncated": 0}
  for label, const, types, world, err in results:
    if err:
      raise AnalysisError(f"build_folded_type {err} on a {label}")
    consts = []        # the list constants of this run, nested ones included

    def collect(c):
      if not isinstance(c, _me.Obj) or "typ" not in c.attrs:
        return
      if c.attrs["typ"][0] == "list":
        consts.append(c)
      els = c.attrs.get("elements")
      if isinstance(els, dict):
        els = tuple(els.values())
      for e in els or ():
        collect(e)
    collect(const)
    if not consts:
      continue
    group = "truncated" if any(len(c.attrs["elements"]) >= limit for c in consts) \
        else "complete"
    seen[group] += 1
    for _, rec, val_types in world.lists:
      if rec.attrs.get(FLAG) is False:
        continue       # not concrete: never indexed through pyval
      mirrors = any(
          len(c.attrs["elements"]) == len(val_types) and all(
              _cc.admits(t, e.attrs["typ"]) for t, e in zip(val_types, c.attrs["elements"]))
          for c in consts)
      if not mirrors:
        bad[group].append(f"{label}: a concrete list of {len(val_types)} values")
  for g in ("complete", "truncated"):
    if not seen[g]:
      raise AnalysisError(f"build_folded_type: no {g} list constant in the scope")
    ctx.check(not bad[g], f"concrete-folded-list:{g}", CF, fn.lineno,
              f"build_folded_type hands out a CONCRETE list whose values do not "
              f"mirror any list of the literal element by element ({len(bad[g])} "
              f"cases, e.g. {bad[g][:1]}; MAX_VAR_SIZE = {limit}): "
              "List.getitem_slot returns pyval[i] for a constant index, so "
              "`table[-1]` is a type placeholder picked by frozenset order, not the "
              "last element's type",
              {"MAX_VAR_SIZE": limit, "constants": seen[g], "not_mirrored": bad[g][:6]})


VARIANTS = []
