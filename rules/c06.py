"""C06 - a module seen through its stub keeps its types: emit/print/consume.

Decides: that every pytd node kind output.py can write is printed and has a
consumer arm in convert.py, that the value classes output.py handles today
still reach an arm, that every loader path re-links class pointers before it
hands out (or marks as resolved) a module AST, and that marker strings and
qualified names written by output.py are the ones the consumer/stubs know.
Also decides that dotted-name module searches try the longest prefix first.
Does NOT decide that meaning is preserved across the round trip.
"""
import ast

from sa.core import rule, AnalysisError
from sa.pyindex import (get_module, dotted, src, kwarg, calls_in, try_fold,
                        walk_no_nested)
from sa import flow
from rules import c05 as _c05

EXPLANATION = (
    "Static hand-off rules for the chain output.py -> printer -> parser -> "
    "loader -> convert.py, evaluated on the AST: R6.1 every pytd node class "
    "output.py constructs (directly or through the pytd_utils helpers it "
    "calls) has a PrintVisitor arm and a consumer (an isinstance arm of "
    "Converter.constant_to_var/_constant_to_value/_pytd_constant_to_value, "
    "for the class or an ancestor, not shadowed by an earlier arm; or, for "
    "purely structural nodes, membership in a field of a consumed node), and "
    "every member of the TypeU union is consumed (confirmed exceptions: "
    "NamedType, rejected by the loader's VerifyLookup; IntersectionType, "
    "never emitted); R6.2 each abstract/overlay value class named by today's "
    "arms of output.value_to_pytd_type/value_to_pytd_def (frozen list, "
    "resolved through abstract/abstract.py re-exports, *_TYPES tuples and "
    "base classes) still reaches an arm before the final `raise "
    "NotImplementedError` (the dispatch may be one if/elif chain whose else "
    "is the raise, or a sequence of if-statements with returning bodies "
    "followed by the raise - an arm whose body can fall through does not "
    "count then - and may continue in a method of the same class that is "
    "tail-called with the value); R6.3 Loader.process_module, "
    "PickledPyiLoader.load_module, _ModuleMap._unpickle_module and "
    "BuiltinsAndTyping.load return / mark as resolved only ASTs that passed "
    "through FillInLocalPointers / serialize_ast.ProcessAst "
    "(_LookupClassReferences then FillLocalReferences, whose .ast is "
    "returned through a local or directly); the re-link facts are a "
    "must-dataflow that follows `self.<method>(..)` calls into methods of the "
    "same class (local MRO, up to three levels): such a call contributes what "
    "holds at every non-raising exit of the method and kills what the method "
    "may store, with its parameters mapped to the call's arguments, so the "
    "resolve/fill sequence of process_module may live in a private helper; "
    "the `.ast = v` store of PickledPyiLoader.load_module into its module-map "
    "entry is recognised as `self._modules[k].ast = v` or as `m.ast = v` "
    "through a local m bound exactly once in the function to "
    "`self._modules[k]` (plain assignment, not a parameter, never "
    "rebound/deleted) whose binding reaches the store on every path with no "
    "call, no store into/of self._modules and no rebinding of a name in k in "
    "between (so m still is the entry); a `.ast` store through a local bound "
    "to a self._modules[..] entry that is not such a live alias is an "
    "analysis error; "
    "R6.4 Annotated "
    "marker strings and metadata tags written by output.py/attr_overlay are "
    "the ones convert.py, decorate.py and the parser test for; R6.5 every "
    "typing./builtins. qualified name output.py writes is defined in the "
    "bundled stub; R6.6 module-prefix searches over a dotted name go from the "
    "longest prefix down: _LateTypeLoader._load_late_type_module's index "
    "loop is evaluated for names of 1..7 components (range/reversed(range) "
    "bounds, slice bounds with negative indices, once-bound int locals): the "
    "prefix lengths tried must be non-increasing, cover n-1..1, the returned "
    "attribute path must start where the prefix ends, and the loop must "
    "return at the first importable prefix; every while loop in "
    "load_pytd/visitors/serialize_ast that shortens a dotted name held in a "
    "local must peel from the right (rpartition / rsplit('.', 1), element 0); "
    "R6.20 (rules/c06_names.py) the three helpers that REBUILD a reference "
    "from a dotted name and a table of known prefixes "
    "(serialize_ast.UndoModuleAliasesVisitor.VisitLateType, "
    "load_pytd._Resolver.resolve_module_alias, "
    "visitors.LookupExternalTypes._LookupModuleRecursive) are evaluated from "
    "their ASTs (rules/_minieval.py, a concrete evaluator for a pure "
    "str/list/dict fragment) on every name of 1..5 components x every table "
    "over its prefixes: the result must carry the entry of the longest known "
    "prefix followed by the WHOLE remainder (every component, in order), and "
    "the whole name when nothing matches; R6.21 (rules/c06_template.py) the "
    "analyser's _compute_template and the stub reader's "
    "AdjustTypeParameters.EnterClass (with the helpers they call, "
    "mro.MergeSequences included) are evaluated on every class header of a "
    "small scope and must yield the same sequence of type variables (or both "
    "reject the header).  "
    "These are necessary conditions: breaking one makes a "
    "downstream module fail to load the stub, crash in convert.py, or see "
    "Any/an error where the upstream analysis had a type.  Preservation of "
    "meaning by each arm is not decided.  Blind spots of R6.6: what "
    "import_name / the module maps answer for a prefix, strip_init_suffix, "
    "and prefix searches written in a third form (recursion, itertools).  "
    "Blind spots of R6.20/R6.21: only the listed functions, only inputs of "
    "the small scope (names up to 5 components; headers with at most three "
    "bases, type variables as direct arguments of the bases); how the "
    "tables are filled and what callers do with the result; a function "
    "rewritten outside the evaluated fragment is an analysis error, not a "
    "verdict; helpers are followed into the module that defines them (a "
    "private helper of mro.py called by bare name from MergeSequences is "
    "evaluated from mro.py).  Bases parameterised by NESTED generics "
    "(`class M(Box[List[V]], Other[K])`) are compared by R6.22 "
    "(rules/c06_template_nested.py; the two sides disagreed there before the "
    "D55 repair).")
ASSUMPTIONS = [
    "convert.py dispatches pytd nodes only through constant_to_var, "
    "_constant_to_value and _pytd_constant_to_value; structural nodes "
    "(Signature, Parameter, TemplateItem) are consumed as fields of "
    "Function/Class",
    "class hierarchies of abstract values are resolved by name through "
    "import aliases inside pytype/; bases defined outside pytype/ are "
    "ignored (they cannot be named by an isinstance arm of output.py)",
    "the frozen value-class list records today's arms; a class added to "
    "pytype/abstract later is outside the rule's reach",
    "only presence and order of the re-linking calls is decided, not the "
    "correctness of FillInLocalPointers itself",
    "R6.6: index and slice bounds are affine in the loop index and the number "
    "of components, so agreement on names of 1..7 components is agreement on "
    "all; a longer prefix must win over a shorter one whenever both import",
    "R6.20/R6.21: host str/list/dict/slice semantics equal the semantics the "
    "code runs under; the world models (records with the attributes the "
    "functions read: node.name/.Replace, _module_aliases, _module_map, "
    "lookup_ast.aliases of pytd.Module entries; pytd.GenericType bases with "
    "TypeParameter arguments; ParameterizedClass bases with "
    "formal_type_parameters and with_scope) describe the real objects; "
    "small-scope hypothesis: a wrong rebuild or a wrong merge shows on a "
    "name of at most 5 components / a header of at most 3 bases",
]

# rules/c06_imports_map.py (R6.23) and rules/c06_local_names.py (R6.24)
EXPLANATION += (
    "  R6.23 (rules/c06_imports_map.py) the imports map is closed under "
    "`parent package`: with an imports map ModuleLoader.find_import accepts a "
    "directory as a package only through the key `<dir>/__init__`, so the map "
    "ImportsMapBuilder.build_from_items returns must contain that key for "
    "every proper ancestor directory of every key (the given file if the items "
    "name one, os.devnull otherwise), every given module, and nothing else.  "
    "Decided by evaluating the builder's methods from their AST on every input "
    "of a small scope (all sets of <= 2 module files over directory chains of "
    "depth <= 3 with module names sorting before and after the directory "
    "names and explicit __init__ files, all triples out of 11 paths of depth "
    "<= 2, a repeated short path, the `%` pseudo-path; 833 inputs); how the "
    "ancestors are collected is irrelevant.  R6.24 "
    "(rules/c06_local_names.py) the stub reader's name qualifier "
    "(visitors.ResolveLocalNames, driven through __init__ / "
    "EnterTypeDeclUnit / EnterClass / VisitNamedType / VisitClassType) "
    "inverts the printer's naming convention in every class context: a name "
    "whose first component is a top-level class of the module is qualified "
    "from the module root whichever class body the reference sits in; the "
    "class-scope readings (own simple name, ImmediateOuter.Nested) only apply "
    "to heads no module-level class claims; Any-typed constants give Any; "
    "unknown and external-prefixed names stay untouched.  Decided on every "
    "module whose class tree is a prefix-closed set of paths of length <= 2 "
    "over two simple names (plus two trees of depth 3) x every class context "
    "x every class path of the tree.  In both rules anything outside the "
    "evaluated fragment is an analysis error.")
ASSUMPTIONS += [
    "R6.23: os.path / path_utils behave like posixpath on relative "
    "slash-separated short paths; abspath is modelled as a fixed injective "
    "prefixing; the small-scope hypothesis: a missing ancestor entry shows on "
    "at most 3 files of depth <= 3 (4 levels) over two directory names",
    "R6.24: pytype writes class references in an emitted stub as the class's "
    "full path from the module root (bare name for a top-level class, "
    "Outer.Inner for a nested one) independent of the position of the "
    "reference; this convention is a property of the TypeDeclUnit output.py "
    "builds (unprefixed names) and is not itself checked here",
]

EXPLANATION += (
    "  R6.25 (rules/c06_order_guard.py): the canonical-ordering visitor that runs on module A's AST before "
    "it is printed and pickled keeps the declared order of a namedtuple's fields for every shape of base "
    "list (marker alone, followed / preceded by Generic[T] or mixins; 1-3 bases, marker spelt as ClassType or "
    "NamedType) - the evaluation of rules/c05_order_guard.py (R5.23) reported per (number of bases, position "
    "of the marker): a sorted field list gives module B another __new__ signature and tuple layout.  R6.26 "
    "(rules/c06_own_names.py): every spelling under which the printed unit defines a name (classes, "
    "functions, constants, type parameters, aliases: bare as in the inferred AST, or module-qualified as in "
    "a loaded stub; class methods and constants: bare, with or without an enclosing unit) makes "
    "PrintVisitor write the qualified `typing.X` / `builtins.x` instead of the bare name; decided by "
    "evaluating EnterTypeDeclUnit, EnterClass, _FromTyping, VisitNamedType and what they call on unit "
    "records for unit names `m` and `pkg.m`, with a control (nothing defined -> bare name).  Blind spots: "
    "names are Generator / list only (the code cannot know them), nested classes' members after LeaveClass, "
    "aliases that are imports, and the reader's side (that a bare name resolves to the unit's definition "
    "first) are not decided; constructs outside the evaluated fragment are analysis errors.")
ASSUMPTIONS += [
    "R6.26: the traversal calls EnterTypeDeclUnit(unit) before anything of the unit is printed and "
    "EnterClass(cls) before the members of cls; _Imports.get_alias answers None for names nobody imported "
    "under an alias; unit records carry the five definition tuples of pytd.TypeDeclUnit",
]

OUTPUT = "pytype/output.py"
CONVERT = "pytype/convert.py"
LOAD = "pytype/load_pytd.py"
SERIALIZE = "pytype/pytd/serialize_ast.py"
VISITORS = "pytype/pytd/visitors.py"
PYTD_UTILS = "pytype/pytd/pytd_utils.py"
BUILTIN_STUBS = "pytype/imports/builtin_stubs.py"
ATTR_OVERLAY = "pytype/overlays/attr_overlay.py"
DECORATE = "pytype/pytd/codegen/decorate.py"
DEFS = "pytype/pyi/definitions.py"
BUILTINS = "pytype/stubs/builtins/builtins.pytd"
TYPING = _c05.TYPING
PYTD = _c05.PYTD


def _const_str(node):
  return node.value if isinstance(node, ast.Constant) and \
      isinstance(node.value, str) else None


# -- R6.1 ------------------------------------------------------------------------

def emitted_node_classes(ctx):
  """pytd node classes output.py constructs -> (where, line)."""
  classes = _c05.node_classes(ctx)
  omod = get_module(ctx, OUTPUT)
  umod = get_module(ctx, PYTD_UTILS)
  out = {}
  helpers = {}
  for call in calls_in(omod.tree):
    d = dotted(call.func) or ""
    if d.startswith("pytd.") and d.count(".") == 1 and d[5:] in classes:
      fn = omod.enclosing_function(call)
      out.setdefault(d[5:], (f"output.{fn.name if fn else '<module>'}", call.lineno))
    elif d.startswith("pytd_utils.") and d.count(".") == 1:
      helpers.setdefault(d.split(".")[1], call.lineno)
  for h, line in sorted(helpers.items()):
    if h in umod.functions:
      body = umod.functions[h]
    elif h in umod.classes:
      body = umod.classes[h]
    elif h in umod.assigns or h in umod.imports:
      raise AnalysisError(f"output.py calls pytd_utils.{h}, an alias the rule does not follow")
    else:
      # definite: nothing in pytd_utils.py binds that name
      ctx.bad(f"helper:pytd_utils.{h}", OUTPUT, line,
              f"output.py calls pytd_utils.{h}, which pytd_utils.py does not define: "
              "emitting that kind of value raises AttributeError", {"helper": h})
      continue
    in_isinstance = set()
    for c in calls_in(body, name="isinstance"):
      for sub in ast.walk(c):
        in_isinstance.add(sub)
    for n in ast.walk(body):
      if isinstance(n, ast.Attribute) and n not in in_isinstance:
        d = dotted(n) or ""
        if d.startswith("pytd.") and d.count(".") == 1 and d[5:] in classes:
          out.setdefault(d[5:], (f"pytd_utils.{h}", line))
  if len(out) < 10:
    raise AnalysisError(f"output.py: only {len(out)} pytd constructors found")
  return out


def type_union_members(ctx):
  """Names in pytd.TypeU with the *U aliases expanded."""
  mod = get_module(ctx, PYTD)
  classes = _c05.node_classes(ctx)
  def expand(name, depth=0):
    if depth > 5:
      raise AnalysisError("pytd.py: TypeU aliases nest too deeply")
    node = mod.assigns.get(name)
    if not (isinstance(node, ast.Subscript) and dotted(node.value) == "Union"):
      raise AnalysisError(f"pytd.py: {name} is not a Union[...] alias")
    elts = node.slice.elts if isinstance(node.slice, ast.Tuple) else [node.slice]
    out = []
    for e in elts:
      d = dotted(e)
      if d in classes:
        out.append(d)
      elif d in mod.assigns:
        out += expand(d, depth + 1)
      else:
        raise AnalysisError(f"pytd.py: {name} member {src(e)} not understood")
    return out
  return expand("TypeU")


def field_children(ctx):
  """class -> node classes named in its field annotations (not via *U aliases)."""
  classes = _c05.node_classes(ctx)
  out = {}
  for name, info in classes.items():
    kids = set()
    for st in info["node"].body:
      if isinstance(st, ast.AnnAssign):
        for n in ast.walk(st.annotation):
          if isinstance(n, ast.Name) and n.id in classes:
            kids.add(n.id)
    out[name] = kids
  return out


_DISPATCH = ("Converter.constant_to_var", "Converter._constant_to_value",
             "Converter._pytd_constant_to_value")


def consumer_arms(ctx):
  """Per dispatch function: ordered [(classes, unconditional, line)]."""
  def build():
    mod = get_module(ctx, CONVERT)
    classes = _c05.node_classes(ctx)
    per_fn = {}
    for q in _DISPATCH:
      fn = mod.func(q)
      param = fn.args.args[1].arg
      heads = [s for s in fn.body if isinstance(s, ast.If)]
      arms = []
      for head in heads:
        chain, _ = _c05.if_chain(head)
        for test, _body in chain:
          conj = test.values if isinstance(test, ast.BoolOp) and \
              isinstance(test.op, ast.And) else [test]
          first = conj[0]
          if not (isinstance(first, ast.Call) and dotted(first.func) == "isinstance"
                  and len(first.args) == 2 and dotted(first.args[0]) == param):
            continue
          spec = first.args[1]
          elts = spec.elts if isinstance(spec, ast.Tuple) else [spec]
          names = []
          for e in elts:
            d = dotted(e) or ""
            if d.startswith("pytd.") and d[5:] in classes:
              names.append(d[5:])
          if names:
            arms.append((names, len(conj) == 1, test.lineno))
      per_fn[q] = arms
    if sum(len(v) for v in per_fn.values()) < 10:
      raise AnalysisError("convert.py: consumer arms not recognised")
    return per_fn
  return ctx.memo("c06.consumer_arms", build)


def _loader_rejects_namedtype(ctx):
  """VerifyLookup.EnterNamedType raises and _Resolver.verify runs VerifyLookup."""
  vmod = get_module(ctx, VISITORS)
  fn = vmod.methods("VerifyLookup").get("EnterNamedType")
  raises = fn is not None and fn.body and any(
      isinstance(s, ast.Raise) for s in fn.body) and \
      not any(isinstance(s, (ast.If, ast.Try)) for s in fn.body)
  lmod = get_module(ctx, LOAD)
  ver = lmod.func("_Resolver.verify")
  runs = any((dotted(c.func) or "").endswith("VerifyLookup") for c in calls_in(ver))
  fin = lmod.func("Loader.finish_and_verify_ast")
  calls = bool(calls_in(fin, name="self._resolver.verify"))
  return bool(raises and runs and calls), {
      "VerifyLookup.EnterNamedType raises": bool(raises),
      "_Resolver.verify runs VerifyLookup": runs,
      "finish_and_verify_ast verifies": calls}


@rule("R6.1", "C06", floor=27)
def r6_1(ctx):
  """emit subset-of print subset-of consume."""
  classes = _c05.node_classes(ctx)
  emitted = emitted_node_classes(ctx)
  visits = _c05.printer_visits(ctx)
  typeu = type_union_members(ctx)
  kids = field_children(ctx)
  arms = consumer_arms(ctx)
  armed = {}
  for q, lst in arms.items():
    for names, uncond, line in lst:
      for n in names:
        if n not in ("Node", "Type"):
          armed.setdefault(n, (q.split(".")[1], line))
  # definition-level classes consumed as a field of a consumed definition node
  structural = {}
  changed = True
  while changed:
    changed = False
    for parent, ks in kids.items():
      if parent in typeu or "Type" in _c05.node_ancestors(ctx, parent):
        continue
      if parent in armed or parent in structural:
        for k in ks:
          if k not in typeu and "Type" not in _c05.node_ancestors(ctx, k) \
              and k not in armed and k not in structural:
            structural[k] = parent
            changed = True
  named_ok, named_facts = _loader_rejects_namedtype(ctx)
  subjects = sorted(set(emitted) | set(typeu))
  for x in subjects:
    if x not in classes or not classes[x]["concrete"]:
      raise AnalysisError(f"pytd.{x} is not a concrete node class")
    where, line = emitted.get(x, (None, 0))
    is_type = x in typeu or "Type" in _c05.node_ancestors(ctx, x)
    facts = {"emitted_by": where, "type_level": is_type,
             "printable": x in visits}
    if where and x not in visits:
      ctx.bad(f"node:{x}", OUTPUT, line,
              f"{where} constructs pytd.{x}, which PrintVisitor cannot print",
              facts)
      continue
    via = None
    for a in _c05.node_ancestors(ctx, x):
      if a in armed:
        via = f"isinstance arm for pytd.{a} in {armed[a][0]}"
        break
    if via is None and not is_type and x in structural:
      via = f"field of pytd.{structural[x]}"
    if via is None and x == "NamedType":
      if not named_ok:
        ctx.bad(f"node:{x}", VISITORS, 0,
                "pytd.NamedType has no consumer arm and the loader no longer "
                "rejects unresolved NamedTypes", {**facts, **named_facts})
        continue
      via = "resolved by the loader (VerifyLookup rejects leftovers)"
      facts.update(named_facts)
    if via is None and x == "IntersectionType" and not where:
      via = "never emitted by output.py"
    facts["consumer"] = via
    ctx.check(via is not None, f"node:{x}", OUTPUT if where else CONVERT, line,
              f"pytd.{x} ({'emitted by ' + where if where else 'member of TypeU'}) "
              "has no consumer: no isinstance arm in "
              "constant_to_var/_constant_to_value/_pytd_constant_to_value names "
              "it or an ancestor", facts)
  # arm order: an unconditional ancestor arm must not precede a subclass arm
  cmod = get_module(ctx, CONVERT)
  c2v = cmod.func("Converter._constant_to_value")
  disp = False
  for head in [s_ for s_ in c2v.body if isinstance(s_, ast.If)]:
    for test, body in _c05.if_chain(head)[0]:
      if src(test) == f"isinstance({c2v.args.args[1].arg}, pytd.Node)" and \
          isinstance(body[-1], ast.Return) and \
          calls_in(body[-1], name="self._pytd_constant_to_value"):
        disp = True
  ctx.check(disp, "dispatch:_constant_to_value->_pytd_constant_to_value", CONVERT,
            c2v.lineno, "_constant_to_value must hand every pytd.Node to "
            "_pytd_constant_to_value", {"found": disp})
  for q, lst in arms.items():
    if not lst:
      continue
    shadowed = []
    for i, (names, _u, line) in enumerate(lst):
      for n in names:
        strict = _c05.node_ancestors(ctx, n)[1:]
        for names0, uncond0, line0 in lst[:i]:
          if uncond0 and n not in names0 and any(a in names0 for a in strict):
            shadowed.append((n, line, line0))
    ctx.check(not shadowed, f"arm-order:{q.split('.')[1]}", CONVERT,
              shadowed[0][1] if shadowed else 0,
              f"arm(s) {[(s[0]) for s in shadowed]} can never be reached: an "
              "earlier unconditional arm tests an ancestor class",
              {"arms": [a[0] for a in lst], "shadowed": [s[0] for s in shadowed]})


# -- R6.2 ------------------------------------------------------------------------

# Value classes named by the arms of output.Converter.value_to_pytd_type /
# value_to_pytd_def on the reference tree (as spelled in output.py; the *_TYPES
# tuples of abstract/abstract.py are listed by their members, so that a tuple
# losing a member is seen).
FROZEN_TYPE_ARMS = [
    "abstract.Empty", "typing_overlay.Never", "abstract.TypeParameterInstance",
    "abstract.ParamSpecInstance",
    "typing_overlay.TypeVar", "typing_overlay.ParamSpec",
    "dataclass_overlay.FieldInstance", "attr_overlay.AttribInstance",
    "special_builtins.PropertyInstance", "typed_dict.TypedDict",
    "abstract.BoundFunction", "abstract.Function", "abstract.ClassMethod",
    "abstract.StaticMethod",
    "special_builtins.IsInstance", "special_builtins.ClassMethodCallable",
    "abstract.Class", "abstract.Module", "abstract.SimpleValue", "abstract.Union",
    "special_builtins.SuperInstance", "abstract.TypeParameter",
    "abstract.ParamSpec", "abstract.Unsolvable", "abstract.Unknown",
    "abstract.BuildClass", "abstract.FinalAnnotation", "abstract.SequenceLength",
    "abstract.Concatenate", "function.ParamSpecMatch", "abstract.ParamSpecArgs",
]
FROZEN_DEF_ARMS = [
    "abstract.Module", "abstract.BoundFunction", "attr_overlay.AttrsBase",
    "abstract.PyTDFunction", "abstract.InterpreterFunction",
    "abstract.SimpleFunction", "abstract.ParameterizedClass", "abstract.Union",
    "abstract.PyTDClass", "typed_dict.TypedDictClass", "abstract.InterpreterClass",
    "abstract.TypeParameter", "abstract.ParamSpec", "abstract.Unsolvable",
]


def _mod_to_rel(ctx, modname):
  if not modname or not modname.startswith("pytype"):
    return None
  rel = modname.replace(".", "/") + ".py"
  return rel if ctx.exists(rel) else None


def resolve_name(ctx, rel, name, depth=0):
  """Classes a dotted reference in module `rel` denotes: [(rel, cls)] or None."""
  if depth > 12:
    raise AnalysisError(f"{rel}: resolution of {name} too deep")
  m = get_module(ctx, rel)
  head, _, rest = name.partition(".")
  if not rest:
    if head in m.classes:
      return [(rel, head)]
    if head in m.assigns:
      return resolve_expr(ctx, rel, m.assigns[head], depth + 1)
    if head in m.imports:
      modname, _, attr = m.imports[head].rpartition(".")
      r = _mod_to_rel(ctx, modname)
      if r:
        return resolve_name(ctx, r, attr, depth + 1)
    return None
  if head in m.imports:
    r = _mod_to_rel(ctx, m.imports[head])
    if r is None:
      return None
    return resolve_name(ctx, r, rest, depth + 1)
  return None


def resolve_expr(ctx, rel, node, depth=0):
  if isinstance(node, ast.Tuple):
    out = []
    for e in node.elts:
      r = resolve_expr(ctx, rel, e, depth + 1)
      if r is None:
        raise AnalysisError(f"{rel}: cannot resolve {src(e)}")
      out += r
    return out
  if isinstance(node, ast.BinOp) and isinstance(node.op, ast.Add):
    l = resolve_expr(ctx, rel, node.left, depth + 1)
    r = resolve_expr(ctx, rel, node.right, depth + 1)
    if l is None or r is None:
      raise AnalysisError(f"{rel}: cannot resolve {src(node)}")
    return l + r
  d = dotted(node)
  if d is None:
    return None
  return resolve_name(ctx, rel, d, depth + 1)


def class_ancestors(ctx, rel, cls):
  def build():
    out, todo = [], [(rel, cls)]
    while todo:
      r, c = todo.pop()
      if (r, c) in out:
        continue
      out.append((r, c))
      m = get_module(ctx, r)
      for b in m.classes[c].bases:
        if isinstance(b, ast.Subscript):
          b = b.value
        res = resolve_expr(ctx, r, b)
        if res is None:
          d = dotted(b) or ""
          head = d.split(".")[0]
          imp = m.imports.get(head, "")
          if head in m.classes or imp.startswith("pytype") or imp.startswith("."):
            raise AnalysisError(f"{r}: base {d} of {c} cannot be resolved")
          continue
        todo += res
    return out
  return ctx.memo(("c06.anc", rel, cls), build)


def _is_nie(stmt):
  return isinstance(stmt, ast.Raise) and "NotImplementedError" in src(stmt)


def _dispatch_tests(mod, cls, fn, param, depth=0):
  """Tests of the arms of a class dispatch on `param` that keep a value away from the final
  `raise NotImplementedError`.

  Accepted spellings of the dispatch (top-level statements of the method): one if/elif chain whose
  `else` is the raise (every arm counts: leaving an arm never reaches the raise); a sequence of
  if-statements / chains followed by an unconditional raise (an arm counts only if its body always
  returns or raises - otherwise the value falls through to the raise); either form may end in a tail
  call `return self.<method>(.., param, ..)` of a method of the same class that continues the dispatch.
  """
  qual = f"{cls}.{fn.name}"
  if depth > 3:
    raise AnalysisError(f"{qual}: dispatch helpers nested too deep")
  body = [st for st in fn.body if not (isinstance(st, ast.Expr) and isinstance(st.value, ast.Constant))]
  heads = [st for st in body if isinstance(st, ast.If)]
  if not heads:
    raise AnalysisError(f"{qual}: no isinstance dispatch found")
  last = body[-1]
  tests = []
  if len(heads) == 1 and last is heads[0]:
    chain, els = _c05.if_chain(heads[0])
    if not (len(els) == 1 and _is_nie(els[0])):
      raise AnalysisError(f"{qual}: chain no longer ends in raise NotImplementedError")
    return [t for t, _ in chain]
  for h in heads:
    chain, els = _c05.if_chain(h)
    if h is last:
      raise AnalysisError(f"{qual}: the dispatch ends in an if-statement without a final raise")
    if els and not flow.terminates(els):
      raise AnalysisError(f"{qual}: an `else` arm of the dispatch falls through")
    tests += [t for t, b in chain if flow.terminates(b)]
  if _is_nie(last):
    return tests
  v = last.value if isinstance(last, ast.Return) else None
  if isinstance(v, ast.Call) and isinstance(v.func, ast.Attribute) and dotted(v.func.value) == "self" \
      and v.func.attr in mod.methods(cls) and not v.keywords and not any(isinstance(a, ast.Starred) for a in v.args):
    callee = mod.methods(cls)[v.func.attr]
    pos = [i for i, a in enumerate(v.args) if dotted(a) == param]
    names = [a.arg for a in callee.args.posonlyargs + callee.args.args][1:]
    if len(pos) != 1 or pos[0] >= len(names) or callee.args.vararg or callee.args.kwarg:
      raise AnalysisError(f"{qual}: tail call {src(v)[:60]} does not hand on `{param}` as one plain argument")
    stored = {n.id for n in ast.walk(fn) if isinstance(n, ast.Name) and not isinstance(n.ctx, ast.Load)}
    if param in stored:
      raise AnalysisError(f"{qual}: `{param}` is rebound before the tail call")
    sub = _dispatch_tests(mod, cls, callee, names[pos[0]], depth + 1)
    # the continuation's tests speak about its own parameter name
    ren = names[pos[0]]
    if ren != param:
      class R(ast.NodeTransformer):
        def visit_Name(self, n):
          return ast.copy_location(ast.Name(id=param, ctx=n.ctx), n) if n.id == ren else n
      import copy
      sub = [R().visit(copy.deepcopy(t)) for t in sub]
    return tests + sub
  raise AnalysisError(f"{qual}: the dispatch does not end in raise NotImplementedError")


def output_arms(ctx, qual):
  """Classes named positively by isinstance(v, ..) arms; checks the final raise."""
  mod = get_module(ctx, OUTPUT)
  fn = mod.func(qual)
  param = fn.args.args[2].arg
  covered = []
  for test in _dispatch_tests(mod, qual.split(".")[0], fn, param):
    parent = {c: p_ for p_ in ast.walk(test) for c in ast.iter_child_nodes(p_)}
    for call in calls_in(test, name="isinstance"):
      par = parent.get(call)
      if isinstance(par, ast.UnaryOp) and isinstance(par.op, ast.Not):
        continue
      if len(call.args) == 2 and dotted(call.args[0]) == param:
        res = resolve_expr(ctx, OUTPUT, call.args[1])
        if res is None:
          # python builtin types (int, str, ...) name no abstract value
          continue
        covered += res
  if len(covered) < 5:
    raise AnalysisError(f"{qual}: arms not recognised")
  return set(covered), fn.lineno


def _check_frozen(ctx, qual, frozen, label):
  covered, line = output_arms(ctx, qual)
  mod = get_module(ctx, OUTPUT)
  for spelled in frozen:
    try:
      node = ast.parse(spelled, mode="eval").body
    except SyntaxError as e:
      raise AnalysisError(str(e)) from e
    res = resolve_expr(ctx, OUTPUT, node)
    if not res:
      raise AnalysisError(
          f"value class {spelled} named by the reference tree's {qual} arms "
          "can no longer be resolved")
    for rel, cls in res:
      anc = class_ancestors(ctx, rel, cls)
      hit = [c for c in anc if c in covered]
      name = spelled if len(res) == 1 else f"{spelled}:{cls}"
      ctx.check(bool(hit), f"{label}:{name}", OUTPUT, line,
                f"{qual}: a value of class {cls} ({rel}) reaches the final "
                "`raise NotImplementedError`: neither it nor an ancestor is "
                "named by an isinstance arm",
                {"class": f"{rel}:{cls}",
                 "arm": f"{hit[0][1]}" if hit else None,
                 "ancestors": [c for _, c in anc][:8]})


@rule("R6.2", "C06", floor=45)
def r6_2(ctx):
  """Value classes handled today still reach an arm."""
  _check_frozen(ctx, "Converter.value_to_pytd_type", FROZEN_TYPE_ARMS, "type")
  _check_frozen(ctx, "Converter.value_to_pytd_def", FROZEN_DEF_ARMS, "def")


# -- R6.3 ------------------------------------------------------------------------

_RELINK_CALLS = ("serialize_ast.ProcessAst", "serialize_ast.FillLocalReferences",
                 "self._resolve_classtype_pointers", "FillLocalReferences")


def _fill_visit(call):
  """Receiver text if call is X.Visit(visitors.FillInLocalPointers(..))."""
  if isinstance(call, ast.Call) and isinstance(call.func, ast.Attribute) and \
      call.func.attr == "Visit" and len(call.args) == 1 and \
      isinstance(call.args[0], ast.Call) and \
      (dotted(call.args[0].func) or "").split(".")[-1] == "FillInLocalPointers":
    return dotted(call.func.value)
  return None


def _methods_mro(mod, cls):
  """name -> def over `cls` and its bases defined in the same module (derived class first)."""
  out, todo, seen = {}, [cls], set()
  while todo:
    c = todo.pop(0)
    if c in seen or c not in mod.classes:
      continue
    seen.add(c)
    for k, v in mod.methods(c).items():
      out.setdefault(k, v)
    todo += [dotted(b) for b in mod.classes[c].bases if dotted(b)]
  return out


def _callee_summary(mod, cls, call, depth):
  """What a call `self.<method>(<args>)` of a method of the same class establishes in the caller.

  -> (facts that hold at every non-raising exit of the method, names it may store), both with the method's
  parameters replaced by the (dotted) arguments of the call; None if the call is not such a call.
  """
  d = dotted(call.func) or ""
  if mod is None or cls is None or depth > 2 or not d.startswith("self.") or d.count(".") != 1 \
      or d in _RELINK_CALLS:
    return None
  callee = _methods_mro(mod, cls).get(d.split(".")[1])
  if callee is None or callee.args.vararg or callee.args.kwarg or callee.decorator_list:
    return None
  params = [a.arg for a in callee.args.posonlyargs + callee.args.args][1:]
  if len(call.args) > len(params) or any(isinstance(a, ast.Starred) for a in call.args) \
      or any(k.arg is None for k in call.keywords):
    return None
  bound = {**dict(zip(params, call.args)), **{k.arg: k.value for k in call.keywords}}
  ren = {p_: dotted(a) for p_, a in bound.items()}
  rebound = {n.id for n in walk_no_nested(callee) if isinstance(n, ast.Name) and not isinstance(n.ctx, ast.Load)}

  def tr(name):
    head, _, rest = name.partition(".")
    if head == "self":
      return name
    if head in ren and ren[head] and head not in rebound:
      return ren[head] + ("." + rest if rest else "")
    return None   # a local of the method / a non-dotted argument / a rebound parameter
  f = _relink_flow(callee, None, mod, cls, depth + 1)
  states = [st for k, _, st in f.exits if k != "raise" and st is not None]
  facts = set()
  if states:
    for x in frozenset.intersection(*map(frozenset, states)):
      if ":" in x and x.split(":", 1)[0] in ("filled", "relinked"):
        t = tr(x.split(":", 1)[1])
        if t:
          facts.add(x.split(":", 1)[0] + ":" + t)
      else:
        facts.add(x)
  stored = set()
  for n in walk_no_nested(callee):
    if isinstance(n, (ast.Assign, ast.AugAssign, ast.AnnAssign)):
      for t in (n.targets if isinstance(n, ast.Assign) else [n.target]):
        for sub in ([t] if not isinstance(t, ast.Tuple) else t.elts):
          if dotted(sub):
            stored.add(dotted(sub))
  # what the method's own callees store, one more level
  for c in calls_in(callee):
    sub = _callee_summary(mod, cls, c, depth + 1)
    if sub:
      stored |= {x for x in sub[1]}
  return facts, {t for t in map(tr, stored) if t}


def _relink_flow(fn, extra_gen=None, mod=None, cls=None, depth=0):
  """must-flow: 'filled:<expr>' after X.Visit(FillInLocalPointers), 'relinked:<v>'
  after v = ProcessAst(..)/FillLocalReferences(..), 'relink' after any re-link.

  With mod/cls: a call `self.<method>(..)` of a method of the same class (local
  MRO) contributes what holds at every non-raising exit of that method, and
  kills the facts of what the method may store, parameters mapped to arguments."""
  summaries = {}

  def summary(c):
    if id(c) not in summaries:
      summaries[id(c)] = _callee_summary(mod, cls, c, depth)
    return summaries[id(c)]

  def gen(unit):
    out = []
    for c in flow.unconditional_calls(unit):
      r = _fill_visit(c)
      if r:
        out += [f"filled:{r}", "relink"]
      d = dotted(c.func) or ""
      if d in _RELINK_CALLS:
        out.append("relink")
        out.append("call:" + d.split(".")[-1])
      sm = summary(c)
      if sm:
        out += sorted(sm[0])
    if isinstance(unit, ast.Assign) and isinstance(unit.value, ast.Call) and \
        (dotted(unit.value.func) or "") in _RELINK_CALLS and len(unit.targets) == 1:
      t = dotted(unit.targets[0])
      if t:
        out.append(f"relinked:{t}")
    if extra_gen:
      out += extra_gen(unit) or []
    return out
  def kill(unit):
    names = set()
    if mod is not None and not isinstance(unit, (ast.FunctionDef, ast.AsyncFunctionDef, ast.ClassDef)):
      for c in calls_in(unit):
        sm = summary(c)
        if sm:
          names |= sm[1]
    if isinstance(unit, (ast.Assign, ast.AugAssign, ast.AnnAssign)):
      tg = unit.targets if isinstance(unit, ast.Assign) else [unit.target]
      for t in tg:
        for sub in ([t] if not isinstance(t, ast.Tuple) else t.elts):
          d = dotted(sub)
          if d:
            names.add(d)
    if names:
      return lambda f: (f.startswith("filled:") or f.startswith("relinked:")) \
          and f.split(":", 1)[1] in names
    return None
  first = flow.flow(fn, gen, kill, mode="must")
  # plain aliases (`x = module.ast`) carry the facts of what they alias
  alias_gen = {}
  for n in walk_no_nested(fn):
    if isinstance(n, ast.Assign) and len(n.targets) == 1 and \
        isinstance(n.targets[0], ast.Name) and dotted(n.value):
      st = first.before.get(n) or frozenset()
      for pre in ("filled:", "relinked:"):
        if pre + dotted(n.value) in st:
          alias_gen.setdefault(id(n), []).append(pre + n.targets[0].id)
  if not alias_gen:
    return first
  def gen2(unit):
    return gen(unit) + alias_gen.get(id(unit), [])
  return flow.flow(fn, gen2, kill, mode="must")


def _single_binding_call(fn, name):
  """The call `name` is bound to, if it is bound exactly once in fn."""
  binds = [n for n in walk_no_nested(fn) if isinstance(n, ast.Assign)
           and any(dotted(t) == name for t in n.targets)]
  if len(binds) == 1 and isinstance(binds[0].value, ast.Call):
    return dotted(binds[0].value.func)
  return None


def _classify_returns(fn, f, delegates, label_fact):
  """-> (ok, details) over every return/end exit of fn."""
  details, ok = [], True
  for kind, node, st in f.exits:
    if kind == "raise":
      continue
    st = st or frozenset()
    if kind == "end":
      details.append(("end", "falls off the end"))
      ok = False
      continue
    v = node.value
    if isinstance(v, ast.Call) and (dotted(v.func) or src(v.func)) in delegates:
      details.append((src(v)[:50], "delegates"))
    elif isinstance(v, ast.Name) and \
        _single_binding_call(fn, v.id) == "self._modules.get_existing_ast":
      details.append((v.id, "cached"))
    elif v is not None and label_fact(dotted(v)) in st:
      details.append((src(v), "relinked"))
    else:
      details.append((src(v) if v is not None else "None", "NOT relinked"))
      ok = False
  return ok, details


def _aliased_entry_ast_stores(fn):
  """`<name>.ast = v` stores of fn whose <name> is a live once-bound alias of `self._modules[<key>]`.

  <name> must be bound exactly once in fn (a plain `name = self._modules[<key>]`; not a parameter, no other
  store/del/global of the name anywhere in fn, nested scopes included), and the binding must reach the store on
  every path with nothing in between that could make the alias stale: any call, any store/del into or of
  `self._modules`, any rebinding of a name the key mentions ends the alias.  A `.ast` store through a name
  that is bound to a `self._modules[..]` subscript somewhere but is not such a live alias -> AnalysisError.
  """
  def entry_key(v):
    if isinstance(v, ast.Subscript) and dotted(v.value) == "self._modules":
      return src(v.slice)
    return None
  cand = {}     # name -> [binding statements `name = self._modules[..]`]
  for n in walk_no_nested(fn):
    if isinstance(n, (ast.Assign, ast.AnnAssign)) and n.value is not None:
      for t in (n.targets if isinstance(n, ast.Assign) else [n.target]):
        if isinstance(t, ast.Name) and entry_key(n.value) is not None:
          cand.setdefault(t.id, []).append(n)
    elif isinstance(n, ast.NamedExpr) and entry_key(n.value) is not None:
      cand.setdefault(n.target.id, []).append(n)
  if not cand:
    return []
  params = {a.arg for a in ast.walk(fn.args) if isinstance(a, ast.arg)}
  n_stores, scoped = {}, set()
  for n in ast.walk(fn):
    if isinstance(n, ast.Name) and not isinstance(n.ctx, ast.Load):
      n_stores[n.id] = n_stores.get(n.id, 0) + 1
    elif isinstance(n, (ast.Global, ast.Nonlocal)):
      scoped |= set(n.names)
    elif isinstance(n, ast.ExceptHandler) and n.name:
      n_stores[n.name] = n_stores.get(n.name, 0) + 1
    elif isinstance(n, ast.alias):
      nm = (n.asname or n.name).split(".")[0]
      n_stores[nm] = n_stores.get(nm, 0) + 1
    elif isinstance(n, (ast.FunctionDef, ast.AsyncFunctionDef, ast.ClassDef)) and n is not fn:
      n_stores[n.name] = n_stores.get(n.name, 0) + 1
    elif isinstance(n, (ast.MatchAs, ast.MatchStar)) and n.name:
      n_stores[n.name] = n_stores.get(n.name, 0) + 1
    elif isinstance(n, ast.MatchMapping) and n.rest:
      n_stores[n.rest] = n_stores.get(n.rest, 0) + 1
  good = {}     # name -> (binding, names the key mentions)
  for name, binds in cand.items():
    b = binds[0]
    if len(binds) == 1 and isinstance(b, ast.Assign) and len(b.targets) == 1 and \
        n_stores.get(name, 0) == 1 and name not in params and name not in scoped:
      good[name] = (b, {x.id for x in ast.walk(b.value.slice) if isinstance(x, ast.Name)})

  def gen(unit):
    return [f"alias:{nm}" for nm, (b, _) in good.items() if unit is b]
  def kill(unit):
    if isinstance(unit, (ast.FunctionDef, ast.AsyncFunctionDef, ast.ClassDef)):
      return None
    if any(unit is b for b, _ in good.values()):
      return None      # the binding itself: a subscript load of self._modules, no call (checked below)
    dead_all = False
    rebound = set()
    for x in ast.walk(unit):
      if isinstance(x, (ast.Call, ast.Await, ast.Yield, ast.YieldFrom)):
        dead_all = True
      elif isinstance(x, (ast.Subscript, ast.Attribute, ast.Name)) and not isinstance(x.ctx, ast.Load):
        d = dotted(x.value) if isinstance(x, ast.Subscript) else dotted(x)
        if d in ("self._modules", "self") or (isinstance(x, ast.Subscript) and d is None):
          dead_all = True
        if isinstance(x, ast.Name):
          rebound.add(x.id)
    if dead_all:
      return lambda f: f.startswith("alias:")
    if rebound:
      return lambda f: f.startswith("alias:") and (good[f[6:]][1] & rebound)
    return None
  for b, _ in good.values():
    if any(isinstance(x, (ast.Call, ast.Await, ast.Yield, ast.YieldFrom, ast.NamedExpr)) for x in ast.walk(b)):
      raise AnalysisError(f"PickledPyiLoader.load_module: `{src(b)}`: the key of the aliased module-map "
                          "entry is not a plain expression")
  fa = flow.flow(fn, gen, kill, mode="must") if good else None
  out = []
  for n in walk_no_nested(fn):
    if not isinstance(n, (ast.Assign, ast.AugAssign, ast.AnnAssign)):
      continue
    for t in (n.targets if isinstance(n, ast.Assign) else [n.target]):
      for sub in (t.elts if isinstance(t, (ast.Tuple, ast.List)) else [t]):
        if isinstance(sub, ast.Attribute) and sub.attr == "ast" and isinstance(sub.value, ast.Name) \
            and sub.value.id in cand:
          nm = sub.value.id
          if nm not in good or not isinstance(n, ast.Assign) or len(n.targets) != 1 or sub is not t \
              or f"alias:{nm}" not in (fa.before.get(n) or frozenset()):
            raise AnalysisError(
                f"PickledPyiLoader.load_module: `{src(n)}` (line {n.lineno}) stores through `{nm}`, which is "
                "bound to a self._modules[..] entry but is not a once-bound alias that is still current "
                "at the store (rebound, bound on some paths only, or a call / module-map store in between)")
          out.append(n)
  return out


@rule("R6.3", "C06", floor=13)
def r6_3(ctx):
  """Loader paths re-link class pointers before handing out an AST."""
  lmod = get_module(ctx, LOAD)
  # Loader.process_module
  pm = lmod.func("Loader.process_module")
  f = _relink_flow(pm, None, lmod, "Loader")
  stores = [n for n in walk_no_nested(pm) if isinstance(n, ast.Assign)
            and isinstance(n.targets[0], ast.Subscript)
            and dotted(n.targets[0].value) == "self._modules"]
  if len(stores) != 1:
    raise AnalysisError("process_module: store into self._modules not found")
  ok, det = _classify_returns(pm, f, (), lambda d: f"filled:{d}")
  ctx.check(ok, "Loader.process_module:returns", LOAD, pm.lineno,
            "every path that returns from process_module must have visited "
            f"the returned AST with FillInLocalPointers: {det}",
            {"returns": det, "stored": src(stores[0].value)})
  # Loader.load_module
  lm = lmod.func("Loader.load_module")
  ok, det = _classify_returns(lm, _relink_flow(lm, None, lmod, "Loader"), ("self.process_module",),
                              lambda d: f"filled:{d}")
  ctx.check(ok, "Loader.load_module:returns", LOAD, lm.lineno,
            f"Loader.load_module must return a cached AST or process_module's "
            f"result: {det}", {"returns": det})
  # PickledPyiLoader.load_module
  pl = lmod.func("PickledPyiLoader.load_module")
  f = _relink_flow(pl, None, lmod, "PickledPyiLoader")
  ok, det = _classify_returns(pl, f, ("super().load_module",),
                              lambda d: f"relinked:{d}")
  ctx.check(ok, "PickledPyiLoader.load_module:returns", LOAD, pl.lineno,
            "every AST PickledPyiLoader.load_module returns must come from "
            f"serialize_ast.ProcessAst, the cache or the base loader: {det}",
            {"returns": det})
  ast_stores = [n for n in walk_no_nested(pl) if isinstance(n, ast.Assign)
                and (dotted(n.targets[0]) or src(n.targets[0])).endswith(".ast")
                and "self._modules" in src(n.targets[0])]
  ast_stores += _aliased_entry_ast_stores(pl)
  if not ast_stores:
    raise AnalysisError("PickledPyiLoader.load_module: `.ast = ` store not found")
  bad = [src(n) for n in ast_stores
         if f"relinked:{dotted(n.value)}" not in (f.before.get(n) or frozenset())]
  ctx.check(not bad, "PickledPyiLoader.load_module:stored-ast", LOAD,
            ast_stores[0].lineno,
            f"the AST stored into self._modules[..].ast must be ProcessAst's "
            f"result: {bad}", {"stores": [src(n) for n in ast_stores]})
  # has_unresolved_pointers = False only after a re-link
  n_flag = 0
  for q in ("PickledPyiLoader.load_module",
            "Loader._resolve_classtype_pointers_for_all_modules"):
    fn = lmod.func(q)
    ff = _relink_flow(fn, None, lmod, q.split(".")[0])
    sets = [n for n in walk_no_nested(fn) if isinstance(n, ast.Assign)
            and (src(n.targets[0])).endswith(".has_unresolved_pointers")
            and try_fold(n.value, default=None) is False]
    if not sets:
      raise AnalysisError(f"{q}: has_unresolved_pointers = False not found")
    bad = [n.lineno for n in sets
           if "relink" not in (ff.before.get(n) or frozenset())]
    n_flag += 1
    ctx.check(not bad, f"{q}:has_unresolved_pointers", LOAD, sets[0].lineno,
              f"{q} marks a module as resolved on a path that did not re-link "
              "its class pointers", {"sets": len(sets)})
  # no other site clears the flag
  others = []
  for n in ast.walk(lmod.tree):
    if isinstance(n, ast.Assign) and src(n.targets[0]).endswith(".has_unresolved_pointers") \
        and try_fold(n.value, default=None) is False:
      fn = lmod.enclosing_function(n)
      if fn is None or fn.name not in ("load_module",
                                       "_resolve_classtype_pointers_for_all_modules"):
        others.append(getattr(fn, "name", "<module>"))
  ctx.check(not others, "load_pytd:flag-clearing-sites", LOAD, 0,
            f"has_unresolved_pointers is also cleared in {others}, which the "
            "re-linking rule does not cover", {"other_sites": others})
  rp = lmod.func("Loader._resolve_classtype_pointers")
  fills = [c for c in calls_in(rp) if _fill_visit(c) == rp.args.args[1].arg]
  ctx.check(len(fills) == 1 and lmod.parent.get(lmod.enclosing_stmt(fills[0])) is rp,
            "Loader._resolve_classtype_pointers", LOAD, rp.lineno,
            "_resolve_classtype_pointers must unconditionally visit its "
            "argument with FillInLocalPointers", {"fills": len(fills)})
  # _ModuleMap._unpickle_module
  um = lmod.func("_ModuleMap._unpickle_module")
  loops = [n for n in walk_no_nested(um) if isinstance(n, ast.For)
           and any((dotted(c.func) or "") == "serialize_ast.FillLocalReferences"
                   and c.args and dotted(c.args[0]) == dotted(n.target)
                   for s in n.body for c in flow.unconditional_calls(s)
                   if lmod.parent.get(s) is n)]
  coll = dotted(loops[0].iter) if len(loops) == 1 else None
  iters = {id(l.iter): l for l in loops}
  def extra(unit):
    if id(unit) in iters:
      return [f"filled-each:{dotted(unit)}"]
    return []
  fm = _relink_flow(um, extra)
  def gen_may(unit):
    if isinstance(unit, ast.Assign) and dotted(unit.targets[0]) and \
        dotted(unit.targets[0]).endswith(".ast"):
      return ["stored"]
    return []
  fy = flow.flow(um, gen_may, None, mode="may")
  may_at = {id(n): st for _, n, st in fy.exits}
  bad = []
  for kind, node, st in fm.exits:
    if kind == "raise":
      continue
    if "stored" in (may_at.get(id(node)) or frozenset()) and \
        f"filled-each:{coll}" not in (st or frozenset()):
      bad.append(getattr(node, "lineno", 0))
  stores = [n for n in ast.walk(um) if isinstance(n, ast.Assign)
            and dotted(n.targets[0]) and dotted(n.targets[0]).endswith(".ast")]
  appended = True
  for s in stores:
    owner = dotted(s.value)
    blk_parent = lmod.parent.get(s)
    sib = [x for fld in ("body", "orelse") for x in getattr(blk_parent, fld, [])
           if isinstance(getattr(blk_parent, fld, None), list)]
    ok_here = any(isinstance(x, ast.Expr) and isinstance(x.value, ast.Call)
                  and dotted(x.value.func) == f"{coll}.append"
                  and owner and owner.startswith(dotted(x.value.args[0]) + ".")
                  for x in sib)
    appended = appended and ok_here
  ctx.check(coll is not None and not bad and bool(stores) and appended,
            "_ModuleMap._unpickle_module", LOAD, um.lineno,
            "every AST _unpickle_module installs must be queued and passed to "
            "serialize_ast.FillLocalReferences before the function returns",
            {"collection": coll, "stores": len(stores), "queued": appended,
             "unfilled_exits": bad})
  # serialize_ast.ProcessAst
  smod = get_module(ctx, SERIALIZE)
  pa = smod.func("ProcessAst")
  def gen_pa(unit):
    out = []
    for c in flow.unconditional_calls(unit):
      if dotted(c.func) == "_LookupClassReferences":
        out.append("external")
    return out
  fpa = _relink_flow(pa, gen_pa)
  # the one FillLocalReferences(..) call: bound to a local whose .ast is returned, or its .ast returned directly
  fills = calls_in(pa, name="FillLocalReferences")
  rets = [(n, st) for k, n, st in fpa.exits if k == "return"]
  ok = len(fills) == 1 and bool(rets)
  if ok:
    site = smod.enclosing_stmt(fills[0])
    v = dotted(site.targets[0]) if isinstance(site, ast.Assign) and site.value is fills[0] \
        and len(site.targets) == 1 else None
    ok = "external" in (fpa.before.get(site) or frozenset()) and (v is not None or isinstance(site, ast.Return))
    for n, st in rets:
      direct = isinstance(n.value, ast.Attribute) and n.value.attr == "ast" and n.value.value is fills[0]
      ok = ok and (direct or (v is not None and dotted(n.value) == f"{v}.ast"
                              and f"relinked:{v}" in (st or frozenset())))
    ok = ok and all(k != "end" for k, _, _ in fpa.exits)
  ctx.check(ok, "serialize_ast.ProcessAst", SERIALIZE, pa.lineno,
            "ProcessAst must call _LookupClassReferences, then "
            "FillLocalReferences, and return the .ast of that result",
            {"returns": [src(n.value) for n, _ in rets]})
  # serialize_ast.FillLocalReferences
  fl = smod.func("FillLocalReferences")
  filler = [dotted(n.targets[0]) for n in walk_no_nested(fl)
            if isinstance(n, ast.Assign) and isinstance(n.value, ast.Call)
            and (dotted(n.value.func) or "").endswith("FillInLocalPointers")]
  if len(filler) != 1:
    raise AnalysisError("FillLocalReferences: filler binding not found")
  fv = filler[0]
  each = {}
  for n in walk_no_nested(fl):
    if isinstance(n, ast.For) and any(
        dotted(c.func) == f"{fv}.EnterClassType" and c.args
        and dotted(c.args[0]) == dotted(n.target)
        for s in n.body if fl is not None
        for c in flow.unconditional_calls(s)):
      each[id(n.iter)] = n
  def gen_fl(unit):
    out = []
    if id(unit) in each:
      out.append("filled")
    for c in flow.unconditional_calls(unit):
      if isinstance(c.func, ast.Attribute) and c.func.attr == "Visit" and \
          c.args and dotted(c.args[0]) == fv:
        out.append("filled")
    return out
  ffl = flow.flow(fl, gen_fl, None, mode="must")
  bad = [getattr(n, "lineno", 0) for k, n, st in ffl.exits
         if k != "raise" and "filled" not in (st or frozenset())]
  ctx.check(not bad, "serialize_ast.FillLocalReferences", SERIALIZE, fl.lineno,
            "every return of FillLocalReferences must follow a whole-AST "
            "Visit(local_filler) or an EnterClassType call on every listed "
            "ClassType node", {"filler": fv, "unfilled_returns": bad})
  # builtins / typing
  bmod = get_module(ctx, BUILTIN_STUBS)
  bl = bmod.func("BuiltinsAndTyping.load")
  fb = _relink_flow(bl)
  rets = [(n, st) for k, n, st in fb.exits if k == "return"]
  if len(rets) != 1 or not isinstance(rets[0][0].value, ast.Tuple):
    raise AnalysisError("BuiltinsAndTyping.load: `return b, t` not found")
  for e in rets[0][0].value.elts:
    d = dotted(e)
    ctx.check(f"filled:{d}" in (rets[0][1] or frozenset()),
              f"BuiltinsAndTyping.load:{d}", BUILTIN_STUBS, rets[0][0].lineno,
              f"`{d}` is returned (and cached as a resolved module) without a "
              "FillInLocalPointers visit after its last transformation",
              {"facts": sorted(x for x in (rets[0][1] or ()) if x.startswith("filled"))})


# -- R6.4 ------------------------------------------------------------------------

@rule("R6.4", "C06", floor=4)
def r6_4(ctx):
  """Annotated markers and metadata tags agree between writer and reader."""
  omod = get_module(ctx, OUTPUT)
  markers = {}
  for call in calls_in(omod.tree, name="pytd.Annotated"):
    ann = call.args[1] if len(call.args) > 1 else kwarg(call, "annotations")
    if not isinstance(ann, ast.Tuple) or not ann.elts:
      raise AnalysisError(f"output.py: pytd.Annotated annotations {src(call)[:60]}")
    first = _const_str(ann.elts[0])
    if first is None:
      continue  # debugging arm with computed annotations
    if first.startswith("'") and first.endswith("'"):
      markers.setdefault(first, call.lineno)
  if not markers:
    raise AnalysisError("output.py writes no Annotated markers any more")
  # readers
  readers = {}
  cmod = get_module(ctx, CONVERT)
  am = cmod.func("Converter._apply_metadata_annotations")
  for n in ast.walk(am):
    if isinstance(n, ast.Compare) and len(n.ops) == 1 and \
        isinstance(n.ops[0], ast.Eq) and src(n.left) == "annotations[0]":
      lit = _const_str(n.comparators[0])
      if lit:
        readers.setdefault(lit, []).append("convert._apply_metadata_annotations")
  for rel, label in ((DECORATE, "codegen/decorate.py"), (DEFS, "pyi/definitions.py")):
    m = get_module(ctx, rel)
    for n in ast.walk(m.tree):
      if isinstance(n, ast.Compare) and len(n.ops) == 1 and \
          isinstance(n.ops[0], (ast.In, ast.NotIn)) and \
          (dotted(n.comparators[0]) or "").endswith(".annotations"):
        lit = _const_str(n.left)
        if lit:
          readers.setdefault(lit, []).append(label)
      if isinstance(n, ast.keyword) and n.arg == "annotations" and \
          isinstance(n.value, ast.Tuple) and n.value.elts:
        lit = _const_str(n.value.elts[0])
        if lit:
          readers.setdefault(lit, []).append(label + " (parser writes the same)")
  for mk, line in sorted(markers.items()):
    ctx.check(mk in readers, f"marker:{mk}", OUTPUT, line,
              f"output.py writes Annotated marker {mk}; no reader tests for it "
              f"(readers know {sorted(readers)})",
              {"readers": readers.get(mk), "known": sorted(readers)})
  # metadata tags
  amod = get_module(ctx, ATTR_OVERLAY)
  tags = {}
  for fn in ast.walk(amod.tree):
    if isinstance(fn, ast.FunctionDef) and fn.name == "to_metadata":
      for d in ast.walk(fn):
        if isinstance(d, ast.Dict):
          for k, v in zip(d.keys, d.values):
            if _const_str(k) == "tag" and _const_str(v):
              tags.setdefault(_const_str(v), fn.lineno)
  if not tags:
    raise AnalysisError("attr_overlay: no to_metadata tag literals found")
  read_tags = set()
  for n in ast.walk(am):
    if isinstance(n, ast.Compare) and len(n.ops) == 1 and \
        isinstance(n.ops[0], ast.Eq) and src(n.left) in ("md['tag']", 'md["tag"]'):
      lit = _const_str(n.comparators[0])
      if lit:
        read_tags.add(lit)
  for tag, line in sorted(tags.items()):
    ctx.check(tag in read_tags, f"metadata-tag:{tag}", ATTR_OVERLAY, line,
              f"attr_overlay writes metadata tag {tag!r}; "
              f"convert._apply_metadata_annotations reads {sorted(read_tags)}",
              {"read": sorted(read_tags)})


# -- R6.5 ------------------------------------------------------------------------

@rule("R6.5", "C06", floor=17)
def r6_5(ctx):
  """Qualified typing./builtins. names output.py writes exist in the stubs."""
  omod = get_module(ctx, OUTPUT)
  stubs = {"typing": (TYPING, _c05.stub_toplevel(ctx, TYPING)),
           "builtins": (BUILTINS, _c05.stub_toplevel(ctx, BUILTINS))}
  names = {}
  for call in calls_in(omod.tree):
    d = dotted(call.func) or ""
    lits = []
    if d == "pytd.NamedType" and call.args:
      lits.append(call.args[0])
    elif d.endswith(".wrap") and len(call.args) == 1:
      lits.append(call.args[0])
    elif d == "self._make_decorator" and call.args:
      lits.append(call.args[0])
    for l in lits:
      s = _const_str(l)
      if s and "." in s:
        names.setdefault(s, call.lineno)
  if len(names) < 5:
    raise AnalysisError("output.py: qualified name literals not recognised")
  n = 0
  for s, line in sorted(names.items()):
    module, _, base = s.partition(".")
    if module not in stubs or "." in base:
      continue
    n += 1
    rel, table = stubs[module]
    ctx.check(base in table, f"name:{s}", OUTPUT, line,
              f"output.py writes {s!r}, which {rel} does not define: a module "
              "importing the stub cannot resolve it",
              {"stub": rel, "defined": base in table})
  if n == 0:
    raise AnalysisError("output.py: no typing./builtins. names found")


# -- R6.6 ------------------------------------------------------------------------

def _int_eval(node, env, fn):
  """Evaluates an int expression over the loop variable, len(<parts>) and
  once-bound int locals; None if it is something else."""
  if isinstance(node, ast.Constant) and isinstance(node.value, int) and not isinstance(node.value, bool):
    return node.value
  if isinstance(node, ast.Name):
    if node.id in env:
      return env[node.id]
    binds = [n for n in walk_no_nested(fn) if isinstance(n, ast.Name) and n.id == node.id
             and not isinstance(n.ctx, ast.Load)]
    vals = [n.value for n in walk_no_nested(fn) if isinstance(n, ast.Assign) and len(n.targets) == 1
            and dotted(n.targets[0]) == node.id]
    if len(binds) == 1 and len(vals) == 1:
      return _int_eval(vals[0], env, fn)
    return None
  if isinstance(node, ast.UnaryOp) and isinstance(node.op, (ast.USub, ast.UAdd)):
    v = _int_eval(node.operand, env, fn)
    return None if v is None else (-v if isinstance(node.op, ast.USub) else v)
  if isinstance(node, ast.BinOp) and isinstance(node.op, (ast.Add, ast.Sub, ast.Mult)):
    l, r = _int_eval(node.left, env, fn), _int_eval(node.right, env, fn)
    if l is None or r is None:
      return None
    return l + r if isinstance(node.op, ast.Add) else l - r if isinstance(node.op, ast.Sub) else l * r
  if isinstance(node, ast.Call) and dotted(node.func) == "len" and len(node.args) == 1 \
      and dotted(node.args[0]) == env.get("<parts>"):
    return env["<n>"]
  return None


def _iter_values(it, env, fn):
  """The ints a `range(..)` / `reversed(range(..))` iterable yields, or None."""
  rev = False
  while isinstance(it, ast.Call) and dotted(it.func) == "reversed" and len(it.args) == 1:
    it, rev = it.args[0], not rev
  if not (isinstance(it, ast.Call) and dotted(it.func) == "range" and 1 <= len(it.args) <= 3
          and not it.keywords):
    return None
  args = [_int_eval(a, env, fn) for a in it.args]
  if any(a is None for a in args) or (len(args) == 3 and args[2] == 0):
    return None
  vals = list(range(*args))
  return vals[::-1] if rev else vals


_PEEL_RIGHT = {"rpartition": None, "rsplit": 1}   # method -> required maxsplit
_PEEL_LEFT = {"partition": None, "split": 1}


def _peel_loops(mod):
  """While loops that shorten a dotted name held in a local: (loop, assign, var, method, index)."""
  out = []
  for loop in ast.walk(mod.tree):
    if not isinstance(loop, ast.While):
      continue
    for n in walk_no_nested(loop):
      if not (isinstance(n, ast.Assign) and len(n.targets) == 1 and isinstance(n.value, ast.Call)
              and isinstance(n.value.func, ast.Attribute) and isinstance(n.value.func.value, ast.Name)
              and n.value.func.attr in {**_PEEL_RIGHT, **_PEEL_LEFT} and n.value.args
              and _const_str(n.value.args[0]) == "."):
        continue
      inner = n
      while not isinstance(inner, (ast.While, ast.For)):
        inner = mod.parent[inner]
      if inner is not loop:
        continue   # belongs to a nested loop
      var = n.value.func.value.id
      t = n.targets[0]
      elts = [dotted(e) for e in t.elts] if isinstance(t, ast.Tuple) else None
      if elts is None or var not in elts:
        continue
      out.append((loop, n, var, n.value.func.attr, elts.index(var), len(elts)))
  return out


# floor: 8 peel loops + at least one instance for _load_late_type_module (4 in
# its index-loop form, 1 if it is rewritten as a peel loop)
@rule("R6.6", "C06", floor=9)
def r6_6(ctx):
  """Module-prefix searches over a dotted name try the longest prefix first.

  `pkg.mod.Foo` may be class Foo of module pkg.mod or attribute mod.Foo of
  package pkg; every loader/lookup loop has to try `pkg.mod` before `pkg`
  (and must try every proper prefix), otherwise a name from a sub-module of a
  package with an importable __init__ resolves against the package, fails and
  silently becomes Any.  Two loop forms are understood: an index loop slicing
  the split name (evaluated on names of 1..7 components) and a while loop that
  peels the last component off with rpartition/rsplit.
  """
  lmod = get_module(ctx, LOAD)
  fn = lmod.func("_LateTypeLoader._load_late_type_module")
  # (a) index loop over the split name
  splits = [n for n in walk_no_nested(fn) if isinstance(n, ast.Assign) and len(n.targets) == 1
            and isinstance(n.targets[0], ast.Name) and isinstance(n.value, ast.Call)
            and isinstance(n.value.func, ast.Attribute) and n.value.func.attr == "split"
            and [_const_str(a) for a in n.value.args] == ["."]]
  loops = [n for n in walk_no_nested(fn) if isinstance(n, ast.For)]
  peels_here = [p for p in _peel_loops(lmod) if lmod.enclosing_function(p[0]) is fn]
  if len(splits) == 1 and len(loops) == 1 and isinstance(loops[0].target, ast.Name):
    parts, loop, iv = splits[0].targets[0].id, loops[0], loops[0].target.id
    if sum(1 for n in walk_no_nested(fn) if isinstance(n, ast.Name) and n.id in (parts, iv)
           and not isinstance(n.ctx, ast.Load)) != 2:
      raise AnalysisError("_load_late_type_module: the split name or the loop index is rebound")
    pre, suf = [], []
    for n in walk_no_nested(loop):
      if isinstance(n, ast.Subscript) and dotted(n.value) == parts and isinstance(n.slice, ast.Slice):
        sl = n.slice
        if sl.step is not None:
          raise AnalysisError(f"_load_late_type_module: stepped slice {src(n)}")
        if sl.upper is not None and (sl.lower is None or src(sl.lower) == "0"):
          pre.append(n)
        elif sl.lower is not None and sl.upper is None:
          suf.append(n)
        else:
          raise AnalysisError(f"_load_late_type_module: slice {src(n)} not understood")
    imports = [c for c in calls_in(loop) if isinstance(c.func, ast.Attribute) and c.func.attr == "import_name"]
    if not pre or not suf or len(imports) != 1:
      raise AnalysisError("_load_late_type_module: prefix slice / remainder slice / import_name call not found")
    tried, rest, odd = {}, {}, []
    for n in range(1, 8):
      env = {"<parts>": parts, "<n>": n}
      ivs = _iter_values(loop.iter, env, fn)
      if ivs is None:
        raise AnalysisError(f"_load_late_type_module: loop over {src(loop.iter)} not understood")
      tried[n], rest[n] = [], []
      for i in ivs:
        env[iv] = i
        ups = {_int_eval(p.slice.upper, env, fn) for p in pre}
        los = {_int_eval(q.slice.lower, env, fn) for q in suf}
        if None in ups or None in los or len(ups) != 1 or len(los) != 1:
          raise AnalysisError("_load_late_type_module: slice bounds not understood / inconsistent")
        tried[n].append(slice(None, ups.pop()).indices(n)[1])
        rest[n].append(slice(los.pop(), None).indices(n)[0])
    want = {n: list(range(n - 1, 0, -1)) for n in tried}
    facts = {"loop": src(loop.iter), "prefix": src(pre[0]), "remainder": src(suf[0]),
             "prefix_lengths_for_4_parts": tried[4]}
    out_of_order = [n for n in tried if any(a < b for a, b in zip(tried[n], tried[n][1:]))]
    missing = [n for n in tried if set(want[n]) - set(tried[n])]
    if not out_of_order and not missing and tried != want:
      raise AnalysisError(f"_load_late_type_module: prefixes tried {tried[4]} for a 4-part name: not understood")
    ctx.check(not out_of_order, "_load_late_type_module:longest-prefix-first", LOAD, loop.lineno,
              f"for a 4-part name the module prefixes of length {tried[4]} are tried in this order: a shorter "
              "prefix (the package) is tried before a longer one (the sub-module), so `pkg.mod.Foo` is looked "
              "up as `mod.Foo` in `pkg` and becomes Any", facts)
    ctx.check(not missing, "_load_late_type_module:every-proper-prefix", LOAD, loop.lineno,
              f"for a 4-part name only the prefixes of length {tried[4]} are tried; every length "
              f"{want[4]} is needed (nested classes, sub-packages)", facts)
    ctx.check(tried == rest, "_load_late_type_module:remainder-complements-prefix", LOAD, suf[0].lineno,
              f"for a 4-part name the prefixes end at {tried[4]} but the attribute paths start at {rest[4]}: "
              "a component is dropped or looked up twice", {**facts, "remainder_starts_for_4_parts": rest[4]})
    # the first importable prefix wins, and the prefix slice is what is imported
    rets = [n for n in walk_no_nested(loop) if isinstance(n, ast.Return)]
    imp = imports[0]
    holder = lmod.parent.get(imp)
    var = holder.target.id if isinstance(holder, ast.NamedExpr) else (
        dotted(holder.targets[0]) if isinstance(holder, ast.Assign) else None)
    def mentions_prefix(e, depth=0):
      if any(x in pre for x in ast.walk(e)):
        return True
      for x in ast.walk(e):
        if isinstance(x, ast.Name) and depth < 3:
          for d in walk_no_nested(loop):
            if isinstance(d, ast.Assign) and dotted(d.targets[0]) == x.id and mentions_prefix(d.value, depth + 1):
              return True
      return False
    if var is None or not mentions_prefix(imp):
      raise AnalysisError("_load_late_type_module: import_name(<prefix>) result binding not understood")
    hit = [r for r in rets if any(p and t in (var, f"({var} := {src(imp)})", f"{var} is not None")
                                  for t, p in flow.guards_txt(lmod.parent, r, stop=loop))
           and isinstance(r.value, ast.Tuple) and len(r.value.elts) == 2 and dotted(r.value.elts[0]) == var
           and any(x in suf for x in ast.walk(r.value.elts[1]))]
    if rets and len(hit) != len(rets):
      raise AnalysisError("_load_late_type_module: a return inside the loop is not `return <module>, <remainder>` "
                          "under `if <module>`")
    if not rets and any(isinstance(n, ast.Break) for n in walk_no_nested(loop)):
      raise AnalysisError("_load_late_type_module: the loop is left with `break`: not understood")
    ctx.check(bool(hit), "_load_late_type_module:first-hit-returns", LOAD, loop.lineno,
              "the loop does not return at the first importable prefix: a later (shorter) prefix can "
              "replace the module that was found", {"returns_in_loop": len(rets)})
  elif not peels_here:
    raise AnalysisError("_load_late_type_module: neither an index loop over the split name nor a "
                        "peel-from-the-right loop was found")
  # (b) while loops that peel a dotted name
  n_peel = 0
  for rel in (LOAD, VISITORS, SERIALIZE):
    mod = get_module(ctx, rel)
    seen = {}
    for loop, st, var, meth, idx, width in _peel_loops(mod):
      if idx != 0 and meth in _PEEL_LEFT and idx == width - 1:
        continue   # walks the suffixes of the name: not a prefix search
      q = getattr(mod.enclosing_function(loop), "name", "<module>")
      k = seen[q] = seen.get(q, 0) + 1
      ms = st.value.args[1] if len(st.value.args) > 1 else kwarg(st.value, "maxsplit")
      if meth in ("rsplit", "split") and try_fold(ms) != 1:
        raise AnalysisError(f"{rel}:{q}: {src(st)} unpacks a split without maxsplit=1")
      if idx != 0 and meth in _PEEL_RIGHT:
        raise AnalysisError(f"{rel}:{q}: {src(st)} keeps the last component in the loop variable")
      n_peel += 1
      ctx.check(meth in _PEEL_RIGHT and idx == 0, f"peel-loop:{rel.rsplit('/', 1)[-1]}:{q}" + (f"#{k}" if k > 1 else ""),
                rel, st.lineno,
                f"`{src(st)}` keeps the first component of `{var}`: the loop tries the shortest prefix "
                "(the top-level package) instead of walking from the longest prefix down",
                {"loop_variable": var, "method": meth, "kept_element": idx})
  if n_peel == 0:
    raise AnalysisError("no peel-from-the-right prefix loops found in load_pytd/visitors/serialize_ast")


# -- sensitivity suite ---------------------------------------------------------------

VARIANTS = [
    # R6.1
    {"name": "output-emits-intersection", "rule": "R6.1", "file": OUTPUT,
     "expect": "fire",
     "old": "      return pytd.UnionType(\n          tuple(\n              self.value_instance_to_pytd_type(node, t, instance, seen, view)\n              for t in v.options",
     "new": "      return pytd.IntersectionType(\n          tuple(\n              self.value_instance_to_pytd_type(node, t, instance, seen, view)\n              for t in v.options"},
    {"name": "convert-loses-literal-arm", "rule": "R6.1", "file": CONVERT,
     "expect": "fire",
     "old": "    elif isinstance(pyval, pytd.Literal):\n      value = self._get_literal_value(pyval.value, subst)\n      return abstract.LiteralClass(value, self.ctx)\n",
     "new": ""},
    {"name": "convert-loses-annotated-arm", "rule": "R6.1", "file": CONVERT,
     "expect": "fire",
     "old": "    elif isinstance(pyval, pytd.Annotated):\n      typ = self.constant_to_value(pyval.base_type, subst)\n      return self._apply_metadata_annotations(typ, pyval.annotations)\n",
     "new": ""},
    {"name": "new-node-emitted-without-consumer", "rule": "R6.1", "expect": "fire",
     "edits": [
         (PYTD, "class Annotated(Type):\n  base_type: TypeU\n",
          "class Unpacked(Type):\n  base_type: TypeU\n\n\nclass Annotated(Type):\n  base_type: TypeU\n"),
         (_c05.PRINTER, "  def VisitAnnotated(self, node):",
          "  def VisitUnpacked(self, node):\n    return f\"Unpack[{node.base_type}]\"\n\n  def VisitAnnotated(self, node):"),
         (OUTPUT, "      return pytd.NamedType(\"builtins.super\")",
          "      return pytd.Unpacked(pytd.NamedType(\"builtins.super\"))")]},
    {"name": "concatenate-arm-after-generic", "rule": "R6.1", "expect": "fire",
     "edits": [
         (CONVERT, "    elif isinstance(pyval, pytd.Concatenate):\n      params = [self.constant_to_value(p, subst) for p in pyval.parameters]\n      return abstract.Concatenate(params, self.ctx)\n", ""),
         (CONVERT, "    elif isinstance(pyval, pytd.Literal):\n      value = self._get_literal_value",
          "    elif isinstance(pyval, pytd.Concatenate):\n      params = [self.constant_to_value(p, subst) for p in pyval.parameters]\n      return abstract.Concatenate(params, self.ctx)\n    elif isinstance(pyval, pytd.Literal):\n      value = self._get_literal_value")]},
    {"name": "loader-stops-rejecting-namedtype", "rule": "R6.1", "file": VISITORS,
     "expect": "fire",
     "old": "  def EnterNamedType(self, node):\n    raise ValueError(f\"Unreplaced NamedType: {node.name!r}\")",
     "new": "  def EnterNamedType(self, node):\n    logging.warning(\"Unreplaced NamedType: %r\", node.name)"},
    {"name": "twin-merge-paramspec-args-arms", "rule": "R6.1", "file": CONVERT,
     "expect": "silent",
     "old": "    elif isinstance(pyval, (pytd.ParamSpecArgs, pytd.ParamSpecKwargs)):\n      # TODO(b/217789659): Support these.\n      return self.unsolvable\n",
     "new": "    elif isinstance(pyval, pytd.ParamSpecArgs):\n      return self.unsolvable\n    elif isinstance(pyval, pytd.ParamSpecKwargs):\n      return self.unsolvable\n"},
    {"name": "twin-independent-arms-reordered", "rule": "R6.1", "file": CONVERT,
     "expect": "silent",
     "old": "    elif isinstance(pyval, pytd.NothingType):\n      return self.empty\n    elif isinstance(pyval, pytd.AnythingType):\n      return self.unsolvable\n",
     "new": "    elif isinstance(pyval, pytd.AnythingType):\n      return self.unsolvable\n    elif isinstance(pyval, pytd.NothingType):\n      return self.empty\n"},
    # R6.2
    {"name": "output-loses-buildclass-arm", "rule": "R6.2", "file": OUTPUT,
     "expect": "fire",
     "old": "    elif isinstance(v, abstract.BuildClass):\n      return pytd.NamedType(\"typing.Callable\")\n",
     "new": ""},
    {"name": "output-loses-classmethod-arm", "rule": "R6.2", "file": OUTPUT,
     "expect": "fire",
     "old": "    elif isinstance(v, (abstract.ClassMethod, abstract.StaticMethod)):\n      return self.value_to_pytd_type(node, v.method, seen, view)\n",
     "new": "    elif isinstance(v, abstract.StaticMethod):\n      return self.value_to_pytd_type(node, v.method, seen, view)\n"},
    {"name": "def-loses-simplefunction-arm", "rule": "R6.2", "file": OUTPUT,
     "expect": "fire",
     "old": "    elif isinstance(v, abstract.SimpleFunction):\n      return self._simple_func_to_def(node, v, name)\n",
     "new": ""},
    {"name": "function-types-tuple-shrinks", "rule": "R6.2",
     "file": "pytype/abstract/abstract.py", "expect": "fire",
     "old": "FUNCTION_TYPES = (BoundFunction, Function)",
     "new": "FUNCTION_TYPES = (Function,)"},
    {"name": "twin-output-arm-covered-by-ancestor", "rule": "R6.2", "file": OUTPUT,
     "expect": "silent",
     "old": "    elif isinstance(\n        v, (special_builtins.IsInstance, special_builtins.ClassMethodCallable)\n    ):\n      return pytd.NamedType(\"typing.Callable\")\n",
     "new": "    elif isinstance(v, special_builtins.IsInstance):\n      return pytd.NamedType(\"typing.Callable\")\n    elif isinstance(v, special_builtins.ClassMethodCallable):\n      return pytd.NamedType(\"typing.Callable\")\n"},
    {"name": "twin-output-arms-merged-into-tuple", "rule": "R6.2", "file": OUTPUT,
     "expect": "silent",
     "old": "    elif isinstance(v, function.ParamSpecMatch):\n      return pytd.AnythingType()\n    elif isinstance(v, abstract.ParamSpecArgs):\n      return pytd.AnythingType()\n",
     "new": "    elif isinstance(v, (function.ParamSpecMatch, abstract.ParamSpecArgs)):\n      return pytd.AnythingType()\n"},
    # the dispatch flattened into early returns + trailing raise and continued in a helper method (C06-r4)
    {"name": "twin-benign-C06-r4-dispatch-as-early-returns-split-in-two", "rule": "R6.2",
     "patch": "benign/C06-r4/patch.diff", "expect": "silent"},
    {"name": "C06-r4+helper-loses-BuildClass-arm", "rule": "R6.2",
     "patch": "benign/C06-r4/defect_helper_loses_BuildClass_arm.diff", "expect": "fire"},
    {"name": "C06-r4+helper-arm-falls-through-to-raise", "rule": "R6.2",
     "patch": "benign/C06-r4/defect_helper_arm_falls_through.diff", "expect": "fire"},
    {"name": "C06-r4+tail-call-dropped", "rule": "R6.2",
     "patch": "benign/C06-r4/defect_tail_call_dropped.diff", "expect": "fire"},
    {"name": "C06-r4+def-loses-Unsolvable-arm", "rule": "R6.2",
     "patch": "benign/C06-r4/defect_def_loses_Unsolvable_arm.diff", "expect": "fire"},
    # R6.3
    {"name": "process_module-skips-fill", "rule": "R6.3", "file": LOAD,
     "expect": "fire",
     "old": "      module.ast.Visit(visitors.FillInLocalPointers(module_map))\n", "new": ""},
    {"name": "process_module-fill-only-for-named", "rule": "R6.3", "file": LOAD,
     "expect": "fire",
     "old": "      module.ast.Visit(visitors.FillInLocalPointers(module_map))\n",
     "new": "      if module_name:\n        module.ast.Visit(visitors.FillInLocalPointers(module_map))\n"},
    {"name": "process_module-transform-after-fill", "rule": "R6.3", "file": LOAD,
     "expect": "fire",
     "old": "      module.ast.Visit(visitors.FillInLocalPointers(module_map))\n",
     "new": "      module.ast.Visit(visitors.FillInLocalPointers(module_map))\n      module.ast = module.ast.Visit(visitors.ClearClassPointers())\n"},
    {"name": "process_module-swallows-failure", "rule": "R6.3", "file": LOAD,
     "expect": "fire",
     "old": "      del self._modules[module_name]\n      raise\n    if module_name:",
     "new": "      log.warning(\"half-resolved module %s\", module_name)\n    if module_name:"},
    {"name": "pickled-loader-skips-ProcessAst", "rule": "R6.3", "file": LOAD,
     "expect": "fire",
     "old": "      ast = serialize_ast.ProcessAst(loaded_ast, self._modules.get_module_map())",
     "new": "      ast = loaded_ast.ast"},
    {"name": "pickled-loader-early-return-raw-ast", "rule": "R6.3", "file": LOAD,
     "expect": "fire",
     "old": "    loaded_ast = serialize_ast.EnsureAstName(loaded_ast, module_name, fix=True)\n    self._modules[module_name] = Module(",
     "new": "    loaded_ast = serialize_ast.EnsureAstName(loaded_ast, module_name, fix=True)\n    if not dependencies:\n      return loaded_ast.ast\n    self._modules[module_name] = Module("},
    {"name": "ProcessAst-skips-local-fill", "rule": "R6.3", "file": SERIALIZE,
     "expect": "fire",
     "old": "  serializable_ast = FillLocalReferences(\n      serializable_ast,\n      {\n          \"\": serializable_ast.ast,\n          serializable_ast.ast.name: serializable_ast.ast,\n      },\n  )\n  return serializable_ast.ast",
     "new": "  return serializable_ast.ast"},
    {"name": "ProcessAst-local-before-external", "rule": "R6.3", "file": SERIALIZE,
     "expect": "fire",
     "old": "  serializable_ast = _LookupClassReferences(\n      serializable_ast, module_map, serializable_ast.ast.name\n  )\n  serializable_ast = serializable_ast.Replace(class_type_nodes=None)\n",
     "new": "  serializable_ast = serializable_ast.Replace(class_type_nodes=None)\n"},
    {"name": "FillLocalReferences-returns-early", "rule": "R6.3", "file": SERIALIZE,
     "expect": "fire",
     "old": "  if serializable_ast.class_type_nodes is None:\n    serializable_ast.ast.Visit(local_filler)\n    return serializable_ast.Replace(class_type_nodes=None)",
     "new": "  if serializable_ast.class_type_nodes is None:\n    return serializable_ast.Replace(class_type_nodes=None)"},
    {"name": "unpickle-skips-local-fill", "rule": "R6.3", "file": LOAD,
     "expect": "fire",
     "old": "    for loaded_ast in newly_loaded_asts:\n      serialize_ast.FillLocalReferences(loaded_ast, module_map)\n",
     "new": ""},
    {"name": "resolve-all-clears-flag-without-fill", "rule": "R6.3", "file": LOAD,
     "expect": "fire",
     "old": "      if module.has_unresolved_pointers:\n        self._resolve_classtype_pointers(module.ast)\n        module.has_unresolved_pointers = False",
     "new": "      if module.has_unresolved_pointers:\n        module.has_unresolved_pointers = False"},
    {"name": "builtins-typing-not-filled", "rule": "R6.3", "file": BUILTIN_STUBS,
     "expect": "fire",
     "old": "    t.Visit(visitors.FillInLocalPointers({\"\": t, \"typing\": t, \"builtins\": b}))\n",
     "new": ""},
    {"name": "twin-process_module-fill-bound-to-local", "rule": "R6.3", "file": LOAD,
     "expect": "silent",
     "old": "      module_map = {\"\": module.ast, module_name: module.ast}\n      module.ast.Visit(visitors.FillInLocalPointers(module_map))\n",
     "new": "      module.ast.Visit(\n          visitors.FillInLocalPointers({\"\": module.ast, module_name: module.ast})\n      )\n"},
    {"name": "twin-process_module-returns-alias", "rule": "R6.3", "file": LOAD,
     "expect": "silent",
     "old": "    if module_name:\n      self.add_module_prefixes(module_name)\n    return module.ast",
     "new": "    result = module.ast\n    if module_name:\n      self.add_module_prefixes(module_name)\n    return result"},
    {"name": "process_module-returns-input-ast", "rule": "R6.3", "file": LOAD,
     "expect": "fire",
     "old": "    if module_name:\n      self.add_module_prefixes(module_name)\n    return module.ast",
     "new": "    if module_name:\n      self.add_module_prefixes(module_name)\n    return mod_ast"},
    {"name": "twin-pickled-loader-flag-order", "rule": "R6.3", "file": LOAD,
     "expect": "silent",
     "old": "    self._modules[module_name].ast = ast\n    self._modules[module_name].pickle = None\n    self._modules[module_name].has_unresolved_pointers = False",
     "new": "    self._modules[module_name].has_unresolved_pointers = False\n    self._modules[module_name].pickle = None\n    self._modules[module_name].ast = ast"},
    # R6.3: the stores of PickledPyiLoader.load_module go through a once-bound local alias of the entry (C06-b3r1)
    {"name": "twin-benign-C06-b3r1-pickled-loader-entry-alias", "rule": "R6.3",
     "patch": "benign/C06-b3r1/patch.diff", "expect": "silent"},
    {"name": "twin-pickled-loader-entry-alias", "rule": "R6.3", "file": LOAD,
     "expect": "silent",
     "old": "    self._modules[module_name].ast = ast\n    self._modules[module_name].pickle = None\n    self._modules[module_name].has_unresolved_pointers = False",
     "new": "    module = self._modules[module_name]\n    module.ast = ast\n    module.pickle = None\n    module.has_unresolved_pointers = False"},
    {"name": "pickled-loader-entry-alias-stores-raw-ast", "rule": "R6.3", "file": LOAD,
     "expect": "fire",
     "old": "    self._modules[module_name].ast = ast\n    self._modules[module_name].pickle = None\n    self._modules[module_name].has_unresolved_pointers = False",
     "new": "    module = self._modules[module_name]\n    module.ast = loaded_ast.ast\n    module.pickle = None\n    module.has_unresolved_pointers = False"},
    {"name": "pickled-loader-entry-alias-stores-transformed-ast", "rule": "R6.3", "file": LOAD,
     "expect": "fire",
     "old": "    self._modules[module_name].ast = ast\n    self._modules[module_name].pickle = None\n    self._modules[module_name].has_unresolved_pointers = False",
     "new": "    ast = ast.Visit(visitors.ClearClassPointers())\n    module = self._modules[module_name]\n    module.ast = ast\n    module.pickle = None\n    module.has_unresolved_pointers = False"},
    {"name": "pickled-loader-entry-alias-rebound", "rule": "R6.3", "file": LOAD,
     "expect": "error",
     "old": "    self._modules[module_name].ast = ast\n    self._modules[module_name].pickle = None\n    self._modules[module_name].has_unresolved_pointers = False",
     "new": "    module = self._modules[module_name]\n    if mod_ast:\n      module = self._modules[mod_info.module_name]\n    module.ast = ast\n    module.pickle = None\n    module.has_unresolved_pointers = False"},
    {"name": "pickled-loader-entry-alias-bound-on-one-path", "rule": "R6.3", "file": LOAD,
     "expect": "error",
     "old": "    self._modules[module_name].ast = ast\n    self._modules[module_name].pickle = None\n    self._modules[module_name].has_unresolved_pointers = False",
     "new": "    if mod_ast:\n      module = self._modules[module_name]\n    module.ast = ast\n    module.pickle = None\n    module.has_unresolved_pointers = False"},
    {"name": "pickled-loader-entry-alias-stale-after-call", "rule": "R6.3", "file": LOAD,
     "expect": "error",
     "old": "    self._modules[module_name].ast = ast\n    self._modules[module_name].pickle = None\n    self._modules[module_name].has_unresolved_pointers = False",
     "new": "    module = self._modules[module_name]\n    self._load_ast_dependencies(dependencies, lookup_ast=mod_ast, lookup_ast_name=module_name)\n    module.ast = ast\n    module.pickle = None\n    module.has_unresolved_pointers = False"},
    {"name": "pickled-loader-entry-alias-stale-after-entry-replaced", "rule": "R6.3", "file": LOAD,
     "expect": "error",
     "old": "    self._modules[module_name].ast = ast\n    self._modules[module_name].pickle = None\n    self._modules[module_name].has_unresolved_pointers = False",
     "new": "    module = self._modules[module_name]\n    self._modules[module_name] = self._modules[mod_info.module_name]\n    module.ast = ast\n    module.pickle = None\n    module.has_unresolved_pointers = False"},
    {"name": "pickled-loader-entry-alias-key-rebound", "rule": "R6.3", "file": LOAD,
     "expect": "error",
     "old": "    self._modules[module_name].ast = ast\n    self._modules[module_name].pickle = None\n    self._modules[module_name].has_unresolved_pointers = False",
     "new": "    module = self._modules[module_name]\n    module_name = mod_info.module_name\n    module.ast = ast\n    module.pickle = None\n    module.has_unresolved_pointers = False"},
    # R6.3 on refactored shapes: the benign refactoring stays silent, the refactoring plus a defect fires
    {"name": "twin-benign-C06-r1-process_module-body-in-helper", "rule": "R6.3",
     "patch": "benign/C06-r1/patch.diff", "expect": "silent"},
    {"name": "C06-r1+helper-skips-fill", "rule": "R6.3",
     "patch": "benign/C06-r1/defect_helper_skips_fill.diff", "expect": "fire"},
    {"name": "C06-r1+helper-fill-only-for-named", "rule": "R6.3",
     "patch": "benign/C06-r1/defect_helper_fill_only_for_named.diff", "expect": "fire"},
    {"name": "C06-r1+helper-transform-after-fill", "rule": "R6.3",
     "patch": "benign/C06-r1/defect_helper_transform_after_fill.diff", "expect": "fire"},
    {"name": "C06-r1+caller-transform-after-helper", "rule": "R6.3",
     "patch": "benign/C06-r1/defect_caller_transform_after_helper.diff", "expect": "fire"},
    {"name": "C06-r1+helper-early-return", "rule": "R6.3",
     "patch": "benign/C06-r1/defect_helper_early_return.diff", "expect": "fire"},
    {"name": "C06-r1+helper-called-for-other-module", "rule": "R6.3",
     "patch": "benign/C06-r1/defect_helper_called_for_other_module.diff", "expect": "fire"},
    {"name": "twin-benign-C06-r2-ProcessAst-returns-fill-result-directly", "rule": "R6.3",
     "patch": "benign/C06-r2/patch.diff", "expect": "silent"},
    {"name": "C06-r2+ProcessAst-skips-local-fill", "rule": "R6.3",
     "patch": "benign/C06-r2/defect_ProcessAst_skips_local_fill.diff", "expect": "fire"},
    {"name": "C06-r2+ProcessAst-local-before-external", "rule": "R6.3",
     "patch": "benign/C06-r2/defect_ProcessAst_local_before_external.diff", "expect": "fire"},
    {"name": "C06-r2+ProcessAst-returns-unfilled-alias", "rule": "R6.3",
     "patch": "benign/C06-r2/defect_ProcessAst_returns_unfilled_alias.diff", "expect": "fire"},
    {"name": "C06-r2+FillLocalReferences-returns-early", "rule": "R6.3",
     "patch": "benign/C06-r2/defect_FillLocalReferences_returns_early.diff", "expect": "fire"},
    {"name": "twin-benign-C06-r3-constant_to_value-flattened", "rule": "R6.3",
     "patch": "benign/C06-r3/patch.diff", "expect": "silent"},
    {"name": "twin-ProcessAst-returns-fill-result-directly", "rule": "R6.3", "file": SERIALIZE,
     "expect": "silent",
     "old": "  serializable_ast = FillLocalReferences(\n      serializable_ast,\n      {\n          \"\": serializable_ast.ast,\n          serializable_ast.ast.name: serializable_ast.ast,\n      },\n  )\n  return serializable_ast.ast",
     "new": "  return FillLocalReferences(\n      serializable_ast,\n      {\n          \"\": serializable_ast.ast,\n          serializable_ast.ast.name: serializable_ast.ast,\n      },\n  ).ast"},
    # R6.4
    {"name": "output-property-marker-respelled", "rule": "R6.4", "file": OUTPUT,
     "expect": "fire",
     "old": "            typ = pytd.Annotated(typ, (\"'property'\",))",
     "new": "            typ = pytd.Annotated(typ, (\"'Property'\",))"},
    {"name": "convert-metadata-marker-respelled", "rule": "R6.4", "file": CONVERT,
     "expect": "fire",
     "old": "    if annotations[0] == \"'pytype_metadata'\":",
     "new": "    if annotations[0] == \"'pytype-metadata'\":"},
    {"name": "attr-tag-respelled-one-side", "rule": "R6.4", "file": CONVERT,
     "expect": "fire",
     "old": "        if md[\"tag\"] == \"attr.ib\":", "new": "        if md[\"tag\"] == \"attr.attrib\":"},
    {"name": "twin-convert-marker-via-local", "rule": "R6.4", "file": CONVERT,
     "expect": "silent",
     "old": "        elif md[\"tag\"] == \"attr.s\":\n          ret = attr_overlay.Attrs.from_metadata(self.ctx, md)\n          return ret",
     "new": "        elif md[\"tag\"] == \"attr.s\":\n          return attr_overlay.Attrs.from_metadata(self.ctx, md)"},
    # R6.5
    {"name": "output-typo-NotRequired", "rule": "R6.5", "file": OUTPUT, "expect": "fire",
     "old": "pytd.NamedType(\"typing.NotRequired\")", "new": "pytd.NamedType(\"typing.NotRequierd\")"},
    {"name": "output-builtins-function-type", "rule": "R6.5", "file": OUTPUT,
     "expect": "fire",
     "old": "      return pytd.NamedType(\"builtins.property\")",
     "new": "      return pytd.NamedType(\"builtins.Property\")"},
    {"name": "typing-pytd-drops-Required", "rule": "R6.5", "file": TYPING,
     "expect": "fire", "old": "class Required", "new": "class _Required"},
    {"name": "twin-output-other-defined-name", "rule": "R6.5", "file": OUTPUT,
     "expect": "silent",
     "old": "      return pytd.NamedType(\"builtins.super\")",
     "new": "      return pytd.NamedType(\"builtins.object\")"},
    # R6.1: a helper that does not exist is a violation, not an analysis error
    {"name": "pytd_utils-helper-renamed-one-side", "rule": "R6.1", "file": PYTD_UTILS,
     "expect": "fire", "old": "def MergeBaseClass(cls, base):", "new": "def MergeBase(cls, base):"},
    # R6.6
    {"name": "seeded-C06-m1", "rule": "R6.6", "patch": "seeded/C06-m1/patch.diff", "expect": "fire"},
    {"name": "late-type-prefixes-iterated-backwards", "rule": "R6.6", "file": LOAD, "expect": "fire",
     "old": "    for i in range(len(parts) - 1):", "new": "    for i in reversed(range(len(parts) - 1)):"},
    {"name": "late-type-top-level-module-never-tried", "rule": "R6.6", "file": LOAD, "expect": "fire",
     "old": "    for i in range(len(parts) - 1):", "new": "    for i in range(len(parts) - 2):"},
    {"name": "late-type-remainder-off-by-one", "rule": "R6.6", "file": LOAD, "expect": "fire",
     "old": "parts[-(i + 1) :]", "new": "parts[-i:]"},
    {"name": "late-type-last-importable-prefix-wins", "rule": "R6.6", "file": LOAD, "expect": "fire",
     "old": "      if ast := self._loader.import_name(\".\".join(module_parts)):\n        return ast, \".\".join(parts[-(i + 1) :])\n    return None, late_type.name",
     "new": "      if ast := self._loader.import_name(\".\".join(module_parts)):\n        found = ast, \".\".join(parts[-(i + 1) :])\n    return found"},
    {"name": "import-prefix-search-keeps-first-component", "rule": "R6.6", "file": LOAD, "expect": "fire",
     "old": "      prefix, _ = prefix.rsplit(\".\", 1)", "new": "      prefix, _ = prefix.split(\".\", 1)"},
    {"name": "local-pointer-lookup-keeps-first-component", "rule": "R6.6", "file": VISITORS, "expect": "fire",
     "old": "        module, _, _ = module.rpartition(\".\")", "new": "        module, _, _ = module.partition(\".\")"},
    {"name": "twin-late-type-descending-index", "rule": "R6.6", "expect": "silent",
     "edits": [(LOAD, "    for i in range(len(parts) - 1):", "    for i in range(len(parts) - 1, 0, -1):"),
               (LOAD, "parts[: -(i + 1)]", "parts[:i]"), (LOAD, "parts[-(i + 1) :]", "parts[i:]")]},
    {"name": "twin-late-type-reversed-range-with-local-length", "rule": "R6.6", "expect": "silent",
     "edits": [(LOAD, "    for i in range(len(parts) - 1):", "    n = len(parts)\n    for k in reversed(range(1, n)):"),
               (LOAD, "parts[: -(i + 1)]", "parts[0:k]"), (LOAD, "parts[-(i + 1) :]", "parts[k - n :]")]},
    {"name": "twin-late-type-peel-loop", "rule": "R6.6", "file": LOAD, "expect": "silent",
     "old": "    parts = late_type.name.split(\".\")\n    for i in range(len(parts) - 1):\n      module_parts = module_utils.strip_init_suffix(parts[: -(i + 1)])\n      if ast := self._loader.import_name(\".\".join(module_parts)):\n        return ast, \".\".join(parts[-(i + 1) :])\n    return None, late_type.name",
     "new": "    prefix, rest = late_type.name, []\n    while \".\" in prefix:\n      prefix, _, last = prefix.rpartition(\".\")\n      rest.insert(0, last)\n      module_parts = module_utils.strip_init_suffix(prefix.split(\".\"))\n      if ast := self._loader.import_name(\".\".join(module_parts)):\n        return ast, \".\".join(rest)\n    return None, late_type.name"},
    {"name": "twin-import-prefix-search-rpartition", "rule": "R6.6", "file": LOAD, "expect": "silent",
     "old": "      prefix, _ = prefix.rsplit(\".\", 1)", "new": "      prefix, _, _ = prefix.rpartition(\".\")"},
]
