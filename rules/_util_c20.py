"""Model execution for the C20 rules (no rules are defined here).

A small interpreter over the ast of functions of merge_pyi.py, run on
libcst-shaped model values.  Nothing of pytype or libcst is imported or run:
the interpreted text is the one `sa.pyindex` parsed, node classes and their
fields come from the libcst reference model of rules/c20.py.

Used by
* R20.22 / R20.23 (rules/c20_stub_classes.py): merge_sources and the callbacks
  of the local visitor/transformer classes are interpreted on a witness
  source/stub pair, following libcst's visit/leave protocol;
* R20.1 / R20.4 (rules/c20.py): merge_sources is interpreted with *abstract
  visits* (`.visit(<transformer>)` yields a fresh tree, `.visit(<read-only
  visitor>)` the receiver itself, no callback is run) to find out which tree
  is visited by which instance, wherever the statements sit (helper functions,
  loops over a tuple of instances, locals).  Every control decision taken
  outside a visitor callback is recorded in `branches`: a run without any is
  the only path through the pipeline, so what it shows holds for every input;
* R20.8 (rules/c20.py): the Any/Never predicate is evaluated on the node
  shapes the stub printer's spellings parse to.

What the interpreter does not model is an AnalysisError, never a verdict.
"""
import ast

from sa.core import AnalysisError
from sa.pyindex import dotted, src
from rules.provenance import bind_args


# -- model values -------------------------------------------------------------------

class _N:
  """A libcst-shaped model node."""
  __slots__ = ("cls", "fields")

  def __init__(self, cls, **fields):
    self.cls = cls
    self.fields = fields

  def __repr__(self):
    return f"<{self.cls}>"


class _Opaque:
  """A value the model knows nothing about."""
  __slots__ = ("what",)

  def __init__(self, what):
    self.what = what

  def __repr__(self):
    return f"<?{self.what}>"


class _Merged(_Opaque):
  """What _merge_csts returned."""
  __slots__ = ()


class _Code(_Opaque):
  """`<tree>.code`: the text of a tree (`of` is a model tree or a _Merged)."""
  __slots__ = ("of",)

  def __init__(self, of):
    super().__init__(f"code of {of!r}")
    self.of = of


class _Obj:
  """An instance of a class of merge_pyi.py (`ctor`: the call that made it)."""
  __slots__ = ("cname", "attrs", "ctor")

  def __init__(self, cname, ctor=None):
    self.cname = cname
    self.attrs = {}
    self.ctor = ctor


class _Cls:
  """A class of merge_pyi.py used as a value (`K.static_helper(..)`)."""
  __slots__ = ("cname",)

  def __init__(self, cname):
    self.cname = cname


class _Source:
  """The text of a module, standing for the tree it parses to."""
  __slots__ = ("tree", "name")

  def __init__(self, tree, name=None):
    self.tree = tree
    self.name = name


class _Remove:
  def __repr__(self):
    return "RemovalSentinel.REMOVE"


_REMOVE = _Remove()


class _Ret(Exception):
  def __init__(self, value):
    super().__init__()
    self.value = value


class _Loop(Exception):
  """`break` / `continue` on their way to the enclosing loop."""

  def __init__(self, kind):
    super().__init__()
    self.kind = kind


def _unmodelled(what):
  return AnalysisError(f"model execution of merge_sources: {what}")


_MUTATORS = {"add", "update", "append", "extend", "remove", "discard", "pop", "clear",
             "insert", "sort", "reverse", "setdefault", "popitem",
             "difference_update", "intersection_update", "symmetric_difference_update"}


def _decorators(fn):
  return [dotted(d.func if isinstance(d, ast.Call) else d) or src(d)
          for d in fn.decorator_list]


class _Interp:
  """Interprets functions of merge_pyi.py on model values."""

  def __init__(self, ctx, abstract_visits=False):
    from rules import c20 as base    # (rules/c20.py imports this module)
    self.base = base
    self.m = base._model(ctx)
    self.mod = self.m.mod
    self.model = base._cst(ctx)
    self.typer = base.Typer(self.model, self.mod, {})
    self.abstract_visits = abstract_visits
    self.captured = None
    self.captured_call = None
    self.merged = None
    self.steps = 0
    self.trace = []
    self.frames = []        # [(function def, self object | None)]
    self.visit_depth = 0
    self.branches = []      # control decisions taken outside visitor callbacks
    self.events = []        # one dict per `.visit(<local instance>)` executed
    self.lineage = {}       # id(tree) -> {"root": name of the parsed text} | {"parent", "event"}
    self.created = []       # every _Obj made, in order
    self.entered = []       # module-level functions the run went into
    self.called = set()     # ... and the call nodes that took it there
    self._literal = set()   # ids of sequences written as a display (fixed length)
    self._keep = []         # keeps model values alive so that ids stay unique
    self._consts = {}

  # -- calls ------------------------------------------------------------------------
  def call(self, fn, self_obj, args, kwargs=None):
    kwargs = dict(kwargs or {})
    a = fn.args
    if a.vararg or a.kwarg or a.posonlyargs:
      raise _unmodelled(f"{fn.name} has */** or positional-only parameters")
    params = [p.arg for p in a.args]
    env = {}
    if self_obj is not None:
      if not params:
        raise _unmodelled(f"method {fn.name} without self")
      env[params[0]] = self_obj
      params = params[1:]
    if len(args) > len(params):
      raise _unmodelled(f"too many arguments for {fn.name}")
    for p, v in zip(params, args):
      env[p] = v
    defaults = dict(zip([p.arg for p in a.args][len(a.args) - len(a.defaults):], a.defaults))
    for p, d in zip(a.kwonlyargs, a.kw_defaults):
      params.append(p.arg)
      if d is not None:
        defaults[p.arg] = d
    for k, v in kwargs.items():
      if k not in params or k in env:
        raise _unmodelled(f"{fn.name} has no free parameter {k}")
      env[k] = v
    for p in params:
      if p not in env:
        if p not in defaults:
          raise _unmodelled(f"{fn.name}: parameter {p} not given")
        env[p] = self.eval(defaults[p], {})
    self.frames.append((fn, self_obj))
    try:
      self.block(fn.body, env)
    except _Ret as r:
      return r.value
    finally:
      self.frames.pop()
    return None

  def call_method(self, cname, name, self_obj, args, kwargs, where):
    """`obj.name(..)` / `K.name(..)`: plain methods get the instance,
    @staticmethod ones do not; anything else decorated is not modelled."""
    meth = self.base._methods(self.mod, cname).get(name)
    if meth is None:
      raise _unmodelled(f"{cname} has no method {name}")
    decos = _decorators(meth)
    if decos == ["staticmethod"]:
      return self.call(meth, None, args, kwargs)
    if decos:
      raise _unmodelled(f"{cname}.{name} is decorated with {decos}")
    if self_obj is None:
      raise _unmodelled(f"`{src(where)[:50]}`: plain method called on the class")
    return self.call(meth, self_obj, args, kwargs)

  def new(self, cname, args, kwargs, ctor=None):
    obj = _Obj(cname, ctor)
    self.created.append(obj)
    init = self.base._methods(self.mod, cname).get("__init__")
    if init is not None:
      if _decorators(init):
        raise _unmodelled(f"{cname}.__init__ is decorated")
      self.call(init, obj, args, kwargs)
    elif args or kwargs:
      raise _unmodelled(f"{cname}(..) given arguments without __init__")
    return obj

  def super_call(self, e, args, kwargs):
    """`super().M(..)`: M of the next class in the module-local MRO after the
    class the running method is written in; libcst's own __init__ (no local
    class left) takes nothing and does nothing the model needs."""
    name = e.func.attr
    if not self.frames or self.frames[-1][1] is None:
      raise _unmodelled(f"`{src(e)[:50]}` outside a method")
    fn, obj = self.frames[-1]
    owner = self.mod.parent.get(fn)
    mro = self.base._local_mro(self.mod, obj.cname)
    if not isinstance(owner, ast.ClassDef) or owner.name not in mro:
      raise _unmodelled(f"`{src(e)[:50]}`: defining class not found")
    for k in mro[mro.index(owner.name) + 1:]:
      meth = self.mod.methods(k).get(name)
      if meth is not None:
        if _decorators(meth):
          raise _unmodelled(f"{k}.{name} is decorated")
        return self.call(meth, obj, args, kwargs)
    if name == "__init__":
      return None
    raise _unmodelled(f"`{src(e)[:50]}` reaches a libcst method")

  # -- libcst's traversal protocol --------------------------------------------------
  def root_of(self, tree):
    """Name of the parsed text a tree descends from (None: unknown)."""
    seen = 0
    while isinstance(tree, _N) and id(tree) in self.lineage and seen < 1000:
      rec = self.lineage[id(tree)]
      if "root" in rec:
        return rec["root"]
      tree = rec["parent"]
      seen += 1
    return None

  def chain_of(self, tree):
    """The visit events (oldest first) that produced `tree` from a parsed text."""
    out = []
    while isinstance(tree, _N) and id(tree) in self.lineage and len(out) < 1000:
      rec = self.lineage[id(tree)]
      if "root" in rec:
        break
      out.append(rec["event"])
      tree = rec["parent"]
    return out[::-1]

  def visit_tree(self, tree, obj, where=None):
    kind = self.m.kinds.get(obj.cname)
    if kind is None:
      raise _unmodelled(f"{obj.cname} is not a visitor/transformer class")
    methods = self.base._methods(self.mod, obj.cname)
    if not self.abstract_visits:
      for hook in ("on_visit", "on_leave", "on_visit_attribute", "on_leave_attribute"):
        if hook in methods:
          raise _unmodelled(f"{obj.cname} overrides {hook}")
    self.trace.append(f"{tree.cls}.visit({obj.cname})")
    if self.abstract_visits:
      out = _N(tree.cls, **tree.fields) if kind == "transformer" else tree
    else:
      self.visit_depth += 1
      try:
        out = self._visit(tree, obj, methods, kind)
      finally:
        self.visit_depth -= 1
      if out is _REMOVE:
        raise _unmodelled("the whole tree was removed")
    ev = {"call": where, "obj": obj, "kind": kind, "recv": tree, "result": out,
          "pipeline": self.visit_depth == 0}
    self.events.append(ev)
    if out is not tree:
      self._keep.append(out)
      self.lineage[id(out)] = {"parent": tree, "event": ev}
    return out

  def _visit(self, node, obj, methods, kind):
    vm = methods.get("visit_" + node.cls)
    descend = True
    if vm is not None:
      r = self.call(vm, obj, [node])
      if isinstance(r, _Opaque):
        raise _unmodelled(f"{obj.cname}.{vm.name} returns an unknown value")
      descend = r is None or bool(r)
    updated = node
    if descend:
      fields = {}
      for f, v in node.fields.items():
        if isinstance(v, _N):
          nv = self._visit(v, obj, methods, kind)
          if nv is _REMOVE:
            ft = self.model.field_type(node.cls, f)
            if ft is None or "None" not in ft:
              raise _unmodelled(f"required child {node.cls}.{f} removed")
            nv = None
          fields[f] = nv
        elif isinstance(v, (list, tuple)):
          out = []
          for c in v:
            if not isinstance(c, _N):
              out.append(c)
              continue
            nc = self._visit(c, obj, methods, kind)
            if nc is _REMOVE:
              continue
            # libcst drops a statement line whose last small statement went away
            if isinstance(nc, _N) and c.fields.get("body") and \
                isinstance(nc.fields.get("body"), (list, tuple)) and not nc.fields["body"]:
              continue
            out.append(nc)
          fields[f] = out
        else:
          fields[f] = v
      if kind == "transformer":
        updated = _N(node.cls, **fields)
    lm = methods.get("leave_" + node.cls)
    if kind == "visitor":
      if lm is not None:
        self.call(lm, obj, [node])
      return node          # libcst: leave_result = self
    if lm is None:
      return updated
    r = self.call(lm, obj, [node, updated])
    if not (isinstance(r, _N) or r is _REMOVE):
      raise _unmodelled(f"{obj.cname}.{lm.name} returns {r!r}")
    return r

  # -- statements -------------------------------------------------------------------
  def block(self, stmts, env):
    for s in stmts:
      self.stmt(s, env)

  def tick(self):
    self.steps += 1
    if self.steps > 200000:
      raise _unmodelled("step budget exhausted")

  def stmt(self, s, env):
    self.tick()
    if isinstance(s, ast.Return):
      raise _Ret(self.eval(s.value, env) if s.value is not None else None)
    if isinstance(s, ast.Expr):
      self.eval(s.value, env)
    elif isinstance(s, ast.Pass):
      pass
    elif isinstance(s, (ast.Break, ast.Continue)):
      raise _Loop("break" if isinstance(s, ast.Break) else "continue")
    elif isinstance(s, (ast.Assign, ast.AnnAssign)):
      if isinstance(s, ast.AnnAssign) and s.value is None:
        return
      v = self.eval(s.value, env)
      for t in (s.targets if isinstance(s, ast.Assign) else [s.target]):
        self.assign(t, v, env)
    elif isinstance(s, ast.AugAssign):
      cur = self.eval(s.target, env)
      v = self.eval(s.value, env)
      if isinstance(cur, int) and isinstance(v, int) and isinstance(s.op, (ast.Add, ast.Sub)):
        self.assign(s.target, cur + v if isinstance(s.op, ast.Add) else cur - v, env)
      elif isinstance(cur, list) and isinstance(v, (list, tuple)) and isinstance(s.op, ast.Add):
        cur.extend(v)
        self._grown(cur, v)
      else:
        raise _unmodelled(f"`{src(s)[:50]}`")
    elif isinstance(s, ast.If):
      self.block(s.body if self.truth(self.eval(s.test, env), s.test) else s.orelse, env)
    elif isinstance(s, ast.While):
      n = 0
      while self.truth(self.eval(s.test, env), s.test):
        n += 1
        if n > 500:
          raise _unmodelled("loop does not end on the witness")
        try:
          self.block(s.body, env)
        except _Loop as lp:
          if lp.kind == "break":
            break
      else:
        self.block(s.orelse, env)
    elif isinstance(s, ast.For):
      it = self.iterable(self.eval(s.iter, env), s.iter)
      for x in it:
        self.assign(s.target, x, env)
        try:
          self.block(s.body, env)
        except _Loop as lp:
          if lp.kind == "break":
            break
      else:
        self.block(s.orelse, env)
    elif isinstance(s, ast.Try):
      # a model run raises nothing: handlers are the paths of real failures
      self.block(s.body, env)
      self.block(s.orelse, env)
      self.block(s.finalbody, env)
    else:
      raise _unmodelled(f"statement `{src(s)[:50]}`")

  def _grown(self, seq, added):
    """A list written as a display keeps a length that does not depend on the
    input while it only grows outside visitor callbacks (where every control
    decision is recorded) by single elements or by such sequences."""
    if self.visit_depth or (added is not None and id(added) not in self._literal):
      self._literal.discard(id(seq))

  def iterable(self, it, where):
    if not isinstance(it, (list, tuple, set, frozenset)):
      raise _unmodelled(f"iteration over {it!r}")
    if self.visit_depth == 0 and id(it) not in self._literal:
      self.branches.append(f"iteration over the computed collection `{src(where)[:50]}`")
    if isinstance(it, (set, frozenset)):
      return sorted(it, key=repr)
    return list(it)

  def assign(self, t, v, env):
    if isinstance(t, ast.Name):
      env[t.id] = v
    elif isinstance(t, ast.Attribute):
      o = self.eval(t.value, env)
      if not isinstance(o, _Obj):
        raise _unmodelled(f"assignment to `{src(t)}`")
      o.attrs[t.attr] = v
    elif isinstance(t, (ast.Tuple, ast.List)) and isinstance(v, (list, tuple)) \
        and len(v) == len(t.elts) and not any(isinstance(e, ast.Starred) for e in t.elts):
      for e, x in zip(t.elts, v):
        self.assign(e, x, env)
    else:
      raise _unmodelled(f"assignment to `{src(t)}`")

  # -- expressions ------------------------------------------------------------------
  def truth(self, v, where, branch=True):
    if isinstance(v, _Opaque):
      raise _unmodelled(f"the test `{src(where)[:60]}` depends on {v!r}")
    if branch and self.visit_depth == 0:
      self.branches.append(f"`{src(where)[:60]}`")
    if isinstance(v, (_N, _Obj, _Source, _Cls)):
      return True
    return bool(v)

  def _libcst_name(self, d):
    """`cst.a.b` -> 'a.b' when the head is an import of libcst."""
    if not d or "." not in d:
      return None
    head, rest = d.split(".", 1)
    if self.mod.imports.get(head, "").split(".")[0] == "libcst":
      return rest
    return None

  def _constant_uses_ok(self, name, names_scope, attr_scope=None):
    """A constant is only read (compared against, iterated, indexed): `name`
    is never re-bound or mutated as a Name inside `names_scope`, nor as an
    attribute `.name` anywhere in `attr_scope`."""
    hits = []
    for n in ast.walk(names_scope):
      if isinstance(n, (ast.Global, ast.Nonlocal)) and name in n.names:
        return False
      if isinstance(n, ast.Name) and n.id == name:
        hits.append(n)
    if attr_scope is not None:
      hits += [n for n in ast.walk(attr_scope)
               if isinstance(n, ast.Attribute) and n.attr == name]
    for hit in hits:
      par = self.mod.parent.get(hit)
      if not isinstance(hit.ctx, ast.Load):
        if isinstance(hit, ast.Name) and isinstance(par, (ast.Assign, ast.AnnAssign)) \
            and self.mod.parent.get(par) is names_scope:
          continue     # the defining assignment (the caller saw there is one)
        return False
      if isinstance(par, ast.Attribute) and par.attr in _MUTATORS:
        return False
      if isinstance(par, ast.Subscript) and par.value is hit \
          and not isinstance(par.ctx, ast.Load):
        return False
    return True

  def _locals_of(self, fn):
    key = ("locals", fn)
    if key not in self._consts:
      out = set()
      todo = list(fn.body)
      while todo:
        n = todo.pop()
        if isinstance(n, (ast.FunctionDef, ast.AsyncFunctionDef, ast.ClassDef)):
          out.add(n.name)
          continue
        if isinstance(n, ast.Lambda):
          continue
        if isinstance(n, ast.Name) and not isinstance(n.ctx, ast.Load):
          out.add(n.id)
        elif isinstance(n, (ast.Global, ast.Nonlocal)):
          out -= set(n.names)
        elif isinstance(n, (ast.ListComp, ast.SetComp, ast.DictComp, ast.GeneratorExp)):
          # comprehension targets are local to the comprehension
          todo.extend(g.iter for g in n.generators)
          continue
        todo.extend(ast.iter_child_nodes(n))
      self._consts[key] = out
    return self._consts[key]

  def module_constant(self, name):
    """Value of a name bound exactly once, at the top level of the module, to
    an expression the interpreter can evaluate; None (not a value: a marker)
    when `name` is not such a constant."""
    key = ("mod", name)
    if key not in self._consts:
      self._consts[key] = None
      binds = []
      for st in ast.walk(self.mod.tree):
        if isinstance(st, (ast.FunctionDef, ast.AsyncFunctionDef, ast.ClassDef)) \
            and st.name == name:
          binds.append(st)
        elif isinstance(st, ast.Name) and st.id == name and not isinstance(st.ctx, ast.Load):
          binds.append(st)
        elif isinstance(st, ast.alias) and (st.asname or st.name.split(".")[0]) == name:
          binds.append(st)
        elif isinstance(st, ast.arg) and st.arg == name:
          binds.append(st)
      top = [st for st in self.mod.tree.body
             if isinstance(st, (ast.Assign, ast.AnnAssign)) and st.value is not None
             and any(isinstance(t, ast.Name) and t.id == name for t in (
                 st.targets if isinstance(st, ast.Assign) else [st.target]))]
      if len(binds) == 1 and len(top) == 1 and self._constant_uses_ok(name, self.mod.tree):
        self._consts[key] = (self.eval(top[0].value, {}),)
    return self._consts[key]

  def class_constant(self, cname, attr):
    """Value of `attr` bound once in the body of a class on the module-local
    MRO of `cname` (and nowhere assigned through an instance), or None."""
    key = (cname, attr)
    if key not in self._consts:
      self._consts[key] = None
      for k in self.base._local_mro(self.mod, cname):
        cdef = self.mod.classes[k]
        hits = [st for st in cdef.body
                if isinstance(st, (ast.Assign, ast.AnnAssign)) and st.value is not None
                and any(isinstance(t, ast.Name) and t.id == attr for t in (
                    st.targets if isinstance(st, ast.Assign) else [st.target]))]
        if not hits:
          continue
        stores = [n for n in ast.walk(self.mod.tree) if isinstance(n, ast.Attribute)
                  and n.attr == attr and not isinstance(n.ctx, ast.Load)]
        if len(hits) == 1 and not stores and self._constant_uses_ok(attr, cdef, self.mod.tree):
          self._consts[key] = (self.eval(hits[0].value, {}),)
        break
    return self._consts[key]

  def eval(self, e, env):
    self.tick()
    if isinstance(e, ast.Constant):
      return e.value
    if isinstance(e, ast.Name):
      if e.id in env:
        return env[e.id]
      if e.id in self.mod.classes:
        return _Cls(e.id)
      if self.frames and e.id in self._locals_of(self.frames[-1][0]):
        raise _unmodelled(f"local `{e.id}` of {self.frames[-1][0].name} is read before it "
                          "is bound")
      c = self.module_constant(e.id)
      if c is not None:
        return c[0]
      return _Opaque(e.id)
    if isinstance(e, ast.JoinedStr):
      return _Opaque("str")
    if isinstance(e, (ast.List, ast.Tuple, ast.Set)):
      if any(isinstance(x, ast.Starred) for x in e.elts):
        raise _unmodelled(f"`{src(e)[:50]}`")
      vals = [self.eval(x, env) for x in e.elts]
      if isinstance(e, ast.Set):
        if any(isinstance(x, (_Opaque, _N, _Obj, list, set)) for x in vals):
          raise _unmodelled(f"`{src(e)[:50]}`")
        return set(vals)
      out = vals if isinstance(e, ast.List) else tuple(vals)
      self._keep.append(out)
      self._literal.add(id(out))
      return out
    if isinstance(e, ast.Attribute):
      lib = self._libcst_name(dotted(e))
      if lib is not None and not (isinstance(e.value, ast.Name) and e.value.id in env):
        if lib.endswith("RemovalSentinel.REMOVE"):
          return _REMOVE
        return _Opaque(lib)
      o = self.eval(e.value, env)
      if isinstance(o, _N):
        if e.attr in o.fields:
          return o.fields[e.attr]
        if o.cls == "Module" and e.attr == "code":
          return _Code(o)
        if self.model.field_type(o.cls, e.attr) is None:
          raise _unmodelled(f"{o.cls} has no field {e.attr}")
        return _Opaque(f"{o.cls}.{e.attr}")
      if isinstance(o, (_Obj, _Cls)):
        if isinstance(o, _Obj) and e.attr in o.attrs:
          return o.attrs[e.attr]
        c = self.class_constant(o.cname, e.attr)
        if c is not None:
          return c[0]
        raise _unmodelled(f"{o.cname} instance has no attribute {e.attr} yet")
      if isinstance(o, _Merged) and e.attr == "code":
        return _Code(o)
      if isinstance(o, _Opaque):
        return _Opaque(f"{o.what}.{e.attr}")
      raise _unmodelled(f"attribute `{src(e)[:50]}` of {o!r}")
    if isinstance(e, ast.BoolOp):
      v = None
      for x in e.values:
        v = self.eval(x, env)
        t = self.truth(v, x)
        if isinstance(e.op, ast.And) and not t:
          return v
        if isinstance(e.op, ast.Or) and t:
          return v
      return v
    if isinstance(e, ast.UnaryOp) and isinstance(e.op, ast.Not):
      return not self.truth(self.eval(e.operand, env), e.operand, branch=False)
    if isinstance(e, ast.IfExp):
      return self.eval(e.body if self.truth(self.eval(e.test, env), e.test) else e.orelse, env)
    if isinstance(e, ast.Compare):
      left = self.eval(e.left, env)
      for op, r in zip(e.ops, e.comparators):
        right = self.eval(r, env)
        res = self.compare(op, left, right, e)
        if isinstance(res, _Opaque) or not res:
          return res
        left = right
      return True
    if isinstance(e, ast.Subscript) and isinstance(e.ctx, ast.Load) and not isinstance(e.slice, ast.Slice):
      seq, k = self.eval(e.value, env), self.eval(e.slice, env)
      if isinstance(seq, (list, tuple)) and isinstance(k, int) and not isinstance(k, bool):
        if -len(seq) <= k < len(seq):
          return seq[k]
        raise _unmodelled(f"`{src(e)[:50]}`: index {k} out of range (the run would end in an exception)")
      if isinstance(seq, _Opaque) or isinstance(k, _Opaque):
        return _Opaque(src(e)[:40])
      raise _unmodelled(f"expression `{src(e)[:50]}`")
    if isinstance(e, (ast.ListComp, ast.GeneratorExp)):
      # a generator expression is evaluated eagerly: its consumers in the modelled code (unpacking, any/all,
      # tuple/list, a for loop) read it once, front to back, and element expressions have no modelled effects
      return self.comp(e, env)
    if isinstance(e, ast.BinOp) and isinstance(e.op, (ast.Add, ast.Sub)):
      a, b = self.eval(e.left, env), self.eval(e.right, env)
      if isinstance(a, _Opaque) or isinstance(b, _Opaque):
        return _Opaque(src(e)[:40])
      if isinstance(a, int) and isinstance(b, int):
        return a + b if isinstance(e.op, ast.Add) else a - b
      if isinstance(e.op, ast.Add) and (
          (isinstance(a, list) and isinstance(b, list))
          or (isinstance(a, tuple) and isinstance(b, tuple))
          or (isinstance(a, str) and isinstance(b, str))):
        out = a + b
        if not isinstance(out, str) and id(a) in self._literal and id(b) in self._literal:
          self._keep.append(out)
          self._literal.add(id(out))
        return out
      raise _unmodelled(f"expression `{src(e)[:50]}`")
    if isinstance(e, ast.Call):
      return self.eval_call(e, env)
    raise _unmodelled(f"expression `{src(e)[:50]}`")

  def compare(self, op, a, b, where):
    if isinstance(op, (ast.Is, ast.IsNot)):
      if isinstance(a, _Opaque) or isinstance(b, _Opaque):
        if a is None or b is None:
          return _Opaque("is-None of unknown")
        return _Opaque("identity of unknown")
      return (a is b) == isinstance(op, ast.Is)
    if isinstance(a, _Opaque) or isinstance(b, _Opaque):
      return _Opaque(src(where)[:40])
    if isinstance(op, (ast.In, ast.NotIn)):
      if not isinstance(b, (set, frozenset, list, tuple, str, dict)):
        raise _unmodelled(f"membership in {b!r}")
      if isinstance(b, (set, frozenset, dict)) and isinstance(a, (_N, _Obj, list)):
        raise _unmodelled(f"membership of {a!r}")
      if isinstance(b, (list, tuple)) and any(isinstance(x, _Opaque) for x in b):
        raise _unmodelled(f"membership in a collection of unknown values")
      return (a in b) == isinstance(op, ast.In)
    if isinstance(op, (ast.Eq, ast.NotEq)):
      if isinstance(a, (_N, _Obj)) or isinstance(b, (_N, _Obj)):
        raise _unmodelled("comparison of nodes")
      return (a == b) == isinstance(op, ast.Eq)
    raise _unmodelled(f"comparison `{src(where)[:50]}`")

  def comp(self, e, env):
    out = []
    fixed = [True]

    def rec(i, env):
      if i == len(e.generators):
        out.append(self.eval(e.elt, env))
        return
      g = e.generators[i]
      seq = self.eval(g.iter, env)
      if id(seq) not in self._literal:
        fixed.clear()
      for x in self.iterable(seq, g.iter):
        env2 = dict(env)
        self.assign(g.target, x, env2)
        if all(self.truth(self.eval(c, env2), c) for c in g.ifs):
          rec(i + 1, env2)
    rec(0, env)
    if fixed and not any(g.ifs for g in e.generators):
      self._keep.append(out)
      self._literal.add(id(out))
    return out

  def eval_call(self, e, env):
    if any(isinstance(a, ast.Starred) for a in e.args) or any(k.arg is None for k in e.keywords):
      raise _unmodelled(f"call `{src(e)[:50]}` with */**")
    f = e.func
    args = [self.eval(a, env) for a in e.args]
    kwargs = {k.arg: self.eval(k.value, env) for k in e.keywords}
    if isinstance(f, ast.Attribute) and isinstance(f.value, ast.Call) and \
        isinstance(f.value.func, ast.Name) and f.value.func.id == "super" \
        and "super" not in env and not f.value.args and not f.value.keywords:
      return self.super_call(e, args, kwargs)
    if isinstance(f, ast.Name) and f.id not in env:
      if f.id == "isinstance" and len(args) == 2:
        return self.isinstance_(e, args[0])
      if f.id in ("set", "list", "tuple", "frozenset") and not kwargs and len(args) <= 1:
        make = {"set": set, "list": list, "tuple": tuple, "frozenset": frozenset}[f.id]
        if not args:
          return make()
        if isinstance(args[0], (list, tuple, set, frozenset)) and not any(
            isinstance(x, (_Opaque, list)) for x in args[0]):
          out = make(args[0])
          if isinstance(out, (list, tuple)) and id(args[0]) in self._literal:
            self._keep.append(out)
            self._literal.add(id(out))
          return out
        raise _unmodelled(f"`{src(e)[:50]}`")
      if f.id == "len" and len(args) == 1 and isinstance(args[0], (list, tuple, set, frozenset, str)):
        return len(args[0])
      if f.id == "bool" and len(args) == 1:
        return self.truth(args[0], e, branch=False)
      if f.id in ("getattr", "hasattr") and len(args) in (2, 3) and not kwargs \
          and isinstance(args[0], _Obj) and isinstance(args[1], str):
        if f.id == "hasattr":
          return args[1] in args[0].attrs
        if args[1] in args[0].attrs:
          return args[0].attrs[args[1]]
        if len(args) == 3:
          return args[2]
        raise _unmodelled(f"`{src(e)[:50]}`: attribute not set")
      if f.id in self.m.classes:
        return self.new(f.id, args, kwargs, ctor=e)
      if f.id == self.m.mc.name and f.id in self.mod.functions:
        if self.captured is not None:
          raise _unmodelled(f"{f.id} is called more than once")
        bound = bind_args(e, self.m.mc)
        self.captured = {p: self.eval(v, env) for p, v in bound.items()}
        self.captured_call = e
        self.merged = _Merged("merged tree")
        return self.merged
      if f.id in self.mod.functions:
        fn = self.mod.functions[f.id]
        if _decorators(fn):
          raise _unmodelled(f"{f.id} is decorated")
        self.called.add(e)
        if fn not in self.entered:
          self.entered.append(fn)
        return self.call(fn, None, args, kwargs)
      return _Opaque(f"{f.id}(..)")
    if isinstance(f, ast.Attribute):
      lib = self._libcst_name(dotted(f))
      if lib is not None and not (isinstance(f.value, ast.Name) and f.value.id in env):
        if lib == "parse_module" and len(args) == 1 and not kwargs:
          if isinstance(args[0], _Source):
            tree = args[0].tree
            self.lineage.setdefault(id(tree), {"root": args[0].name})
            return tree
          raise _unmodelled(f"parse_module of {args[0]!r}")
        if lib.endswith("RemoveFromParent") and not args:
          return _REMOVE
        built = self.typer.node_class(f)
        if built is not None:
          order = self.model.init_order(built) if args else []
          if len(args) > len(order):
            raise _unmodelled(f"too many positional arguments for {built}")
          fields = dict(zip(order, args))
          for k, v in kwargs.items():
            if k in fields or self.model.field_type(built, k) is None:
              raise _unmodelled(f"{built}({k}=..)")
            fields[k] = v
          return _N(built, **fields)
        return _Opaque(f"{lib}(..)")
      o = self.eval(f.value, env)
      if isinstance(o, _Obj):
        return self.call_method(o.cname, f.attr, o, args, kwargs, e)
      if isinstance(o, _Cls):
        return self.call_method(o.cname, f.attr, None, args, kwargs, e)
      if isinstance(o, _N):
        if f.attr == "with_changes" and not args:
          for k in kwargs:
            if self.model.field_type(o.cls, k) is None:
              raise _unmodelled(f"{o.cls}.with_changes({k}=..)")
          return _N(o.cls, **{**o.fields, **kwargs})
        if f.attr == "visit" and len(args) == 1 and not kwargs:
          if isinstance(args[0], _Obj):
            return self.visit_tree(o, args[0], e)
          raise _unmodelled(f"`{src(e)[:60]}`: visitor {args[0]!r} is not modelled")
        if f.attr in ("deep_replace", "deep_remove", "with_deep_changes"):
          raise _unmodelled(f"`{src(e)[:60]}`")
        return _Opaque(f"{o.cls}.{f.attr}(..)")
      if isinstance(o, (set, list)) and not kwargs:
        if isinstance(o, set) and f.attr in ("add", "discard") and len(args) == 1:
          if isinstance(args[0], (_Opaque, _N, _Obj, list)):
            raise _unmodelled(f"`{src(e)[:50]}` with {args[0]!r}")
          getattr(o, f.attr)(args[0])
          return None
        if isinstance(o, set) and f.attr == "update" and len(args) == 1 and \
            isinstance(args[0], (set, frozenset, list, tuple)):
          o.update(args[0])
          return None
        if isinstance(o, list) and f.attr == "append" and len(args) == 1:
          o.append(args[0])
          self._grown(o, None)
          return None
        if isinstance(o, list) and f.attr == "extend" and len(args) == 1 and \
            isinstance(args[0], (list, tuple)):
          o.extend(args[0])
          self._grown(o, args[0])
          return None
        raise _unmodelled(f"`{src(e)[:50]}`")
      if isinstance(o, _Opaque):
        return _Opaque(f"{o.what}.{f.attr}(..)")
      if isinstance(o, str) and f.attr in ("startswith", "endswith") and len(args) == 1 \
          and isinstance(args[0], (str, tuple)):
        return getattr(o, f.attr)(args[0])
      raise _unmodelled(f"call `{src(e)[:50]}` on {o!r}")
    raise _unmodelled(f"call `{src(e)[:50]}`")

  def isinstance_(self, e, subject):
    targets = e.args[1].elts if isinstance(e.args[1], ast.Tuple) else [e.args[1]]
    classes = [self.typer.node_class(t) for t in targets]
    if not all(classes):
      if isinstance(subject, _N):
        raise _unmodelled(f"`{src(e)[:50]}`")
      return _Opaque(src(e)[:40])
    if isinstance(subject, _Opaque):
      return _Opaque(src(e)[:40])
    if not isinstance(subject, _N):
      return False
    return any(subject.cls in self.model.cone(c) for c in classes)


# -- model node builders --------------------------------------------------------------

def _name(v):
  return _N("Name", value=v)


def _dotted(*parts):
  node = _name(parts[0])
  for p in parts[1:]:
    node = _N("Attribute", value=node, attr=_name(p))
  return node
