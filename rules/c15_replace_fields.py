"""C15 extension R15.25 (D59): `X.Replace(f=...)` names a field of every class X can be.

pytd nodes are msgspec structs; `Node.Replace(**kw)` is
`msgspec.structs.replace`, which raises TypeError for a keyword that is not a
*field* of the receiver's class - a `name` property (GenericType.name) is not
one.  Such a TypeError is not caught anywhere on the way out of
`io.generate_pyi`, so a compilable program whose analysis reaches the call
with the wrong node class crashes instead of producing a result (C15).

The rule types the receiver of every `.Replace(...)` call in pytype/ from
facts in the source only:

  * the node parameter of a visitor method `VisitX/EnterX/LeaveX` is an X;
  * a parameter annotated with pytd classes, `cast(pytd.X, ..)`;
  * attribute chains through the *declared field types* of the pytd schema
    (`sig.params[0].type`: Signature.params is tuple[Parameter, ...],
    Parameter.type is TypeU), loop/comprehension targets over tuple fields,
    once-bound locals, and parameters of nested functions through their call
    sites in the enclosing function;
  * narrowed by the `isinstance` tests on the path and by attribute reads of
    the same name that dominate the call (a class without that attribute
    would already have raised).

A receiver whose type cannot be derived is not judged (counted in the facts).
Every judged call must name, for each class left, a field of that class.
"""
import ast
import re

from sa.core import rule, AnalysisError
from sa.pyindex import get_module, dotted, src, all_py_files, walk_no_nested
from sa import flow
from rules._pytd_schema import get_schema
from rules.provenance import ReachingDefs, strip_iter_wrappers

_VISIT = re.compile(r"^(Visit|Enter|Leave)([A-Z]\w*)$")


class _T:
  """A static type: a set of pytd node class names, or a sequence of them."""

  def __init__(self, classes, seq=False):
    self.classes = frozenset(classes)
    self.seq = seq


def _strip(ann):
  """Annotation with `pytd.`/`node.` prefixes and string quotes removed."""
  if isinstance(ann, ast.Constant) and isinstance(ann.value, str):
    try:
      return _strip(ast.parse(ann.value, mode="eval").body)
    except SyntaxError:
      return None
  return ann


def _ann_type(schema, ann):
  ann = _strip(ann)
  if ann is None:
    return None
  if isinstance(ann, ast.BinOp) and isinstance(ann.op, ast.BitOr):
    parts = [_ann_type(schema, ann.left), _ann_type(schema, ann.right)]
    parts = [p for p in parts if p is not None]
    if len(parts) == 1:
      return parts[0]
    if len(parts) == 2 and parts[0].seq == parts[1].seq:
      return _T(parts[0].classes | parts[1].classes, parts[0].seq)
    return None
  if isinstance(ann, ast.Subscript):
    base = (dotted(ann.value) or "").split(".")[-1]
    elts = ann.slice.elts if isinstance(ann.slice, ast.Tuple) else [ann.slice]
    if base in ("tuple", "Tuple", "list", "List", "Sequence"):
      cl = set()
      for e in elts:
        if isinstance(e, ast.Constant) and e.value is Ellipsis:
          continue
        t = _ann_type(schema, e)
        if t is None or t.seq:
          return None
        cl |= t.classes
      return _T(cl, True) if cl else None
    if base == "Optional":
      return _ann_type(schema, elts[0])
    if base == "Union":
      ts = [_ann_type(schema, e) for e in elts]
      ts = [t for t in ts if t is not None]
      if ts and not any(t.seq for t in ts):
        return _T(set().union(*[t.classes for t in ts]))
    return None
  d = dotted(ann)
  if d is None:
    return None
  parts = d.split(".")
  if len(parts) > 2 or (len(parts) == 2 and parts[0] not in ("pytd", "node")):
    return None
  last = parts[-1]
  try:
    if last in schema.classes:
      cl = {c for c in [last] + schema.subclasses(last) if not schema.is_abstract(c)}
      return _T(cl) if cl else None
    if last in schema.aliases:
      nodes, _ = schema.expand(schema.aliases[last])
      return _T(nodes) if nodes else None
  except AnalysisError:
    return None
  return None


def _members(schema, cname):
  """Attribute names readable on an instance of cname (fields, methods,
  properties, class variables), inherited ones included."""
  out = set(schema.fields(cname))
  for c in [cname] + schema.ancestors(cname):
    for st in schema.classes[c].node.body:
      if isinstance(st, (ast.FunctionDef, ast.AsyncFunctionDef)):
        out.add(st.name)
      elif isinstance(st, ast.AnnAssign) and isinstance(st.target, ast.Name):
        out.add(st.target.id)
      elif isinstance(st, ast.Assign):
        out |= {t.id for t in st.targets if isinstance(t, ast.Name)}
  return out


class _Unknown(Exception):
  """A guard narrows the receiver in a way that is not modelled."""


class _Typer:
  def __init__(self, schema, mod):
    self.schema, self.mod = schema, mod
    self._rds = {}

  def _fn_of(self, node):
    return self.mod.enclosing_function(node)

  def _param_type(self, fn, name, depth=0):
    args = fn.args.posonlyargs + fn.args.args + fn.args.kwonlyargs
    idx = next((i for i, a in enumerate(args) if a.arg == name), None)
    if idx is None:
      return None
    a = args[idx]
    if a.annotation is not None:
      t = _ann_type(self.schema, a.annotation)
      if t is not None:
        return t
    m = _VISIT.match(fn.name)
    par = self.mod.parent.get(fn)
    if m and isinstance(par, ast.ClassDef) and idx == 1 and m.group(2) in self.schema.classes:
      return _T({m.group(2)})
    # a nested function: join over its call sites in the enclosing function
    par = self.mod.enclosing_function(fn)
    if isinstance(par, (ast.FunctionDef, ast.AsyncFunctionDef)) and not fn.decorator_list:
      calls = [c for c in ast.walk(par) if isinstance(c, ast.Call)
               and isinstance(c.func, ast.Name) and c.func.id == fn.name]
      others = [n for n in ast.walk(par) if isinstance(n, ast.Name) and n.id == fn.name
                and not any(c.func is n for c in calls)]
      if not calls or others:
        return None
      cl, seq = set(), None
      for c in calls:
        if idx >= len(c.args) or any(isinstance(x, ast.Starred) for x in c.args):
          return None
        t = self.type_of(c.args[idx], depth + 1)
        if t is None or (seq is not None and seq != t.seq):
          return None
        seq = t.seq
        cl |= t.classes
      return _T(cl, seq)
    return None

  def _rd(self, fn):
    if fn not in self._rds:
      try:
        self._rds[fn] = ReachingDefs(self.mod, fn)
      except AnalysisError:
        self._rds[fn] = None
    return self._rds[fn]

  def _binding(self, name_node, depth=0):
    """Type of a Name: the join over the definitions that reach this use."""
    fn = self._fn_of(name_node)
    if fn is None or isinstance(fn, ast.Lambda):
      return None
    rd = self._rd(fn)
    if rd is None:
      return None
    try:
      defs = rd.defs_of(name_node)
    except AnalysisError:
      return None
    if not defs:
      return None
    cl, seq = set(), None
    for d in defs:
      if d.kind == "param":
        t = self._param_type(fn, d.name, depth)
      elif d.kind in ("assign", "walrus") and not d.path:
        if isinstance(d.value, ast.Name) and depth < 12:
          cl_ = self.narrowed_at(d.value, d.value, depth + 1)
          t = _T(cl_) if cl_ is not None else None
        else:
          t = self.type_of(d.value, depth + 1)
      elif d.kind in ("for", "comp") and not d.path:
        it = self.type_of(strip_iter_wrappers(d.value), depth + 1)
        t = _T(it.classes) if it is not None and it.seq else None
      else:
        t = None
      if t is None or (seq is not None and seq != t.seq):
        return None
      seq = t.seq
      cl |= t.classes
    return _T(cl, seq)

  def type_of(self, e, depth=0):
    if depth > 16:
      return None
    if isinstance(e, ast.Name):
      return self._binding(e, depth)
    if isinstance(e, ast.Call) and (dotted(e.func) or "").split(".")[-1] == "cast" and len(e.args) == 2:
      return _ann_type(self.schema, e.args[0])
    if isinstance(e, ast.Call) and isinstance(e.func, ast.Attribute) and e.func.attr == "Replace":
      return self.type_of(e.func.value, depth + 1)      # Replace returns the same class
    if isinstance(e, ast.Attribute):
      base = self.type_of(e.value, depth + 1)
      if base is None or base.seq:
        return None
      cl, seq = set(), None
      for c in base.classes:
        f = self.schema.fields(c).get(e.attr)
        if f is None:
          if e.attr in _members(self.schema, c):
            return None          # a property / method: not typed
          continue               # the class has no such attribute: it would raise
        t = _ann_type(self.schema, f[0])
        if t is None or (seq is not None and seq != t.seq):
          return None
        seq = t.seq
        cl |= t.classes
      return _T(cl, seq) if cl else None
    if isinstance(e, ast.Subscript):
      base = self.type_of(e.value, depth + 1)
      if base is not None and base.seq and not isinstance(e.slice, ast.Slice):
        return _T(base.classes)
      if base is not None and base.seq:
        return base
      return None
    return None

  # -- narrowing --------------------------------------------------------------
  def _isinstance(self, test, pol, name):
    """(classes kept, classes removed) asserted by test with polarity pol."""
    while isinstance(test, ast.UnaryOp) and isinstance(test.op, ast.Not):
      test, pol = test.operand, not pol
    if isinstance(test, ast.BoolOp):
      if (isinstance(test.op, ast.Or) and pol) or (isinstance(test.op, ast.And) and not pol):
        # a disjunction narrows to the union of what its arms narrow to
        keeps = [self._isinstance(v, pol, name)[0] for v in test.values]
        if any(k is None for k in keeps):
          return None, set()
        return set().union(*keeps), set()
      if (isinstance(test.op, ast.And) and pol) or (isinstance(test.op, ast.Or) and not pol):
        keep, drop = None, set()
        for v in test.values:
          k, d = self._isinstance(v, pol, name)
          if k is not None:
            keep = k if keep is None else keep & k
          drop |= d
        return keep, drop
      return None, set()
    # `type(x) is C` / `type(x) == C` / `x.__class__ is C`
    if isinstance(test, ast.Compare) and len(test.ops) == 1 and \
        isinstance(test.ops[0], (ast.Is, ast.Eq, ast.IsNot, ast.NotEq)):
      lhs = test.left
      subject = None
      if isinstance(lhs, ast.Call) and dotted(lhs.func) == "type" and len(lhs.args) == 1 \
          and isinstance(lhs.args[0], ast.Name):
        subject = lhs.args[0].id
      elif isinstance(lhs, ast.Attribute) and lhs.attr == "__class__" and isinstance(lhs.value, ast.Name):
        subject = lhs.value.id
      if subject == name:
        t = _ann_type(self.schema, test.comparators[0])
        if t is None or t.seq:
          raise _Unknown()
        same = isinstance(test.ops[0], (ast.Is, ast.Eq)) == pol
        return (set(t.classes), set()) if same else (None, set())
    if isinstance(test, ast.Call) and dotted(test.func) == "isinstance" and len(test.args) == 2 \
        and isinstance(test.args[0], ast.Name) and test.args[0].id == name:
      spec = test.args[1]
      elts = spec.elts if isinstance(spec, ast.Tuple) else [spec]
      cl = set()
      for x in elts:
        t = _ann_type(self.schema, x)
        if t is None or t.seq:
          raise _Unknown()
        for c in t.classes:
          cl |= {c} | set(self.schema.subclasses(c))
      return (cl, set()) if pol else (None, cl)
    # any other test that hands the receiver itself to a call may narrow it in
    # a way this rule does not model: the call site is then not judged
    for c in ast.walk(test):
      if isinstance(c, ast.Call) and any(isinstance(a, ast.Name) and a.id == name for a in c.args):
        raise _Unknown()
    return None, set()

  def _dominating_attr_reads(self, stmt, name):
    """Attributes of `name` read by code that always runs before `stmt`."""
    out = set()

    def unconditional(expr):
      todo = [expr]
      while todo:
        n = todo.pop()
        if isinstance(n, (ast.Lambda, ast.ListComp, ast.SetComp, ast.DictComp,
                          ast.GeneratorExp, ast.IfExp)):
          if isinstance(n, ast.IfExp):
            todo.append(n.test)
          continue
        if isinstance(n, ast.BoolOp):
          todo.append(n.values[0])
          continue
        if isinstance(n, ast.Attribute) and isinstance(n.value, ast.Name) \
            and n.value.id == name and isinstance(n.ctx, ast.Load):
          out.add(n.attr)
        todo.extend(ast.iter_child_nodes(n))
    node = stmt
    parent = self.mod.parent
    while node in parent:
      par = parent[node]
      for fld in ("body", "orelse", "finalbody"):
        blk = getattr(par, fld, None)
        if isinstance(blk, list) and node in blk:
          for prev in blk[:blk.index(node)]:
            # a rebinding of the name ends what earlier reads tell us
            if any(isinstance(x, ast.Name) and x.id == name and isinstance(x.ctx, ast.Store)
                   for x in ast.walk(prev)):
              out.clear()
              continue
            if isinstance(prev, (ast.Assign, ast.AugAssign, ast.AnnAssign, ast.Expr,
                                 ast.Return, ast.Assert)):
              for c in ast.iter_child_nodes(prev):
                if not (isinstance(prev, ast.Assign) and c in prev.targets):
                  unconditional(c)
            elif isinstance(prev, (ast.If, ast.While)):
              unconditional(prev.test)
          break
      if isinstance(par, (ast.FunctionDef, ast.AsyncFunctionDef, ast.Lambda)):
        break
      node = par
    return out

  def narrowed(self, call):
    return self.narrowed_at(call.func.value, call)

  def narrowed_at(self, recv, call, depth=0):
    """Classes `recv` can have where `call` (any node) is evaluated; None = not judged."""
    t = self.type_of(recv, depth)
    if t is None or t.seq:
      return None
    cl = set(t.classes)
    if isinstance(recv, ast.Name):
      stmt = self.mod.enclosing_stmt(call)
      fn = self._fn_of(call)
      stores = [x.lineno for x in ast.walk(fn) if isinstance(x, ast.Name) and x.id == recv.id
                and isinstance(x.ctx, ast.Store)] if fn is not None else []
      for test, pol in flow.guards(self.mod.parent, stmt):
        if any(test.lineno <= ln <= call.lineno for ln in stores):
          continue      # the name was re-bound after the test: the test is stale
        try:
          keep, drop = self._isinstance(test, pol, recv.id)
        except _Unknown:
          return None
        if keep is not None:
          cl &= keep
        cl -= drop
      for attr in self._dominating_attr_reads(stmt, recv.id):
        cl = {c for c in cl if attr in _members(self.schema, c)}
    return cl


def _files(ctx):
  return [f for f in all_py_files(ctx)
          if not f.endswith("_test.py") and "/tests/" not in f and "/test_data/" not in f]


@rule("R15.25", "C15", floor=20)
def r15_25(ctx):
  """Replace(...) keywords are fields of every class the receiver can be."""
  schema = get_schema(ctx)
  judged = skipped = 0
  for rel in sorted(_files(ctx)):
    text = ctx.read(rel)
    if ".Replace(" not in text:
      continue
    mod = get_module(ctx, rel)
    typer = _Typer(schema, mod)
    per_fn = {}
    for call in ast.walk(mod.tree):
      if not (isinstance(call, ast.Call) and isinstance(call.func, ast.Attribute)
              and call.func.attr == "Replace" and call.keywords
              and all(k.arg for k in call.keywords)):
        continue
      cl = typer.narrowed(call)
      if cl is None:
        skipped += 1
        continue
      judged += 1
      fn = mod.enclosing_function(call)
      q = fn.name if fn is not None else "<module>"
      par = mod.parent.get(fn) if fn is not None else None
      while par is not None and not isinstance(par, ast.Module):
        if isinstance(par, (ast.ClassDef, ast.FunctionDef, ast.AsyncFunctionDef)):
          q = par.name + "." + q
        par = mod.parent.get(par)
      kws = sorted(k.arg for k in call.keywords)
      n = per_fn[(q, src(call.func.value), tuple(kws))] = per_fn.get(
          (q, src(call.func.value), tuple(kws)), 0) + 1
      key = f"{rel.split('/')[-1]}:{q}:{src(call.func.value)}.Replace({','.join(kws)})" + \
          (f"#{n}" if n > 1 else "")
      lacking = {c: [k for k in kws if k not in schema.fields(c)] for c in sorted(cl)}
      lacking = {c: v for c, v in lacking.items() if v}
      ctx.check(not lacking, key, rel, call.lineno,
                f"`{src(call)[:80]}`: the receiver can be a "
                f"{'/'.join(sorted(lacking))}, which has no field "
                f"{sorted({k for v in lacking.values() for k in v})} "
                "(msgspec.structs.replace raises TypeError, uncaught up to "
                "io.generate_pyi: the analysis crashes instead of producing a result)",
                {"receiver_classes": sorted(cl), "lacking": lacking})
  if judged == 0:
    raise AnalysisError("no Replace call could be typed")


OUT = "pytype/output.py"

_LEAF = ("  if isinstance(t, (pytd.NamedType, pytd.ClassType, pytd.LateType)):\n"
         "    return t.Replace(name=name)\n"
         "  return t\n")

VARIANTS = [
    {"name": "revert-D59-replace-name-on-any-self-type", "rule": "R15.25", "file": OUT,
     "expect": "fire",
     "old": "              new_self_type = _replace_class_name(self_type, v.name)\n",
     "new": "              new_self_type = self_type.Replace(name=v.name)\n"},
    {"name": "leaf-arm-admits-a-union", "rule": "R15.25", "file": OUT, "expect": "fire",
     "old": "  if isinstance(t, (pytd.NamedType, pytd.ClassType, pytd.LateType)):\n",
     "new": "  if isinstance(t, (pytd.NamedType, pytd.ClassType, pytd.UnionType)):\n"},
    {"name": "generic-arm-renames-the-generic-itself", "rule": "R15.25", "file": OUT,
     "expect": "fire",
     "old": "    return t.Replace(base_type=_replace_class_name(t.base_type, name))\n",
     "new": "    return t.Replace(name=name)\n"},
    {"name": "leaf-arm-unguarded", "rule": "R15.25", "file": OUT, "expect": "fire",
     "old": _LEAF, "new": "  return t.Replace(name=name)\n"},
    {"name": "twin-leaf-arm-as-negated-guard", "rule": "R15.25", "file": OUT,
     "expect": "silent", "old": _LEAF,
     "new": ("  if not isinstance(t, (pytd.NamedType, pytd.ClassType, pytd.LateType)):\n"
             "    return t\n"
             "  return t.Replace(name=name)\n")},
    {"name": "twin-leaf-arm-asserted", "rule": "R15.25", "file": OUT, "expect": "silent",
     "old": _LEAF,
     "new": ("  assert isinstance(t, (pytd.NamedType, pytd.ClassType, pytd.LateType))\n"
             "  return t.Replace(name=name)\n")},
    {"name": "twin-leaf-arm-exact-class-tests", "rule": "R15.25", "file": OUT,
     "expect": "silent", "old": _LEAF,
     "new": ("  if type(t) is pytd.NamedType or isinstance(t, (pytd.ClassType, pytd.LateType)):\n"
             "    named = t\n"
             "    return named.Replace(name=name)\n"
             "  return t\n")},
    {"name": "visitor-replaces-a-field-of-another-class", "rule": "R15.25",
     "file": "pytype/pytd/visitors.py", "expect": "fire",
     "old": "  def VisitParameter(self, p):\n    return p.Replace(mutated_type=None)\n",
     "new": "  def VisitParameter(self, p):\n    return p.Replace(mutated=None)\n"},
]
