"""C02 extension: save / restore discipline of matcher and VM state.

R2.23  A snapshot that is taken in order to be put back later must not share
       the object that is mutated in between.  For every pair

           saved = <A>            |  saved = copy-of(<A>)
           ...                    |  ...
           <A> = saved            |  <A> = saved

       in one function (A an attribute path such as `self._protocol_cache`;
       `saved` bound once) the rule asks what the restore can undo:
         * copy-of(A) (`set(A)`, `dict(A)`, `list(A)`, `A.copy()`,
           `copy.copy(A)`, `A[:]`, ...) - a real snapshot;
         * the bare alias, but A is re-bound to another object on every path
           before the restore - the window works on the new object and the
           restore puts the untouched old one back;
         * the bare alias, never re-bound in between, and the class never
           mutates A in place (`A.add/append/update/..`, `A[k] = v`,
           `del A[k]`, `A |= ..`) - nothing to undo but re-bindings made
           elsewhere, which the alias does restore;
         * the bare alias, not re-bound, and A IS mutated in place by the
           class - the restore is a no-op.  VIOLATION.
       In AbstractMatcher._track_partially_matched_protocols the container is
       the set of (class, protocol) pairs whose match is in flight; its
       entries make `_match_against_protocol` answer "matches" (recursion
       guard), so entries that survive the restore turn a failed protocol
       match into a success the next time the same pair is looked up.
"""
import ast

from sa.core import rule, AnalysisError
from sa.pyindex import get_module, dotted, src, walk_no_nested
from sa import flow

MATCHER = "pytype/matcher.py"
_FILES = [MATCHER, "pytype/vm.py", "pytype/abstract/_function_base.py",
          "pytype/abstract/_interpreter_function.py", "pytype/abstract/function.py",
          "pytype/annotation_utils.py", "pytype/vm_utils.py"]
_FUNCS = (ast.FunctionDef, ast.AsyncFunctionDef)
_COPY_CALLS = {"set", "dict", "list", "frozenset", "tuple", "sorted",
               "copy.copy", "copy.deepcopy", "collections.OrderedDict",
               "collections.Counter", "collections.deque"}
_MUTATORS = {"add", "append", "appendleft", "extend", "update", "pop", "popitem",
             "remove", "discard", "clear", "insert", "setdefault", "sort",
             "reverse", "difference_update", "intersection_update",
             "symmetric_difference_update", "popleft", "__setitem__",
             "__delitem__", "add_alias"}


def _attr_path(e):
  d = dotted(e)
  return d if d and "." in d else None


def _classify_save(v):
  """-> ("alias", A) | ("copy", A) | None"""
  a = _attr_path(v)
  if a:
    return ("alias", a)
  if isinstance(v, ast.Call) and not v.keywords:
    d = dotted(v.func)
    if d in _COPY_CALLS and len(v.args) == 1 and _attr_path(v.args[0]):
      return ("copy", _attr_path(v.args[0]))
    if isinstance(v.func, ast.Attribute) and v.func.attr in ("copy", "__copy__") \
        and not v.args and _attr_path(v.func.value):
      return ("copy", _attr_path(v.func.value))
  if isinstance(v, ast.Subscript) and isinstance(v.slice, ast.Slice) and \
      v.slice.lower is None and v.slice.upper is None and v.slice.step is None \
      and _attr_path(v.value):
    return ("copy", _attr_path(v.value))
  if isinstance(v, (ast.Set, ast.List, ast.Tuple)) and len(v.elts) == 1 and \
      isinstance(v.elts[0], ast.Starred) and _attr_path(v.elts[0].value):
    return ("copy", _attr_path(v.elts[0].value))
  if isinstance(v, ast.Dict) and v.keys == [None] and _attr_path(v.values[0]):
    return ("copy", _attr_path(v.values[0]))
  return None


def _name_stores(fn, name):
  n = 0
  for x in walk_no_nested(fn):
    if isinstance(x, ast.Name) and x.id == name and isinstance(x.ctx, ast.Store):
      n += 1
  return n


def pairs(mod):
  """(fn, A, kind, save stmt, [restore stmts]) for each save/restore pair."""
  for fn in ast.walk(mod.tree):
    if not isinstance(fn, _FUNCS):
      continue
    saves = {}
    for n in walk_no_nested(fn):
      if isinstance(n, ast.Assign) and len(n.targets) == 1 and \
          isinstance(n.targets[0], ast.Name):
        c = _classify_save(n.value)
        if c and _name_stores(fn, n.targets[0].id) == 1:
          saves[n.targets[0].id] = (c, n)
    if not saves:
      continue
    found = {}
    for n in walk_no_nested(fn):
      if isinstance(n, ast.Assign) and len(n.targets) == 1 and \
          isinstance(n.value, ast.Name) and n.value.id in saves:
        (kind, a), sv = saves[n.value.id]
        if _attr_path(n.targets[0]) == a and (n.lineno, n.col_offset) > (sv.lineno, sv.col_offset):
          found.setdefault(n.value.id, []).append(n)
    for name, restores in sorted(found.items()):
      (kind, a), sv = saves[name]
      yield fn, a, kind, sv, restores, name


def _enclosing_class(mod, node):
  while node in mod.parent:
    node = mod.parent[node]
    if isinstance(node, ast.ClassDef):
      return node
  return None


def _in_place_mutations(scope, a):
  """In-place mutations of attribute path `a` (matched by its full dotted
  path when rooted at `self`, else by the last attribute name)."""
  last = a.split(".")[-1]
  by_path = a.startswith("self.")

  def same(e):
    d = dotted(e)
    if d is None:
      return isinstance(e, ast.Attribute) and e.attr == last and not by_path
    return d == a if by_path else d.split(".")[-1] == last and "." in d
  out = []
  for n in ast.walk(scope):
    if isinstance(n, ast.Call) and isinstance(n.func, ast.Attribute) and \
        n.func.attr in _MUTATORS and same(n.func.value):
      out.append(n)
    elif isinstance(n, (ast.Assign, ast.Delete)):
      for t in n.targets:
        if isinstance(t, ast.Subscript) and same(t.value):
          out.append(n)
    elif isinstance(n, ast.AugAssign):
      if same(n.target) or (isinstance(n.target, ast.Subscript) and same(n.target.value)):
        out.append(n)
  return out


def _qual(mod, fn):
  names = [fn.name]
  node = fn
  while node in mod.parent:
    node = mod.parent[node]
    if isinstance(node, _FUNCS + (ast.ClassDef,)):
      names.append(node.name)
  return ".".join(reversed(names))


@rule("R2.23", "C02", floor=7)
def r2_23(ctx):
  """A snapshot restored later is a copy of (not an alias to) a container
  that is mutated in place in between."""
  seen_matcher = False
  for rel in _FILES:
    text = ctx.read(rel)
    mod = get_module(ctx, rel)
    for fn, a, kind, sv, restores, name in pairs(mod):
      q = _qual(mod, fn)
      construct = f"{rel}:{q}:{a}"
      if rel == MATCHER:
        seen_matcher = True
      facts = {"save": src(sv)[:100], "restore": src(restores[0])[:100], "kind": kind}
      if kind == "copy":
        ctx.ok(construct, rel, sv.lineno, dict(facts, discharged_by="snapshot is a copy"))
        continue
      # alias: is A re-bound on every path between the save and each restore?
      def gen(unit, a=a, name=name):
        if isinstance(unit, ast.Assign) and any(_attr_path(t) == a for t in unit.targets) \
            and not (isinstance(unit.value, ast.Name) and unit.value.id == name):
          return ["rebound"]
        return []

      def kill(unit, sv=sv):
        return ["rebound"] if unit is sv else None
      f = flow.flow(fn, gen, kill, mode="must")
      rebound = all(f.before.get(r) is not None and "rebound" in f.before[r]
                    for r in restores)
      if rebound:
        ctx.ok(construct, rel, sv.lineno,
               dict(facts, discharged_by="attribute re-bound to another object "
                    "before the restore on every path"))
        continue
      scope = _enclosing_class(mod, fn) if a.startswith("self.") else mod.tree
      if scope is None:
        raise AnalysisError(f"{construct}: `self` attribute outside a class")
      muts = _in_place_mutations(scope, a)
      facts["in_place_mutations"] = sorted({f"{m.lineno}: {src(m)[:60]}" for m in muts})[:6]
      ctx.check(not muts, construct, rel, sv.lineno,
                f"`{src(sv)}` keeps a reference to the live object, `{a}` is "
                f"not re-bound before `{src(restores[0])}`, and the object is "
                f"mutated in place ({facts['in_place_mutations'][:2]}): the "
                "restore puts back the very object that was mutated, so "
                "nothing added in between is ever removed (take a copy: "
                "set(..)/dict(..)/list(..)/.copy())",
                dict(facts, discharged_by=None if muts else
                     "never mutated in place by the class"))
  if not seen_matcher:
    raise AnalysisError(
        "matcher.py: no save/restore pair found (the protocol-cache "
        "bracket _track_partially_matched_protocols changed shape)")


_OLD = "    old_protocol_cache = set(self._protocol_cache)\n    yield\n    self._protocol_cache = old_protocol_cache"

VARIANTS = [
    {"name": "seeded-C02-r2m1", "rule": "R2.23", "patch": "seeded/C02-r2m1/patch.diff",
     "expect": "fire"},
    {"name": "protocol-cache-alias-through-finally", "rule": "R2.23", "file": MATCHER, "expect": "fire",
     "old": _OLD,
     "new": "    saved = self._protocol_cache\n    try:\n      yield\n    finally:\n      self._protocol_cache = saved"},
    {"name": "active-overloads-alias-mutated-in-place", "rule": "R2.23",
     "file": "pytype/abstract/_interpreter_function.py", "expect": "fire",
     "old": "      old_overloads = self._active_overloads\n      self._active_overloads = [f]\n      try:",
     "new": "      old_overloads = self._active_overloads\n      self._active_overloads.clear()\n      self._active_overloads.append(f)\n      try:"},
    {"name": "twin-protocol-cache-copy-method", "rule": "R2.23", "file": MATCHER, "expect": "silent",
     "old": _OLD,
     "new": "    snapshot = self._protocol_cache.copy()\n    try:\n      yield\n    finally:\n      self._protocol_cache = snapshot"},
    {"name": "twin-protocol-cache-swap-in-fresh-set", "rule": "R2.23", "file": MATCHER, "expect": "silent",
     "old": _OLD,
     "new": "    old_protocol_cache = self._protocol_cache\n    self._protocol_cache = set(old_protocol_cache)\n    yield\n    self._protocol_cache = old_protocol_cache"},
    {"name": "twin-protocol-cache-unpacked-copy", "rule": "R2.23", "file": MATCHER, "expect": "silent",
     "old": _OLD,
     "new": "    before = {*self._protocol_cache}\n    yield\n    self._protocol_cache = before"},
]
