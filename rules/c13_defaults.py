"""C13 extension: assigning `f.__defaults__` REPLACES the positional defaults.

R13.22  CPython binds `f.__defaults__ = t` to the LAST len(t) positional
        parameters; every other positional parameter becomes required,
        whatever default it had before (`def f(a=1, b=2)`, `f.__defaults__ =
        (3,)`, `f()` -> TypeError: missing 'a').  pytype emulates the
        assignment in two sibling setters, reached from attribute.py when the
        attribute name is `__defaults__`:

          * SignedFunction.set_function_defaults keeps the defaults in the
            mapping `self.signature.defaults` (positional and keyword-only
            names alike).  The mapping left behind on every normal exit is
            computed symbolically as a set of components
              old-pos  entries the mapping had before, keyed by positional names
              old-kw   entries it had before, keyed by keyword-only names
              new      entries built from the assigned tuple
            (re-binding to a fresh mapping drops what was there; `.update`,
            `[k] = v`, `|=` keep it; `{**a, **b}` / `a | b` / `dict(a, **b)`
            join; `{k: v for k, v in m.items() if k [not] in <signature>.
            kwonly_params / param_names}`, the matching delete-loop and the
            copy-loop `for k in <signature>.kwonly_params: [if k in m:] d[k] =
            m[k]` select).
            It must contain `new` and must NOT contain `old-pos`.
          * PyTDSignature.set_defaults rebuilds every pytd.Parameter; the
            `optional=` flag it passes must be decided by the remaining new
            defaults alone (True under them, False otherwise), never read back
            from the old parameter.
          * AttributeHandler._set_member hands a store to `__defaults__` of a
            function to `<function>.set_function_defaults(node, <value>)`.

        Whether the keyword-only entries survive (`old-kw`, they belong to
        `__kwdefaults__`) is the separate obligation R13.23.
"""
import ast

from sa.core import rule, AnalysisError
from sa.pyindex import get_module, dotted, src, kwarg, walk_no_nested
from sa import flow
from rules import _util_c13c02c10 as U

FB = "pytype/abstract/_function_base.py"
PF = "pytype/abstract/_pytd_function.py"
AT = "pytype/attribute.py"

OLD_POS, OLD_KW, NEW = "old-pos", "old-kw", "new"
_COPIES = {"dict", "copy.copy", "collections.OrderedDict", "types.MappingProxyType"}
_SEQ_WRAPPERS = {"set", "frozenset", "list", "tuple", "sorted"}


class DefaultsFlow:
  """Abstract interpretation of one path of a `__defaults__` setter."""

  def __init__(self, what, self_name):
    self.what, self.self_name = what, self_name
    self.state = frozenset({OLD_POS, OLD_KW})     # <self>.signature.defaults
    self.env = {}         # local -> frozenset of components (a mapping value)
    self.alias = set()    # locals that ARE the signature's mapping
    self.sig_alias = set()  # locals bound to <self>.signature
    self.groups = {}      # local -> 'pos' | 'kw' (a collection of parameter names)

  # -- recognisers ---------------------------------------------------------------
  def is_sig(self, e):
    return dotted(e) == f"{self.self_name}.signature" or (
        isinstance(e, ast.Name) and e.id in self.sig_alias)

  def is_state(self, e):
    return (isinstance(e, ast.Attribute) and e.attr == "defaults" and self.is_sig(e.value)) \
        or (isinstance(e, ast.Name) and e.id in self.alias)

  def mentions_old(self, e):
    for n in ast.walk(e):
      if self.is_state(n):
        return True
      if isinstance(n, ast.Name) and isinstance(n.ctx, ast.Load) and \
          self.env.get(n.id, frozenset()) & {OLD_POS, OLD_KW}:
        return True
    return False

  def name_group(self, e):
    """'pos' / 'kw' if e is a collection of the positional / keyword-only names."""
    if isinstance(e, ast.Name) and e.id in self.groups:
      return self.groups[e.id]
    if isinstance(e, ast.Attribute) and self.is_sig(e.value):
      return {"param_names": "pos", "kwonly_params": "kw"}.get(e.attr)
    if isinstance(e, ast.Call) and dotted(e.func) in _SEQ_WRAPPERS and \
        len(e.args) == 1 and not e.keywords:
      return self.name_group(e.args[0])
    return None

  # -- values -----------------------------------------------------------------------
  def value(self, e):
    """Components of the mapping `e` evaluates to (a fresh object)."""
    if self.is_state(e):
      return self.state
    if isinstance(e, ast.Name) and e.id in self.env:
      return self.env[e.id]
    if not self.mentions_old(e):
      return frozenset({NEW})
    if isinstance(e, ast.Call):
      d = dotted(e.func)
      if d in _COPIES and len(e.args) == 1 and not any(k.arg for k in e.keywords):
        out = self.value(e.args[0].func.value) if (
            isinstance(e.args[0], ast.Call) and isinstance(e.args[0].func, ast.Attribute)
            and e.args[0].func.attr == "items" and not e.args[0].args) else self.value(e.args[0])
        for k in e.keywords:      # dict(a, **b)
          out |= self.value(k.value)
        return out
      if isinstance(e.func, ast.Attribute) and e.func.attr == "copy" and not e.args:
        return self.value(e.func.value)
    if isinstance(e, ast.Dict) and all(k is None for k in e.keys):
      out = frozenset()
      for v in e.values:
        out |= self.value(v)
      return out
    if isinstance(e, ast.BinOp) and isinstance(e.op, ast.BitOr):
      return self.value(e.left) | self.value(e.right)
    if isinstance(e, ast.DictComp) and len(e.generators) == 1:
      g = e.generators[0]
      it = g.iter
      if isinstance(it, ast.Call) and isinstance(it.func, ast.Attribute) and \
          it.func.attr == "items" and not it.args and isinstance(g.target, ast.Tuple) \
          and len(g.target.elts) == 2 and isinstance(g.target.elts[0], ast.Name) \
          and src(e.key) == g.target.elts[0].id:
        out = self.value(it.func.value)
        for c in g.ifs:
          out = self.select(out, c, g.target.elts[0].id)
        return out
    raise AnalysisError(
        f"{self.what}: `{src(e)[:70]}` is built from the previous defaults in a "
        "way that is not understood")

  def select(self, comps, test, key):
    """Components that survive the filter `test` on the key variable."""
    neg = False
    if isinstance(test, ast.UnaryOp) and isinstance(test.op, ast.Not):
      neg, test = True, test.operand
    if isinstance(test, ast.Compare) and len(test.ops) == 1 and \
        isinstance(test.ops[0], (ast.In, ast.NotIn)) and src(test.left) == key:
      grp = self.name_group(test.comparators[0])
      if grp is not None:
        keep = grp if isinstance(test.ops[0], ast.In) != neg else ("kw" if grp == "pos" else "pos")
        want = {OLD_KW} if keep == "kw" else {OLD_POS, NEW}
        return frozenset(comps & want)
    raise AnalysisError(
        f"{self.what}: filter `{src(test)[:60]}` on the previous defaults is not a "
        "membership test against the signature's param_names / kwonly_params")

  # -- statements ------------------------------------------------------------------
  def store_state(self, comps, in_place):
    self.state = frozenset(self.state | comps) if in_place else frozenset(comps)

  def mutate(self, recv, comps):
    """recv.update(..) / recv[k] = v / recv |= .."""
    if self.is_state(recv):
      self.store_state(comps, True)
      return True
    if isinstance(recv, ast.Name) and recv.id in self.env:
      self.env[recv.id] = frozenset(self.env[recv.id] | comps)
      return True
    return False

  def step(self, st):
    if isinstance(st, (ast.Assign, ast.AnnAssign)):
      if st.value is None:
        return
      targets = st.targets if isinstance(st, ast.Assign) else [st.target]
      for t in targets:
        if isinstance(t, ast.Attribute) and t.attr == "defaults" and self.is_sig(t.value):
          self.store_state(self.value(st.value), False)
        elif isinstance(t, ast.Subscript) and self.mutate(
            t.value, frozenset({NEW}) if not self.mentions_old(st.value)
            else self.element(st.value)):
          pass
        elif isinstance(t, ast.Name):
          self.bind(t.id, st.value)
        elif isinstance(t, ast.Attribute) and self.is_sig(t):
          raise AnalysisError(f"{self.what}: the signature object itself is replaced")
        elif any(self.is_state(n) for n in ast.walk(t)):
          raise AnalysisError(f"{self.what}: store `{src(t)[:50]}` not understood")
        else:
          for n in ast.walk(t):
            if isinstance(n, ast.Name) and isinstance(n.ctx, ast.Store):
              self.unbind(n.id)
      return
    if isinstance(st, ast.AugAssign):
      if isinstance(st.op, ast.BitOr) and self.mutate(st.target, self.value(st.value)):
        return
      if self.is_state(st.target) or self.mentions_old(st.value):
        raise AnalysisError(f"{self.what}: `{src(st)[:60]}` not understood")
      return
    if isinstance(st, ast.Expr) and isinstance(st.value, ast.Call) and \
        isinstance(st.value.func, ast.Attribute):
      c, recv, m = st.value, st.value.func.value, st.value.func.attr
      tracked = self.is_state(recv) or (isinstance(recv, ast.Name) and recv.id in self.env)
      if tracked and m == "update" and len(c.args) <= 1:
        comps = self.value(c.args[0]) if c.args else frozenset()
        if c.keywords:
          comps |= {NEW}
        self.mutate(recv, comps)
        return
      if tracked and m == "clear" and not c.args:
        if self.is_state(recv):
          self.state = frozenset()
        else:
          self.env[recv.id] = frozenset()
        return
      if tracked and m in ("setdefault", "__setitem__"):
        self.mutate(recv, frozenset({NEW}))
        return
      if tracked:
        raise AnalysisError(f"{self.what}: `{src(st)[:60]}` on the defaults mapping "
                            "is not understood")
    if isinstance(st, ast.For):
      self.loop(st)
      return
    if isinstance(st, ast.Delete):
      if any(self.is_state(n) for t in st.targets for n in ast.walk(t)):
        raise AnalysisError(f"{self.what}: `{src(st)[:60]}` outside a selecting loop")
      return
    self.opaque(st)

  def element(self, v):
    """Component of a single stored value that reads the previous mapping."""
    raise AnalysisError(f"{self.what}: element store `{src(v)[:50]}` reads the "
                        "previous defaults: not understood")

  def bind(self, name, v):
    self.unbind(name)
    if self.is_sig(v):
      self.sig_alias.add(name)
    elif self.is_state(v):
      self.alias.add(name)
    elif self.name_group(v) is not None:
      self.groups[name] = self.name_group(v)
    elif self.mentions_old(v):
      self.env[name] = self.value(v)
    elif isinstance(v, (ast.Dict, ast.DictComp)) or (
        isinstance(v, ast.Call) and dotted(v.func) in _COPIES):
      self.env[name] = frozenset({NEW}) if not (
          isinstance(v, ast.Dict) and not v.keys) and not (
              isinstance(v, ast.Call) and not v.args and not v.keywords) else frozenset()

  def unbind(self, name):
    self.env.pop(name, None)
    self.alias.discard(name)
    self.sig_alias.discard(name)
    self.groups.pop(name, None)

  def loop(self, st):
    touches = any(self.is_state(n) or (isinstance(n, ast.Name) and n.id in self.env
                                       and isinstance(n.ctx, ast.Load)
                                       and self.env[n.id] & {OLD_POS, OLD_KW})
                  for n in ast.walk(st))
    writes_local = [n for n in ast.walk(st) if isinstance(n, ast.Name)
                    and isinstance(n.ctx, ast.Store)]
    if not touches:
      for n in writes_local:
        self.unbind(n.id)
      return
    if st.orelse:
      raise AnalysisError(f"{self.what}: for/else over the defaults not understood")
    # (a) `for k, v in X.items(): M[k] = v`
    it = st.iter
    if isinstance(it, ast.Call) and isinstance(it.func, ast.Attribute) and \
        it.func.attr == "items" and len(st.body) == 1 and \
        isinstance(st.body[0], ast.Assign) and len(st.body[0].targets) == 1 and \
        isinstance(st.body[0].targets[0], ast.Subscript) and \
        isinstance(st.target, ast.Tuple) and len(st.target.elts) == 2 and \
        src(st.body[0].targets[0].slice) == src(st.target.elts[0]) and \
        src(st.body[0].value) == src(st.target.elts[1]):
      if self.mutate(st.body[0].targets[0].value, self.value(it.func.value)):
        return
    # (b) `for k in list(M): if k [not] in <names>: del M[k]`
    snap = it
    if isinstance(snap, ast.Call) and dotted(snap.func) in _SEQ_WRAPPERS and len(snap.args) == 1:
      snap = snap.args[0]
    if isinstance(snap, ast.Call) and isinstance(snap.func, ast.Attribute) and \
        snap.func.attr in ("copy", "keys") and not snap.args:
      snap = snap.func.value
    if snap is not it and self.is_state(snap) and isinstance(st.target, ast.Name) and \
        len(st.body) == 1 and isinstance(st.body[0], ast.If) and not st.body[0].orelse \
        and len(st.body[0].body) == 1:
      inner = st.body[0].body[0]
      k = st.target.id
      removed = None
      if isinstance(inner, ast.Delete) and len(inner.targets) == 1 and \
          isinstance(inner.targets[0], ast.Subscript) and \
          self.is_state(inner.targets[0].value) and src(inner.targets[0].slice) == k:
        removed = True
      if isinstance(inner, ast.Expr) and isinstance(inner.value, ast.Call) and \
          isinstance(inner.value.func, ast.Attribute) and inner.value.func.attr == "pop" \
          and self.is_state(inner.value.func.value) and inner.value.args and \
          src(inner.value.args[0]) == k:
        removed = True
      if removed:
        gone = self.select(frozenset({OLD_POS, OLD_KW, NEW}), st.body[0].test, k)
        self.state = frozenset(self.state - gone)
        return
    # (c) `for k in <positional / keyword-only names>: [if k in S:] M[k] = S[k]`
    grp = self.name_group(it)
    if grp is not None and isinstance(st.target, ast.Name) and len(st.body) == 1:
      k = st.target.id
      inner = st.body[0]
      if isinstance(inner, ast.If) and not inner.orelse and len(inner.body) == 1 and \
          isinstance(inner.test, ast.Compare) and len(inner.test.ops) == 1 and \
          isinstance(inner.test.ops[0], ast.In) and src(inner.test.left) == k and \
          (self.is_state(inner.test.comparators[0]) or
           isinstance(inner.test.comparators[0], ast.Name)):
        guard_map = inner.test.comparators[0]
        inner = inner.body[0]
      else:
        guard_map = None
      if isinstance(inner, ast.Assign) and len(inner.targets) == 1 and \
          isinstance(inner.targets[0], ast.Subscript) and \
          src(inner.targets[0].slice) == k and \
          isinstance(inner.value, ast.Subscript) and src(inner.value.slice) == k and \
          (guard_map is None or src(guard_map) == src(inner.value.value)):
        source = inner.value.value
        if self.is_state(source) or (isinstance(source, ast.Name) and source.id in self.env):
          comps = self.value(source)
          picked = comps & ({OLD_KW} if grp == "kw" else {OLD_POS, NEW})
          if self.mutate(inner.targets[0].value, frozenset(picked)):
            return
    raise AnalysisError(f"{self.what}: loop `for {src(st.target)} in {src(st.iter)[:40]}` "
                        "over the defaults mapping is not understood")

  def opaque(self, st):
    for n in ast.walk(st):
      if isinstance(n, ast.Call):
        args = list(n.args) + [k.value for k in n.keywords]
        recv = n.func.value if isinstance(n.func, ast.Attribute) else None
        if any(self.is_state(a) or self.is_sig(a) for a in args) or (
            recv is not None and self.is_sig(recv)):
          raise AnalysisError(
              f"{self.what}: `{src(n)[:60]}` hands the signature / its defaults to "
              "code that is not followed")
      if isinstance(n, (ast.Attribute, ast.Name)) and isinstance(
          getattr(n, "ctx", None), (ast.Store, ast.Del)) and self.is_state(n):
        raise AnalysisError(f"{self.what}: `{src(st)[:60]}` not understood")


def setter_outcomes(ctx):
  """-> (module, def, [(path-text, components left in signature.defaults)])"""
  mod = get_module(ctx, FB)
  owner, fn0 = U.resolve_method(mod, "SignedFunction", "set_function_defaults")
  what = f"{owner}.set_function_defaults"
  inl = U.inline_calls(mod, fn0, receiver="SignedFunction", module_helpers=False)
  fn = inl.fn
  self_name = fn.args.args[0].arg
  # helpers left in place must not touch the signature
  for name, why in inl.skipped:
    try:
      _, h = U.resolve_method(mod, "SignedFunction", name)
    except AnalysisError:
      continue
    if any(isinstance(n, ast.Attribute) and n.attr in ("defaults", "signature")
           for n in ast.walk(h)):
      raise AnalysisError(f"{what}: helper {name} ({why}) reads or writes the "
                          "signature and could not be inlined")
  sub = [o for o in U.local_subclasses(mod, "SignedFunction")
         if "set_function_defaults" in mod.methods(o)]
  if sub:
    raise AnalysisError(f"{what}: overridden in {sub}")

  def fork(ifst):
    return True
  out = []
  for path in U.linear_paths(U._strip_doc(fn.body), fork=fork, what=what):
    f = DefaultsFlow(what, self_name)
    conds = []
    for step in path:
      if step[0] == "stmt":
        f.step(step[1])
      elif step[0] == "with":
        f.opaque(ast.Expr(ast.Tuple(elts=[i.context_expr for i in step[1].items], ctx=ast.Load())))
      elif step[0] == "test":
        f.opaque(ast.Expr(step[1]))
        conds.append(("" if step[2] else "not ") + f"({src(step[1])[:50]})")
      else:
        if step[1] == "raise":
          break
        if step[1] in ("break", "continue"):
          raise AnalysisError(f"{what}: stray {step[1]}")
        out.append((" and ".join(conds) or "always", f.state))
  if not out:
    raise AnalysisError(f"{what}: no normal exit")
  return mod, fn0, out


def _pytd_sibling(ctx):
  mod = get_module(ctx, PF)
  owner, fn = U.resolve_method(mod, "PyTDSignature", "set_defaults")
  what = f"{owner}.set_defaults"
  params = [a.arg for a in fn.args.args]
  if len(params) != 2:
    raise AnalysisError(f"{what}(self, defaults) signature not understood")
  new = {params[1]}
  for n in walk_no_nested(fn):     # `defaults = list(defaults)` and the like
    if isinstance(n, ast.Assign) and len(n.targets) == 1 and isinstance(n.targets[0], ast.Name) \
        and {x.id for x in ast.walk(n.value) if isinstance(x, ast.Name)} & new:
      new.add(n.targets[0].id)
  built = [c for c in ast.walk(fn) if isinstance(c, ast.Call)
           and (dotted(c.func) or "").split(".")[-1] in ("Parameter", "Replace", "replace")
           and kwarg(c, "optional") is not None]
  if not built:
    raise AnalysisError(f"{what}: no pytd.Parameter(.., optional=..) is built")
  problems, facts = [], []
  for c in built:
    v = kwarg(c, "optional")
    stale = [src(n) for n in ast.walk(v) if isinstance(n, ast.Attribute) and n.attr == "optional"]
    names = {x.id for x in ast.walk(v) if isinstance(x, ast.Name)}
    if stale:
      problems.append(f"optional={src(v)} reads the previous flag {stale[0]}")
      facts.append({"optional": src(v), "stale": True})
      continue
    if isinstance(v, ast.Constant) and isinstance(v.value, bool):
      conj = []
      for t, p in flow.guards(mod.parent, mod.enclosing_stmt(c), stop=fn):
        g = U.bool_formula(t)
        conj.append(g if p else ("not", g))
      atoms = U.formula_atoms(("and", conj), set())
      mine = [a for a in atoms if a in new]
      if len(mine) != 1:
        raise AnalysisError(f"{what}: optional={v.value} is not guarded by the "
                            f"remaining new defaults (guards {sorted(atoms)})")
      implied = U.implies_literal(("and", conj), mine[0], v.value)
      facts.append({"optional": v.value, "under": [U.formula_text(g) for g in conj]})
      if implied is False:
        problems.append(f"optional={v.value} is set when `{mine[0]}` is "
                        f"{'empty' if v.value else 'non-empty'}")
      continue
    if names and names <= new | {"bool", "len"}:
      facts.append({"optional": src(v)})
      continue
    raise AnalysisError(f"{what}: optional={src(v)[:50]} not understood")
  return mod, fn, problems, facts


@rule("R13.22", "C13", floor=3)
def r13_22(ctx):
  """`__defaults__` assignment replaces the positional defaults in both setters."""
  mod, fn, outcomes = setter_outcomes(ctx)
  problems = []
  for when, comps in outcomes:
    if OLD_POS in comps:
      problems.append(f"({when}) the defaults the positional parameters had before "
                      "are kept: a parameter the new tuple does not cover stays optional")
    if NEW not in comps:
      problems.append(f"({when}) the assigned defaults are not installed")
  ctx.check(not problems, "SignedFunction.set_function_defaults:replaces-positional-defaults",
            FB, fn.lineno,
            "`f.__defaults__ = t` must leave exactly the last len(t) positional "
            "parameters with a default: " + "; ".join(problems[:2]),
            {"left_in_signature.defaults": [{"when": w, "components": sorted(c)}
                                            for w, c in outcomes]})
  pmod, pfn, pproblems, facts = _pytd_sibling(ctx)
  ctx.check(not pproblems, "PyTDSignature.set_defaults:resets-optional-flags",
            PF, pfn.lineno,
            "the stub sibling must decide every parameter's `optional` flag from the "
            "new defaults alone: " + "; ".join(pproblems[:2]), {"built": facts})
  # wiring
  amod = get_module(ctx, AT)
  calls = [c for c in ast.walk(amod.tree) if isinstance(c, ast.Call)
           and isinstance(c.func, ast.Attribute) and c.func.attr == "set_function_defaults"]
  if len(calls) != 1:
    raise AnalysisError(f"attribute.py: {len(calls)} calls of set_function_defaults")
  c = calls[0]
  host = amod.enclosing_function(c)
  hparams = [a.arg for a in host.args.args]
  guards = flow.guards(amod.parent, amod.enclosing_stmt(c), stop=host)
  named = any(p and any(isinstance(n, ast.Compare) and len(n.ops) == 1
                        and isinstance(n.ops[0], ast.Eq)
                        and {src(n.left), src(n.comparators[0])} & {"'__defaults__'"}
                        for n in ast.walk(t)) for t, p in guards)
  ok = named and dotted(c.func.value) in hparams and len(c.args) == 2 and \
      all(dotted(a) in hparams for a in c.args)
  ctx.check(ok, "attribute._set_member:__defaults__->set_function_defaults", AT, c.lineno,
            "a store to <function>.__defaults__ must be handed to "
            "set_function_defaults(node, <stored value>)",
            {"call": src(c), "guards": [src(t)[:80] for t, _ in guards]})


_OLD = ("    # `__defaults__` only describes the positional parameters; the defaults of\n"
        "    # keyword-only parameters live in `__kwdefaults__` and stay as they are.\n"
        "    for name in self.signature.kwonly_params:\n"
        "      if name in self.signature.defaults:\n"
        "        defaults[name] = self.signature.defaults[name]\n"
        "    self.signature.defaults = defaults\n")
_LAST = "    self.signature.defaults = defaults\n"
_ZIP = "dict(zip(self.signature.param_names[-len(defaults) :], defaults))"

VARIANTS = [
    {"name": "seeded-C13-r3m1", "rule": "R13.22", "patch": "seeded/C13-r3m1/patch.diff",
     "expect": "fire"},
    {"name": "defaults-merged-by-unpacking", "rule": "R13.22", "file": FB, "expect": "fire",
     "old": _OLD,
     "new": "    self.signature.defaults = {**self.signature.defaults, **defaults}\n"},
    {"name": "defaults-stored-entry-by-entry", "rule": "R13.22", "file": FB, "expect": "fire",
     "old": _OLD,
     "new": "    for name, value in defaults.items():\n      self.signature.defaults[name] = value\n"},
    {"name": "defaults-union-through-alias", "rule": "R13.22", "file": FB, "expect": "fire",
     "old": _OLD,
     "new": "    sig = self.signature\n    current = sig.defaults\n    current |= defaults\n"},
    {"name": "pytd-sibling-keeps-optional-flag", "rule": "R13.22", "file": PF, "expect": "fire",
     "old": "                optional=False,  # Reset any previously-set defaults\n",
     "new": "                optional=param.optional,\n"},
    {"name": "twin-keeps-keyword-only-defaults", "rule": "R13.22", "file": FB, "expect": "silent",
     "old": _OLD,
     "new": "    kwonly = {\n        k: v\n        for k, v in self.signature.defaults.items()\n"
            "        if k in self.signature.kwonly_params\n    }\n"
            "    self.signature.defaults = {**defaults, **kwonly}\n"},
    {"name": "twin-keyword-only-entries-copied-by-loop", "rule": "R13.22", "file": FB, "expect": "silent",
     "old": _OLD,
     "new": "    for name in self.signature.kwonly_params:\n"
            "      if name in self.signature.defaults:\n"
            "        defaults[name] = self.signature.defaults[name]\n" + _OLD},
    {"name": "positional-entries-copied-by-loop", "rule": "R13.22", "file": FB, "expect": "fire",
     "old": _OLD,
     "new": "    for name in self.signature.param_names:\n"
            "      if name in self.signature.defaults:\n"
            "        defaults[name] = self.signature.defaults[name]\n" + _OLD},
    {"name": "twin-delete-positional-then-update", "rule": "R13.22", "file": FB, "expect": "silent",
     "old": _OLD,
     "new": "    sig = self.signature\n    for name in list(sig.defaults):\n"
            "      if name in sig.param_names:\n        del sig.defaults[name]\n"
            "    sig.defaults.update(defaults)\n"},
    {"name": "twin-clear-and-update", "rule": "R13.22", "file": FB, "expect": "silent",
     "old": _LAST,
     "new": "    self.signature.defaults.clear()\n    self.signature.defaults.update(defaults)\n"},
    {"name": "twin-renamed-local-guard-clause", "rule": "R13.22", "file": FB, "expect": "silent",
     "old": "    defaults = " + _ZIP + "\n" + _OLD,
     "new": "    names = self.signature.param_names[-len(defaults) :]\n"
            "    by_name = dict(zip(names, defaults))\n"
            "    for name in self.signature.kwonly_params:\n"
            "      if name in self.signature.defaults:\n"
            "        by_name[name] = self.signature.defaults[name]\n"
            "    self.signature.defaults = by_name\n"},
    {"name": "twin-store-in-self-helper", "rule": "R13.22", "expect": "silent",
     "edits": [
         (FB, _LAST, "    self._install_defaults(defaults)\n"),
         (FB, "  def _mutations_generator(\n",
          "  def _install_defaults(self, by_name):\n"
          "    self.signature.defaults = by_name\n\n"
          "  def _mutations_generator(\n")]},
    {"name": "helper-merges-into-previous-defaults", "rule": "R13.22", "expect": "fire",
     "edits": [
         (FB, _OLD, "    self._install_defaults(defaults)\n"),
         (FB, "  def _mutations_generator(\n",
          "  def _install_defaults(self, by_name):\n"
          "    self.signature.defaults.update(by_name)\n\n"
          "  def _mutations_generator(\n")]},
    {"name": "defaults-handed-to-unknown-code", "rule": "R13.22", "file": FB, "expect": "error",
     "old": _OLD,
     "new": "    self.signature.install_defaults(defaults)\n"},
]
