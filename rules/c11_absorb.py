"""C11 / R11.23 - absorbing a parameter's mutation keeps the declared type.

`Optimize(remove_mutable=True)` replaces `def f(x: T): x = M` by a parameter
without mutation.  The callers of f that passed a T before must still be
admitted, and f may leave an M behind, so the new parameter type has to be the
JOIN of both: `JoinTypes([p.type, p.mutated_type])`.  A path that takes the
mutated type alone ("it already covers the declared one") narrows the
parameter whenever the assumption is wrong (`x: list[int]` mutated to
`list[Union[str, bytes]]`).

Decided for every visitor class of pytd/optimize.py whose VisitParameter reads
`<param>.mutated_type`: each return is
  * the visited parameter itself (nothing absorbed), or
  * `<param>.Replace(type=J, mutated_type=None)` where J is a join -
    `pytd_utils.JoinTypes([..])` or `pytd.UnionType((..))` over a list/tuple
    display - whose members include BOTH `<param>.type` and
    `<param>.mutated_type` (through once-bound locals, conditional
    expressions arm by arm, and one-return helpers of the class / module with
    the arguments substituted).
A Replace whose `type` is understood and lacks one of the two is a violation;
any other return an analysis error.
"""
import ast
import copy

from sa.core import rule, AnalysisError
from sa.pyindex import get_module, dotted, src, walk_no_nested
from rules import c11 as C
from rules import c10 as _C10

OPT = C.OPT


def _reads_mutated(fn, p):
  return any(isinstance(n, ast.Attribute) and n.attr == "mutated_type"
             and isinstance(n.value, ast.Name) and n.value.id == p
             for n in ast.walk(fn))


def _absorbers(mod):
  """(class name, VisitParameter def, node parameter name)."""
  out = []
  for cname in sorted(mod.classes):
    m = C._methods(mod, cname).get("VisitParameter")
    if m is None:
      continue
    ps = [a.arg for a in m.args.posonlyargs + m.args.args]
    if len(ps) != 2:
      raise AnalysisError(f"{cname}.VisitParameter: expected (self, node)")
    if _reads_mutated(m, ps[1]):
      out.append((cname, m, ps[1]))
  return out


class _Decider:
  def __init__(self, ctx, mod, cname, fn, p):
    self.ctx, self.mod, self.cname, self.fn, self.p = ctx, mod, cname, fn, p
    self.defs = _C10._Defs(fn)
    self.selfname = (fn.args.posonlyargs + fn.args.args)[0].arg

  # -- expression resolution ----------------------------------------------------
  def resolve(self, e, stmt):
    """(expression, statement it is evaluated at) after looking through
    locals bound once (reaching definitions)."""
    depth = 0
    while isinstance(e, ast.Name) and depth < 6:
      ds = self.defs.at(e.id, stmt)
      if len(ds) != 1:
        break
      d = next(iter(ds))
      if d == "param" or not (isinstance(d, ast.Assign) and len(d.targets) == 1
                              and isinstance(d.targets[0], ast.Name)):
        break
      e, stmt, depth = d.value, d, depth + 1
    return e, stmt

  def _helper(self, call):
    """One-return helper (own method / module function) with the arguments
    substituted for its parameters, or None."""
    f = call.func
    h = None
    skip = 0
    if isinstance(f, ast.Attribute) and isinstance(f.value, ast.Name) and \
        f.value.id == self.selfname:
      h = C._methods(self.mod, self.cname).get(f.attr)
      skip = 1
      if h is not None and any(dotted(d) == "staticmethod" for d in h.decorator_list):
        skip = 0
    elif isinstance(f, ast.Name):
      h = self.mod.functions.get(f.id)
    if h is None or call.keywords or any(isinstance(a, ast.Starred) for a in call.args):
      return None
    body = [s for s in h.body if not (isinstance(s, ast.Expr)
                                      and isinstance(s.value, ast.Constant))]
    if len(body) != 1 or not isinstance(body[0], ast.Return) or body[0].value is None:
      return None
    params = [a.arg for a in h.args.posonlyargs + h.args.args][skip:]
    if len(params) != len(call.args) or h.args.vararg or h.args.kwarg or h.args.kwonlyargs:
      return None
    env = dict(zip(params, call.args))
    free = {n.id for n in ast.walk(body[0].value) if isinstance(n, ast.Name)} - set(params)
    if skip and self.selfname != [a.arg for a in h.args.posonlyargs + h.args.args][0]:
      return None
    # names of the helper that are not parameters must mean the same in the
    # caller: module-level names only (not locals of the caller)
    caller_locals = {a.arg for a in self.fn.args.posonlyargs + self.fn.args.args
                     + self.fn.args.kwonlyargs} | {
        x.id for x in ast.walk(self.fn)
        if isinstance(x, ast.Name) and isinstance(x.ctx, ast.Store)}
    if (free - {self.selfname}) & caller_locals:
      return None
    expr = copy.deepcopy(body[0].value)

    class Sub(ast.NodeTransformer):
      def visit_Name(self, n):
        if isinstance(n.ctx, ast.Load) and n.id in env:
          return copy.deepcopy(env[n.id])
        return n
    return Sub().visit(expr)

  def role(self, e, stmt):
    """'declared' (<p>.type) | 'mutated' (<p>.mutated_type) | None."""
    e, at = self.resolve(e, stmt)
    if isinstance(e, ast.Attribute) and isinstance(e.value, ast.Name) and \
        e.value.id == self.p and self.defs.at(self.p, at) == frozenset(["param"]):
      return {"type": "declared", "mutated_type": "mutated"}.get(e.attr)
    return None

  def join_members(self, e, stmt, depth=0):
    """-> set of roles joined by e ('unknown' for members that are neither);
    None when e is not a join / role at all."""
    if depth > 6:
      return None
    r = self.role(e, stmt)
    if r:
      return {r}
    e, at = self.resolve(e, stmt)
    if isinstance(e, ast.IfExp):
      a = self.join_members(e.body, at, depth + 1)
      b = self.join_members(e.orelse, at, depth + 1)
      if a is None or b is None:
        return None
      return (a & b) | ({"unknown"} if "unknown" in (a | b) else set())
    if isinstance(e, ast.Call):
      last = (dotted(e.func) or "").split(".")[-1]
      if last in ("JoinTypes", "UnionType"):
        arg = e.args[0] if e.args else None
        if arg is None:
          kws = {k.arg: k.value for k in e.keywords}
          arg = kws.get("types") or kws.get("type_list")
        if arg is None:
          return None
        arg, at2 = self.resolve(arg, at)
        if not isinstance(arg, (ast.List, ast.Tuple)) or any(
            isinstance(x, ast.Starred) for x in arg.elts):
          return None
        out = set()
        for x in arg.elts:
          sub = self.join_members(x, at2, depth + 1)
          out |= sub if sub is not None else {"unknown"}
        return out
      h = self._helper(e)
      if h is not None:
        return self.join_members(h, at, depth + 1)
    return None

  # -- returns ------------------------------------------------------------------
  def verdict(self, e, stmt, depth=0):
    """-> ('same'|'joined', text) | ('narrow', why) | None."""
    if depth > 4:
      return None
    v, at = self.resolve(e, stmt)
    if isinstance(v, ast.Name) and v.id == self.p and \
        self.defs.at(self.p, at) == frozenset(["param"]):
      return ("same", "the parameter itself")
    if isinstance(v, ast.IfExp):
      a, b = self.verdict(v.body, at, depth + 1), self.verdict(v.orelse, at, depth + 1)
      if a is None or b is None:
        return None
      for x in (a, b):
        if x[0] == "narrow":
          return x
      return a if a[0] == "joined" else b
    if isinstance(v, ast.Call) and isinstance(v.func, ast.Attribute) and \
        v.func.attr == "Replace" and isinstance(v.func.value, ast.Name) and \
        v.func.value.id == self.p and not v.args and \
        self.defs.at(self.p, at) == frozenset(["param"]):
      kws = {k.arg: k.value for k in v.keywords}
      if None in kws or set(kws) - {"type", "mutated_type"}:
        return None
      if "type" not in kws:
        return None      # drops or changes the mutation only: not an absorption
      mt = kws.get("mutated_type")
      if not (isinstance(mt, ast.Constant) and mt.value is None):
        return None
      members = self.join_members(kws["type"], at)
      if members is None:
        return None
      missing = sorted({"declared", "mutated"} - members)
      if not missing:
        return ("joined", src(kws["type"])[:80])
      what = {"declared": f"the declared type {self.p}.type",
              "mutated": f"the mutated type {self.p}.mutated_type"}
      return ("narrow",
              f"the new type `{src(kws['type'])[:80]}` is built without "
              + " and ".join(what[m] for m in missing))
    if isinstance(v, ast.Call):
      h = self._helper(v)
      if h is not None:
        return self.verdict(h, at, depth + 1)
    return None


@rule("R11.23", "C11", floor=2)
def r11_23(ctx):
  """The result of absorbing a parameter's mutation is built from BOTH the
  declared and the mutated type on every path."""
  mod = get_module(ctx, OPT)
  found = _absorbers(mod)
  if not found:
    raise AnalysisError("pytd/optimize.py: no visitor reads Parameter.mutated_type "
                        "in VisitParameter (AbsorbMutableParameters expected)")
  for cname, fn, p in found:
    rets = sorted((n for n in walk_no_nested(fn) if isinstance(n, ast.Return)),
                  key=lambda n: n.lineno)
    if not rets:
      raise AnalysisError(f"{cname}.VisitParameter has no return")
    dec = _Decider(ctx, mod, cname, fn, p)
    joined = narrowed = 0
    for i, r in enumerate(rets):
      construct = f"{cname}.VisitParameter:return" + ("" if i == 0 else f"#{i + 1}")
      if r.value is None:
        raise AnalysisError(f"{construct}: returns None (removes the parameter)")
      v = dec.verdict(r.value, r)
      if v is None:
        raise AnalysisError(
            f"{construct}: `{src(r.value)[:90]}` is neither the parameter itself "
            f"nor {p}.Replace(type=<join of {p}.type and {p}.mutated_type>, "
            "mutated_type=None)")
      if v[0] == "narrow":
        narrowed += 1
        ctx.bad(construct, OPT, r.lineno,
                f"{cname}.VisitParameter clears the mutation but {v[1]}: the "
                "absorbed parameter must admit what the declaration admitted AND "
                "what the function leaves behind - `def f(x: list[int]): x = "
                "list[Union[str, bytes]]` becomes x: list[Union[str, bytes]] and "
                "[1, 2], accepted before, is rejected (narrowing)",
                {"returns": src(r.value)[:120]})
      else:
        joined += v[0] == "joined"
        ctx.ok(construct, OPT, r.lineno, {"kind": v[0], "value": v[1]})
    if not joined and not narrowed:
      raise AnalysisError(
          f"{cname}.VisitParameter never absorbs the mutation into the type")


_OLD = ("    if p.mutated_type is None:\n      return p\n    else:\n      return p.Replace(\n"
        "          type=pytd_utils.JoinTypes([p.type, p.mutated_type]), mutated_type=None\n      )\n")

VARIANTS = [
    {"name": "seeded-C11-r4m2", "rule": "R11.23", "patch": "seeded/C11-r4m2/patch.diff",
     "expect": "fire"},
    {"name": "absorb-takes-the-mutated-type", "rule": "R11.23", "file": OPT, "expect": "fire",
     "old": _OLD,
     "new": "    if p.mutated_type is None:\n      return p\n    return p.Replace(type=p.mutated_type, mutated_type=None)\n"},
    {"name": "absorb-keeps-the-declared-type-only", "rule": "R11.23", "file": OPT, "expect": "fire",
     "old": _OLD,
     "new": "    if p.mutated_type is None:\n      return p\n    return p.Replace(type=pytd_utils.JoinTypes([p.type]), mutated_type=None)\n"},
    {"name": "absorb-shortcut-for-unions-via-local", "rule": "R11.23", "file": OPT, "expect": "fire",
     "old": _OLD,
     "new": "    if p.mutated_type is None:\n      return p\n    after = p.mutated_type\n"
            "    if isinstance(after, pytd.UnionType):\n      return p.Replace(type=after, mutated_type=None)\n"
            "    return p.Replace(type=pytd_utils.JoinTypes([p.type, after]), mutated_type=None)\n"},
    {"name": "absorb-conditional-expression-drops-declared", "rule": "R11.23", "file": OPT, "expect": "fire",
     "old": _OLD,
     "new": "    if p.mutated_type is None:\n      return p\n"
            "    joined = pytd_utils.JoinTypes([p.type, p.mutated_type])\n"
            "    return p.Replace(type=p.mutated_type if p.type == p.mutated_type.base_type else joined, mutated_type=None)\n"},
    {"name": "twin-absorb-guard-clause-and-locals", "rule": "R11.23", "file": OPT, "expect": "silent",
     "old": _OLD,
     "new": "    if p.mutated_type is None:\n      return p\n    before, after = p.type, p.mutated_type\n"
            "    declared = p.type\n    mutated = p.mutated_type\n"
            "    widened = pytd_utils.JoinTypes([declared, mutated])\n"
            "    return p.Replace(type=widened, mutated_type=None)\n"},
    {"name": "twin-absorb-join-in-helper", "rule": "R11.23", "file": OPT, "expect": "silent",
     "old": _OLD,
     "new": "    if p.mutated_type is None:\n      return p\n"
            "    return p.Replace(type=self._Both(p.type, p.mutated_type), mutated_type=None)\n\n"
            "  def _Both(self, declared, mutated):\n    return pytd_utils.JoinTypes([declared, mutated])\n"},
    {"name": "twin-absorb-mutated-first-tuple", "rule": "R11.23", "file": OPT, "expect": "silent",
     "old": _OLD,
     "new": "    if p.mutated_type is not None:\n"
            "      return p.Replace(mutated_type=None, type=pytd_utils.JoinTypes((p.mutated_type, p.type)))\n"
            "    return p\n"},
    {"name": "absorb-through-unknown-function", "rule": "R11.23", "file": OPT, "expect": "error",
     "old": _OLD,
     "new": "    if p.mutated_type is None:\n      return p\n"
            "    return p.Replace(type=pytd_utils.Widen(p.type, p.mutated_type), mutated_type=None)\n"},
]
