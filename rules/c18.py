"""C18 - flow conditions and block-state merging preserve meaning (rewrite engine).

Schema match of rewrite/flow/conditions.py (decided completely) and the wiring
facts of rewrite/flow/variables.py and state.py that are necessary for the
merge clause (guard rails, not a proof of the merge clause).
"""
import ast

from sa.core import rule, AnalysisError
from sa.pyindex import get_module, dotted, src, calls_in, walk_no_nested
from rules import _schema as S

CD = "pytype/rewrite/flow/conditions.py"
VR = "pytype/rewrite/flow/variables.py"
ST = "pytype/rewrite/flow/state.py"

EXPLANATION = (
    "Schema match of the rewrite engine's flow layer.  Paper argument for the "
    "condition constructors: read `_And S` as 'all of S', `_Or S` as 'some of "
    "S'.  A combinator that returns the absorbing element as soon as it meets "
    "it, drops the identity element, may return the absorbing element when a "
    "member and its negation are both present (x and not x = false, x or not "
    "x = true), keeps the other members in a set and returns the identity "
    "element for none, the member for one and the connective over a frozenset "
    "otherwise is equivalent to the plain connective under every valuation; "
    "`Not` that unwraps a negation and otherwise wraps is equivalent to "
    "negation (not not x = x).  R18.1 decides exactly this for "
    "`_Composite.make`, `_Not.make`, the class constants _ACCEPT/_IGNORE and "
    "the public bindings Or/And/Not, by enumerating the kinds of argument "
    "(absorbing / identity / other, negation already present or not) and the "
    "sizes 0, 1, >= 2 of the accumulator against the path condition "
    "(sa.flow.guards) of every return, continue and add.  Nested terms: "
    "and/or are associative but do not associate with each other, so a "
    "member that is a term of the SAME connective (`isinstance(arg, cls)`) "
    "may be kept or replaced by exactly its members, while a term of the "
    "other connective must stay a member: R18.1 enumerates both kinds of "
    "nested argument as additional worlds of the loop, and R18.8 decides, "
    "independently of the loop's shape (work lists, comprehensions, "
    "pre-passes), that every read of an argument's member set "
    "(`<x>.conditions`) inside make sits under a class test on <x> that "
    "establishes `cls` itself - a test against _Composite, a tuple of "
    "classes or one fixed subclass is a violation (x and (a or b) would "
    "become x and a and b).  For block states "
    "the rules decide wiring facts that are necessary for 'a merge yields "
    "exactly the union of the values under every valuation': R18.2 "
    "conditioning combines with conditions.And over every binding (TRUE is "
    "the only short cut) and merging combines the block conditions with "
    "conditions.Or; R18.3 a variable that carries its block's condition "
    "implicitly is made explicit with the condition of the state it comes "
    "from; R18.4 every write into the value->condition map built from "
    "bindings is under a membership test whose true arm combines with "
    "conditions.Or, the map starts empty and both sides are folded through "
    "that loop (the D5 shape - a last-one-wins dict comprehension - is a "
    "violation); R18.5 no BlockState shares a mutable container with another "
    "and store_local marks the stored name as implicitly conditioned; R18.6 "
    "only a variable that is identical in both states is handed the merged "
    "block condition; R18.7 conditions, bindings and variables are frozen "
    "value objects (hashable, immutable), which the set-based constructors "
    "and the sharing of variables between states rely on.  The condition "
    "constructors are decided completely; for the merge the rules are "
    "necessary conditions only: they do not prove the union property (it "
    "additionally rests on the invariant that an explicit binding condition "
    "implies its block's condition, which holds for states built through the "
    "public operations but is not checked).")
ASSUMPTIONS = [
    "conditions are built through conditions.And/Or/Not; TRUE/FALSE are the "
    "module constants (identity tests)",
    "a name in BlockState._locals_with_block_condition means: the bindings of "
    "that local are implicitly and-ed with the state's condition",
    "for names not in that set every binding condition already implies the "
    "state's condition (true for states produced by store_local, "
    "with_condition and merge_into; not checked for hand-built states)",
    "values are hashable (they key the value->condition map)",
    "_And and _Or are the only subclasses of _Composite and inherit make "
    "unchanged, so inside make `cls` is the connective being built and "
    "isinstance(x, cls) / type(x) is cls both mean 'a term of that "
    "connective' (checked: no own make/__init__)",
]


# ---------------------------------------------------------------------------
# helpers

def _identity_atom(e, var, consts):
  if isinstance(e, ast.Compare) and len(e.ops) == 1 and \
      isinstance(e.ops[0], (ast.Is, ast.IsNot)):
    l, r = src(e.left), src(e.comparators[0])
    for k in consts:
      if (l, r) in ((var, k), (k, var)):
        return k, isinstance(e.ops[0], ast.Is)
  return None


def _member_atom(e, item, container):
  """`item in container` -> True, `item not in container` -> False, else None."""
  if isinstance(e, ast.Compare) and len(e.ops) == 1 and \
      src(e.left) == item and src(e.comparators[0]) == container:
    if isinstance(e.ops[0], ast.In):
      return True
    if isinstance(e.ops[0], ast.NotIn):
      return False
  return None


def _class_test(e, var):
  """`isinstance(var, K)` / `type(var) is K` / `var.__class__ is K` -> (K text,
  positive); K is the unparsed class expression.  None for anything else."""
  if isinstance(e, ast.Call) and dotted(e.func) == "isinstance" and \
      len(e.args) == 2 and not e.keywords and src(e.args[0]) == var:
    k = e.args[1]
    if isinstance(k, ast.Tuple) and len(k.elts) == 1:
      k = k.elts[0]
    return src(k), True
  if isinstance(e, ast.Compare) and len(e.ops) == 1 and \
      isinstance(e.ops[0], (ast.Is, ast.IsNot, ast.Eq, ast.NotEq)):
    l, r = e.left, e.comparators[0]
    for x, y in ((l, r), (r, l)):
      if src(x) in (f"type({var})", f"{var}.__class__"):
        if src(y) == "_Composite":
          return None        # an exact-type test against the abstract base
        return src(y), isinstance(e.ops[0], (ast.Is, ast.Eq))
  return None


def _conjuncts(tests):
  """[(atom, polarity)] implied by a list of (test, polarity) that all hold."""
  out, todo = [], list(tests)
  while todo:
    t, pol = todo.pop(0)
    if isinstance(t, ast.UnaryOp) and isinstance(t.op, ast.Not):
      todo.insert(0, (t.operand, not pol))
    elif isinstance(t, ast.BoolOp) and isinstance(t.op, ast.And) and pol:
      todo = [(v, True) for v in t.values] + todo
    elif isinstance(t, ast.BoolOp) and isinstance(t.op, ast.Or) and not pol:
      todo = [(v, False) for v in t.values] + todo
    else:
      out.append((t, pol))
  return out


def _expr_context(mod, node):
  """Tests that hold when `node` is evaluated inside its own statement: earlier
  operands of enclosing `and`/`or`, IfExp tests, comprehension filters."""
  out, cur = [], node
  while cur in mod.parent and not isinstance(cur, ast.stmt):
    par = mod.parent[cur]
    if isinstance(par, ast.BoolOp) and cur in par.values:
      idx = par.values.index(cur)
      pol = isinstance(par.op, ast.And)
      out = [(v, pol) for v in par.values[:idx]] + out
    elif isinstance(par, ast.IfExp) and cur is not par.test:
      out = [(par.test, cur is par.body)] + out
    elif isinstance(par, (ast.ListComp, ast.SetComp, ast.GeneratorExp, ast.DictComp)):
      gens = par.generators
      if cur in gens:
        k = gens.index(cur)
        # the iterable of generator k is evaluated under the filters of 0..k-1
        for g in gens[:k]:
          out = [(i, True) for i in g.ifs] + out
      else:
        for g in gens:
          out = [(i, True) for i in g.ifs] + out
    elif isinstance(par, ast.comprehension) and cur in par.ifs:
      out = [(i, True) for i in par.ifs[:par.ifs.index(cur)]] + out
    cur = par
  return out


def _composite_field(mod):
  """Name of the one dataclass field of _Composite (the member set)."""
  fields = []
  for s in mod.cls("_Composite").body:
    if isinstance(s, ast.AnnAssign) and isinstance(s.target, ast.Name):
      if "ClassVar" in src(s.annotation):
        continue
      fields.append(s.target.id)
  if len(fields) != 1:
    raise AnalysisError(f"_Composite has fields {fields}, expected the member set only")
  return fields[0]


def _is_conditions(mod):
  return (mod.imports.get("conditions") or "").endswith("flow.conditions")


def _conn_call(node, mod):
  """('And'|'Or', [arg sources]) for conditions.And(..)/conditions.Or(..)."""
  if isinstance(node, ast.Call) and not node.keywords:
    d = dotted(node.func) or ""
    if d in ("conditions.And", "conditions.Or") and _is_conditions(mod):
      return d.split(".")[1], sorted(src(a) for a in node.args)
  return None


def _init_roles(mod):
  """BlockState.__init__: parameter -> field it initialises."""
  fn = mod.func("BlockState.__init__")
  ps = S.params_of(fn)
  roles = {}
  for n in walk_no_nested(fn):
    if isinstance(n, ast.Assign) and len(n.targets) == 1 and \
        isinstance(n.targets[0], ast.Attribute) and \
        src(n.targets[0].value) == ps[0] and isinstance(n.value, ast.Name) and \
        n.value.id in ps[1:]:
      roles[n.value.id] = n.targets[0].attr
  want = {"_locals", "_condition", "_locals_with_block_condition"}
  if set(roles.values()) != want or len(roles) != 3:
    raise AnalysisError(f"BlockState.__init__ initialises {roles}")
  return fn, ps[1:], roles


def _bs_args(mod, call):
  """field -> argument expression of a BlockState(...) call."""
  _, ps, roles = _init_roles(mod)
  if any(isinstance(a, ast.Starred) for a in call.args) or \
      any(k.arg is None for k in call.keywords):
    raise AnalysisError("BlockState(...) called with star-arguments")
  bound = dict(zip(ps, call.args))
  for k in call.keywords:
    bound[k.arg] = k.value
  unknown = set(bound) - set(ps)
  if unknown:
    raise AnalysisError(f"BlockState(...) called with {sorted(unknown)}")
  return {roles[p]: v for p, v in bound.items()}


def _bs_calls(fn):
  return [c for c in calls_in(fn) if (dotted(c.func) or "").split(".")[-1] == "BlockState"]


def _items_loop(loops, owner, fnname):
  """The `for name, var in <owner>._locals.items()` loop."""
  hit = [l for l in loops if src(l.iter) == f"{owner}._locals.items()"]
  if len(hit) != 1:
    raise AnalysisError(
        f"{fnname}: expected one loop over {owner}._locals.items(), found {len(hit)}")
  l = hit[0]
  if not (isinstance(l.target, ast.Tuple) and len(l.target.elts) == 2 and
          all(isinstance(x, ast.Name) for x in l.target.elts)):
    raise AnalysisError(f"{fnname}: loop target `{src(l.target)}`")
  return l, l.target.elts[0].id, l.target.elts[1].id


# ---------------------------------------------------------------------------
# R18.1

@rule("R18.1", "C18", floor=19)
def r18_1(ctx):
  """_Composite.make / _Not.make / class constants / public bindings."""
  mod = get_module(ctx, CD)
  # class constants
  for const, cname in (("TRUE", "_True"), ("FALSE", "_False")):
    v = mod.assigns.get(const)
    if not (isinstance(v, ast.Call) and dotted(v.func) == cname and not v.args):
      raise AnalysisError(f"conditions.{const} is not {cname}()")
    mod.cls(cname)
  want = {("_Or", "_ACCEPT"): "TRUE", ("_Or", "_IGNORE"): "FALSE",
          ("_And", "_ACCEPT"): "FALSE", ("_And", "_IGNORE"): "TRUE"}
  role = {"_ACCEPT": "absorbing", "_IGNORE": "identity"}
  conn = {"_Or": "disjunction", "_And": "conjunction"}
  for (cname, attr), val in want.items():
    node = mod.class_attr(cname, attr)
    if node is None:
      raise AnalysisError(f"{cname}.{attr} not found")
    ctx.check(src(node) == val, f"{cname}.{attr}", CD, node.lineno,
              f"{cname}.{attr} = {src(node)}; the {role[attr]} element of a "
              f"{conn[cname]} is {val}", {"value": src(node), "expected": val})
  # _Composite.make
  fn = mod.func("_Composite.make")
  if "classmethod" not in [dotted(d) for d in fn.decorator_list]:
    raise AnalysisError("_Composite.make is not a classmethod")
  ps = S.params_of(fn)
  if len(ps) != 1 or fn.args.vararg is None or fn.args.kwarg or fn.args.kwonlyargs:
    raise AnalysisError("_Composite.make signature is not (cls, *args)")
  cls, args = ps[0], fn.args.vararg.arg
  ACC, IGN = f"{cls}._ACCEPT", f"{cls}._IGNORE"
  sym = S.Sym(mod, fn)
  if sym.counts.get(cls) or sym.counts.get(args):
    raise AnalysisError("_Composite.make rebinds its parameters")
  loop = S.single_loop(fn, args)
  a = loop.target.id
  if sym.counts.get(a, 0) != 1:
    raise AnalysisError(f"_Composite.make rebinds the loop variable {a}")
  acc, init, init_stmt = S.accumulator(mod, fn, loop)
  S.top_level_shape(fn, loop, init_stmt, sym)
  actions = S.loop_actions(mod, fn, loop, sym, acc)
  negs = (f"Not({a})", f"_Not.make({a})", f"_Not({a})")

  def atom_for(world):
    kind, neg = world

    def atom(t):
      hit = _identity_atom(t, a, (ACC, IGN))
      if hit is not None:
        k, positive = hit
        return (kind == {ACC: "accept", IGN: "ignore"}[k]) == positive
      for n in negs:
        m = _member_atom(t, n, acc)
        if m is not None:
          return neg == m
      ct = _class_test(t, a)
      if ct is not None:
        klass, positive = ct
        if klass == cls:
          return (kind == "same") == positive
        if klass == "_Composite":
          return (kind in ("same", "othercomp")) == positive
      return None
    return atom

  def describe(acts):
    return [k if p is None else f"{k} {src(p)}" for k, p, _, _ in acts]

  def ret_kind(v, kind):
    s = src(v)
    if s == ACC:
      return "absorbing"
    if s == IGN:
      return "identity"
    if s == a:
      return {"accept": "absorbing", "ignore": "identity", "other": "member"}[kind]
    raise AnalysisError(f"_Composite.make returns `{s}` inside the loop")

  ex = {}
  for kind in ("accept", "ignore", "same", "othercomp", "other"):
    for neg in (True, False):
      ex[(kind, neg)] = S.executed(actions, atom_for((kind, neg)))

  def summary(kind):
    return {f"negation-present={n}": describe(ex[(kind, n)]) for n in (True, False)}

  # absorbing element
  ok = True
  for neg in (True, False):
    acts = ex[("accept", neg)]
    rets = [x for x in acts if x[0] == "return"]
    ok = ok and len(rets) == 1 and ret_kind(rets[0][1], "accept") == "absorbing" \
        and not [x for x in acts if x[0] in ("add", "splice")]
  ctx.check(ok, "_Composite.make:absorb", CD, loop.lineno,
            f"an argument that is {ACC} must be returned at once: "
            f"{summary('accept')}", summary("accept"))
  # identity element: dropped (if its negation is present the absorbing
  # element may be returned: not I or I = absorbing)
  ok = True
  for neg in (True, False):
    acts = ex[("ignore", neg)]
    rets = [x for x in acts if x[0] == "return"]
    if [x for x in acts if x[0] in ("add", "splice")]:
      ok = False
    if rets and not (neg and len(rets) == 1 and
                     ret_kind(rets[0][1], "ignore") == "absorbing"):
      ok = False
  ctx.check(ok, "_Composite.make:identity", CD, loop.lineno,
            f"an argument that is {IGN} must be dropped: {summary('ignore')}",
            summary("ignore"))
  # complementary pair
  acts = ex[("other", True)]
  rets = [x for x in acts if x[0] == "return"]
  adds = [x for x in acts if x[0] == "add"]
  if rets:
    ok = len(rets) == 1 and not adds and \
        ret_kind(rets[0][1], "other") == "absorbing"
  else:
    ok = len(adds) == 1 and src(adds[0][1]) == a   # no short cut: still sound
  ctx.check(ok, "_Composite.make:complement", CD,
            rets[0][2].lineno if rets else loop.lineno,
            "when the negation of an argument is already a member the result "
            f"is the absorbing element {ACC} (x or not x = TRUE, x and not x = "
            f"FALSE); the loop executes {describe(acts)}",
            {"executes": describe(acts)})
  # anything else is kept
  acts = ex[("other", False)]
  eff = [x for x in acts if x[0] != "continue"]
  ok = len(eff) == 1 and eff[0][0] == "add" and src(eff[0][1]) == a
  ctx.check(ok, "_Composite.make:keep", CD, eff[0][2].lineno if eff else loop.lineno,
            "any other argument must be added to the accumulator (and nothing "
            f"else); the loop executes {describe(acts)}", {"executes": describe(acts)})
  # nested terms: a member that is itself a term of the SAME connective may be
  # kept or spliced (associativity); a term of the other connective is a
  # member like any other (and/or do not associate with each other)
  members_field = _composite_field(mod)
  for kind, construct, what in (
      ("same", "_Composite.make:nested-same-connective",
       f"a nested term of the same connective ({cls})"),
      ("othercomp", "_Composite.make:nested-other-connective",
       "a nested term of the other connective")):
    ok, why = True, ""
    for neg in (True, False):
      acts = ex[(kind, neg)]
      rets = [x for x in acts if x[0] == "return"]
      eff = [x for x in acts if x[0] in ("add", "splice")]
      if rets:
        if not (neg and len(rets) == 1 and not eff and
                ret_kind(rets[0][1], "other") == "absorbing"):
          ok, why = False, f"the loop executes {describe(acts)}"
        continue
      if len(eff) == 1 and eff[0][0] == "add" and src(eff[0][1]) == a:
        continue
      if len(eff) == 1 and eff[0][0] == "splice" and kind == "same" and \
          src(eff[0][1]) == f"{a}.{members_field}":
        continue
      ok, why = False, f"the loop executes {describe(acts)}"
    ctx.check(ok, construct, CD, loop.lineno,
              f"{what} must be kept as a member"
              + (f" or contribute exactly its members ({a}.{members_field})"
                 if kind == "same" else
                 "; splicing its members into this connective changes the "
                 "meaning (x and (a or b) is not x and a and b)")
              + f": {why}", summary(kind))
  kind = S.empty_kind(init)
  if kind is None:
    raise AnalysisError(f"_Composite.make: accumulator initialised with `{src(init)}`")
  ctx.check(kind == "set", "_Composite.make:accumulator", CD, init_stmt.lineno,
            f"the members are collected in a {kind}; idempotence and the "
            "negation look-up need a set", {"name": acc, "init": src(init)})
  # final arms
  paths = S.return_paths(mod, fn, sym, exclude=loop)
  table = S.decide(paths, S.CARD_WORLDS, lambda n: S.card_atom(acc, n))

  def final_kind(v):
    s = src(v)
    if s == f"{cls}(frozenset({acc}))":
      return "connective"
    if s in (f"{cls}({acc})", f"{cls}(set({acc}))", f"{cls}(list({acc}))",
             f"{cls}(tuple({acc}))"):
      return "connective over a non-frozenset"
    if s in (f"{acc}.pop()", f"next(iter({acc}))"):
      return "member"
    if s == IGN:
      return "identity"
    if s == ACC:
      return "absorbing"
    raise AnalysisError(f"_Composite.make: final return value `{s}` not understood")

  got = {n: final_kind(table[n][1]) for n in S.CARD_WORLDS}
  wantk = {0: "identity", 1: "member", 2: "connective", 3: "connective"}
  names = {0: "empty", 1: "single", 2: "many"}
  for n in (0, 1, 2):
    ok = got[n] == wantk[n] and (n != 2 or got[3] == wantk[3])
    ctx.check(ok, f"_Composite.make:{names[n]}", CD, table[n][0].lineno,
              f"with {'>= 2' if n == 2 else n} member(s) make must return the "
              f"{wantk[n]}" + (" over a frozenset (conditions are hashed)" if n == 2 else "")
              + f"; it returns `{src(table[n][1])}` ({got[n]})",
              {"size": n, "returns": src(table[n][1]),
               "guards": [(src(t), p) for t, p in table[n][2]]})
  # _Not.make
  fn = mod.func("_Not.make")
  if "classmethod" not in [dotted(d) for d in fn.decorator_list]:
    raise AnalysisError("_Not.make is not a classmethod")
  ps = S.params_of(fn)
  if len(ps) != 2:
    raise AnalysisError(f"_Not.make parameters {ps}")
  ncls, c = ps
  fields = [s.target.id for s in mod.cls("_Not").body
            if isinstance(s, ast.AnnAssign) and isinstance(s.target, ast.Name)]
  if len(fields) != 1:
    raise AnalysisError(f"_Not has fields {fields}")
  sym = S.Sym(mod, fn)
  paths = S.return_paths(mod, fn, sym)

  def not_atom(w):
    def atom(t):
      if isinstance(t, ast.Call) and dotted(t.func) == "isinstance" and \
          len(t.args) == 2 and src(t.args[0]) == c and \
          src(t.args[1]) in ("_Not", ncls):
        return w
      return None
    return atom

  table = S.decide(paths, (True, False), not_atom)

  def not_kind(v):
    s = src(v)
    if s == f"{c}.{fields[0]}":
      return "unwrap"
    if s in (f"{ncls}({c})", f"_Not({c})", f"{ncls}({fields[0]}={c})",
             f"_Not({fields[0]}={c})"):
      return "wrap"
    if s == c:
      return "unchanged"
    raise AnalysisError(f"_Not.make returns `{s}`")

  for w, wantn, label in ((True, "unwrap", "negation"), (False, "wrap", "other")):
    k = not_kind(table[w][1])
    ctx.check(k == wantn, f"_Not.make:{label}", CD, table[w][0].lineno,
              f"Not of a {'negation' if w else 'non-negation'} must {wantn} "
              f"it; it returns `{src(table[w][1])}` ({k})",
              {"returns": src(table[w][1]), "kind": k})
  # bindings and inheritance
  for name, cname in (("Not", "_Not"), ("Or", "_Or"), ("And", "_And")):
    v = mod.assigns.get(name)
    if v is None:
      raise AnalysisError(f"conditions.{name} not found")
    ok = src(v) == f"{cname}.make"
    if cname != "_Not":
      c_ = mod.cls(cname)
      bases = [dotted(b) for b in c_.bases]
      if bases != ["_Composite"] or "make" in mod.methods(cname):
        raise AnalysisError(f"{cname} has bases {bases} / its own make")
    ctx.check(ok, f"binding:{name}", CD, v.lineno,
              f"conditions.{name} is bound to `{src(v)}`, expected {cname}.make",
              {"bound_to": src(v)})


# ---------------------------------------------------------------------------
# R18.8

@rule("R18.8", "C18", floor=1)
def r18_8(ctx):
  """make unpacks the members of an argument only if it is a term of `cls`."""
  from sa import flow
  mod = get_module(ctx, CD)
  fn = mod.func("_Composite.make")
  ps = S.params_of(fn)
  if len(ps) != 1:
    raise AnalysisError("_Composite.make signature is not (cls, *args)")
  cls = ps[0]
  field = _composite_field(mod)
  for sub in ("_Or", "_And"):
    if "make" in mod.methods(sub) or mod.methods(sub).get("__init__"):
      raise AnalysisError(f"{sub} overrides make/__init__")
  reads = []
  for n in ast.walk(fn):
    if isinstance(n, ast.Attribute) and n.attr == field and \
        isinstance(n.ctx, ast.Load) and src(n.value) not in (cls, "self"):
      if mod.enclosing_function(n) is not fn:
        raise AnalysisError(
            f"_Composite.make reads .{field} inside a nested function")
      reads.append(n)
  reads.sort(key=lambda n: (n.lineno, n.col_offset))
  sites = []
  for n in reads:
    x = src(n.value)
    st = mod.enclosing_stmt(n)
    holder = st
    # a read in the header of a compound statement is not guarded by that header
    tests = list(flow.guards(mod.parent, holder)) + _expr_context(mod, n)
    classes = []
    for t, pol in _conjuncts(tests):
      ct = _class_test(t, x)
      if ct is not None and ct[1] == pol:
        classes.append(ct[0])
    # the tested name must still denote the tested object at the read
    test_lines = [mod.enclosing_stmt(t).lineno for t, _ in tests
                  if _class_test(t, x) is not None or any(
                      _class_test(c, x) is not None for c, _ in _conjuncts([(t, True)]))]
    for m in ast.walk(fn):
      if isinstance(m, ast.Name) and isinstance(m.ctx, ast.Store) and m.id == x \
          and any(tl < m.lineno <= n.lineno for tl in test_lines):
        raise AnalysisError(
            f"_Composite.make: {x} is rebound between its class test and the "
            f"read of {x}.{field}")
    facts = {"reads": src(n), "class_tests": classes, "statement": src(st)[:80]}
    sites.append(src(n))
    if cls in classes:
      ctx.ok(f"_Composite.make:unpacks-same-connective-only:{x}", CD, n.lineno, facts)
    elif classes:
      ctx.bad(f"_Composite.make:unpacks-same-connective-only:{x}", CD, n.lineno,
              f"`{src(n)}` unpacks the members of {x} under the class test "
              f"{classes}, which does not establish that {x} is a term of the "
              f"connective being built (`{cls}`): an _Or nested in And(...) (or "
              "an _And in Or(...)) would be spliced into the outer connective, "
              "and x and (a or b) is not x and a and b", facts)
    else:
      raise AnalysisError(
          f"_Composite.make reads `{src(n)}` without a recognisable class test "
          f"on {x}: cannot tell which connective is being unpacked")
  ctx.ok("_Composite.make:member-unpacking-sites", CD, fn.lineno,
         {"sites": sites, "member_field": field})


# ---------------------------------------------------------------------------
# R18.2

@rule("R18.2", "C18", floor=8)
def r18_2(ctx):
  """Conditioning uses And over every binding; merging uses Or."""
  # ---- Variable.with_condition
  mod = get_module(ctx, VR)
  fn = mod.func("Variable.with_condition")
  ps = S.params_of(fn)
  if len(ps) != 2:
    raise AnalysisError(f"Variable.with_condition parameters {ps}")
  me, cond = ps
  sym = S.Sym(mod, fn)
  conns = [c for c in calls_in(fn) if _conn_call(c, mod)]
  if len(conns) != 1:
    raise AnalysisError(
        f"Variable.with_condition: {len(conns)} conditions.And/Or calls")
  call = conns[0]
  # the iteration the call sits in
  node, it = call, None
  while node is not fn:
    node = mod.parent[node]
    if isinstance(node, ast.For):
      it = (node.target, node.iter, [], node)
      break
    if isinstance(node, (ast.GeneratorExp, ast.ListComp)):
      if len(node.generators) != 1:
        raise AnalysisError("Variable.with_condition: nested comprehension")
      g = node.generators[0]
      it = (g.target, g.iter, g.ifs, node)
      break
  if it is None or not isinstance(it[0], ast.Name):
    raise AnalysisError("Variable.with_condition: the And call is not inside "
                        "an iteration over the bindings")
  b = it[0].id
  kind, cargs = _conn_call(call, mod)
  _vocab("Variable.with_condition", cargs, (f"{b}.condition", cond))
  facts = {"connective": kind, "args": cargs}
  ctx.check(kind == "And" and cargs == sorted([f"{b}.condition", cond]),
            "Variable.with_condition:and", VR, call.lineno,
            f"each binding must get conditions.And(its own condition, the new "
            f"condition); found conditions.{kind}({', '.join(cargs)})", facts)
  # every binding, unconditionally, and the result is what is returned
  new_b = None
  for c in calls_in(fn):
    if (dotted(c.func) or "").endswith("replace") and c.args and src(c.args[0]) == b:
      kw = [k for k in c.keywords if k.arg == "condition"]
      if kw and src(sym.resolve(kw[0].value, c)) == src(sym.resolve(call, call)):
        new_b = c
  problems = []
  if new_b is None:
    problems.append("the combined condition is not installed by "
                    f"dataclasses.replace({b}, condition=...)")
  if src(it[1]) != f"{me}.bindings":
    problems.append(f"iterates `{src(it[1])}`, not {me}.bindings")
  if it[2]:
    problems.append(f"filters the bindings with `{src(it[2][0])}`")
  holder = it[3]
  if isinstance(holder, ast.For):
    for n in ast.walk(holder):
      if isinstance(n, (ast.Break, ast.Continue, ast.Return)):
        problems.append(f"`{type(n).__name__.lower()}` inside the loop")
    apps = [c for c in calls_in(holder) if isinstance(c.func, ast.Attribute)
            and c.func.attr == "append"]
    if len(apps) != 1:
      raise AnalysisError("Variable.with_condition: expected one append in the loop")
    app = apps[0]
    lst = src(app.func.value)
    g = S.guards(mod, mod.enclosing_stmt(app), sym, within=holder)
    if g:
      problems.append(f"appends only under {[(src(t), p) for t, p in g]}")
    if new_b is not None and src(sym.resolve(app.args[0], app)) != src(sym.resolve(new_b, new_b)):
      problems.append(f"appends `{src(app.args[0])}`, not the re-conditioned binding")
    result = f"tuple({lst})"
  else:
    if new_b is not None and src(sym.resolve(holder.elt, holder)) != src(sym.resolve(new_b, new_b)):
      problems.append("the comprehension does not yield the re-conditioned binding")
    result = None
  rets = S.return_paths(mod, fn, sym)
  final = [p for p in rets if src(p[1]) != me]
  if len(final) != 1:
    raise AnalysisError("Variable.with_condition: expected one non-trivial return")
  fv = final[0][1]
  okret = isinstance(fv, ast.Call) and (dotted(fv.func) or "").endswith("replace") \
      and fv.args and src(fv.args[0]) == me
  bkw = [k for k in fv.keywords if k.arg == "bindings"] if okret else []
  if not bkw:
    raise AnalysisError(f"Variable.with_condition returns `{src(fv)[:70]}`")
  if result is not None and src(bkw[0].value) != result:
    problems.append(f"returns bindings={src(bkw[0].value)}, expected {result}")
  if result is None:
    orig = final[0][0].value
    okw = [k for k in getattr(orig, "keywords", []) if k.arg == "bindings"]
    if not okw or not _inside_node(mod, holder, okw[0].value):
      problems.append("the comprehension is not what is returned as bindings")
  ctx.check(not problems, "Variable.with_condition:every-binding", VR, fn.lineno,
            "every binding of the variable must be re-conditioned: "
            + "; ".join(problems),
            {"iterates": src(it[1]), "problems": problems})
  # the only short cut is the identity element of And
  short = [p for p in rets if src(p[1]) == me]
  ok = all([(src(t), pol) for t, pol in p[2]] in
           ([(f"{cond} is conditions.TRUE", True)],
            [(f"conditions.TRUE is {cond}", True)]) for p in short)
  ctx.check(ok, "Variable.with_condition:true-shortcut", VR,
            short[0][0].lineno if short else fn.lineno,
            "the variable may be returned unchanged only when the condition "
            "is conditions.TRUE; found "
            f"{[[(src(t), pol) for t, pol in p[2]] for p in short]}",
            {"shortcuts": [[(src(t), pol) for t, pol in p[2]] for p in short]})

  # ---- BlockState.with_condition
  mod = get_module(ctx, ST)
  fn = mod.func("BlockState.with_condition")
  ps = S.params_of(fn)
  if len(ps) != 2:
    raise AnalysisError(f"BlockState.with_condition parameters {ps}")
  me, cond = ps
  cond_in = f"<{cond}>" if cond in S.Sym(mod, fn).rebound_params else cond
  sym = S.Sym(mod, fn)
  bs = _bs_calls(fn)
  rets = [n for n in walk_no_nested(fn) if isinstance(n, ast.Return)]
  if len(bs) != 1 or len(rets) != 1 or rets[0].value is not bs[0]:
    raise AnalysisError("BlockState.with_condition: expected a single `return BlockState(...)`")
  bargs = _bs_args(mod, bs[0])
  if "_condition" not in bargs or "_locals" not in bargs:
    raise AnalysisError("BlockState.with_condition: BlockState(...) without condition/locals")
  newc = sym.resolve(bargs["_condition"], bs[0])
  cc = _conn_call(newc, mod)
  if cc is None:
    raise AnalysisError(
        f"BlockState.with_condition: new block condition is `{src(newc)}`")
  combined = src(newc)
  _vocab("BlockState.with_condition", cc[1], (f"{me}._condition", cond_in))
  ctx.check(cc == ("And", sorted([f"{me}._condition", cond_in])),
            "BlockState.with_condition:and", ST, bs[0].lineno,
            "the new block condition must be conditions.And(own condition, "
            f"given condition); found `{combined}`",
            {"connective": cc[0], "args": cc[1]})
  loops = [s for s in fn.body if isinstance(s, ast.For)]
  loop, name, var = _items_loop(loops, me, "BlockState.with_condition")
  newl = src(bargs["_locals"])
  stores = []
  for n in ast.walk(loop):
    if isinstance(n, ast.Assign) and len(n.targets) == 1 and \
        isinstance(n.targets[0], ast.Subscript):
      if src(n.targets[0]) != f"{newl}[{name}]":
        raise AnalysisError(f"BlockState.with_condition: store `{src(n.targets[0])}`")
      stores.append(n)
    elif isinstance(n, ast.stmt) and not isinstance(n, (ast.If, ast.For, ast.Pass)):
      raise AnalysisError(f"BlockState.with_condition: statement `{src(n)[:60]}` in the loop")
  lw = f"{me}._locals_with_block_condition"

  def impl_atom(w):
    return lambda t: (None if _member_atom(t, name, lw) is None
                      else _member_atom(t, name, lw) == w)

  for w, label in ((True, "implicit-kept"), (False, "explicit-conditioned")):
    hit = [s for s in stores
           if S.holds(S.guards(mod, s, sym, within=loop), impl_atom(w))]
    if len(hit) != 1:
      raise AnalysisError(
          f"BlockState.with_condition: {len(hit)} stores for a name "
          f"{'in' if w else 'not in'} {lw}")
    val = src(sym.resolve(hit[0].value, hit[0]))
    known = (var, f"{var}.with_condition({combined})",
             f"{var}.with_condition({cond_in})",
             f"{var}.with_condition({me}._condition)")
    if val not in known:
      raise AnalysisError(f"BlockState.with_condition stores `{val}`")
    if w:
      ok = val == var
      why = ("a local that carries the block condition implicitly must be "
             "copied unchanged (the new block condition covers it)")
    else:
      ok = val in (f"{var}.with_condition({combined})",
                   f"{var}.with_condition({cond_in})")
      why = ("a local with explicit conditions must be conditioned with the "
             "new condition (and-ed with the block condition or not)")
    ctx.check(ok, f"BlockState.with_condition:{label}", ST, hit[0].lineno,
              f"{why}; it is stored as `{val}`", {"stored": val})
  # ---- merge_into: block conditions
  fn = mod.func("BlockState.merge_into")
  ps = S.params_of(fn)
  if len(ps) != 2:
    raise AnalysisError(f"merge_into parameters {ps}")
  me, other = ps
  sym = S.Sym(mod, fn)
  table = _merge_returns(mod, fn, sym, other)
  bargs = _bs_args(mod, table[False][1])
  if "_condition" not in bargs:
    raise AnalysisError("merge_into: merged BlockState without condition")
  newc = sym.resolve(bargs["_condition"], table[False][0])
  cc = _conn_call(newc, mod)
  if cc is None:
    raise AnalysisError(f"merge_into: merged block condition is `{src(newc)}`")
  _vocab("merge_into", cc[1], (f"{me}._condition", f"{other}._condition"))
  ctx.check(cc == ("Or", sorted([f"{me}._condition", f"{other}._condition"])),
            "merge_into:block-or", ST, table[False][0].lineno,
            "the merged block condition must be conditions.Or of the two block "
            f"conditions; found `{src(newc)}`", {"connective": cc[0], "args": cc[1]})
  bargs = _bs_args(mod, table[True][1])
  c0 = src(sym.resolve(bargs["_condition"], table[True][0])) if "_condition" in bargs else None
  ctx.check(c0 == f"{me}._condition", "merge_into:none-copy", ST,
            table[True][0].lineno,
            "merging into nothing must keep the state's own condition; found "
            f"`{c0}`", {"condition": c0})


def _vocab(where, args, allowed):
  extra = [a for a in args if a not in allowed]
  if extra:
    raise AnalysisError(
        f"{where}: connective applied to {extra}, outside {list(allowed)}")


def _inside_node(mod, node, anc):
  while node is not None:
    if node is anc:
      return True
    node = mod.parent.get(node)
  return False


def _merge_returns(mod, fn, sym, other):
  """{other-is-None: (return stmt, BlockState call)} for merge_into."""
  paths = S.return_paths(mod, fn, sym)

  def atom_for(none):
    def atom(t):
      s = src(t)
      if s == other:
        return not none
      if s in (f"{other} is None", f"None is {other}"):
        return none
      if s in (f"{other} is not None", f"None is not {other}"):
        return not none
      return None
    return atom

  table = S.decide(paths, (True, False), atom_for)
  out = {}
  for w in (True, False):
    r, v, _ = table[w]
    if not (isinstance(v, ast.Call) and
            (dotted(v.func) or "").split(".")[-1] == "BlockState"):
      raise AnalysisError(f"merge_into returns `{src(v)[:60]}`")
    out[w] = (r, v)
  return out


# ---------------------------------------------------------------------------
# R18.3

def _merge_loops(mod, fn):
  ps = S.params_of(fn)
  me, other = ps
  loops = [s for s in fn.body if isinstance(s, ast.For)]
  l1 = _items_loop(loops, me, "merge_into")
  l2 = _items_loop(loops, other, "merge_into")
  return me, other, l1, l2


@rule("R18.3", "C18", floor=2)
def r18_3(ctx):
  """An implicitly conditioned variable is made explicit with its own state's condition."""
  mod = get_module(ctx, ST)
  fn = mod.func("BlockState.merge_into")
  sym = S.Sym(mod, fn)
  me, other, l1, l2 = _merge_loops(mod, fn)
  sites = [c for c in calls_in(fn) if isinstance(c.func, ast.Attribute)
           and c.func.attr == "with_condition"]
  by_side = {me: [], other: []}
  for c in sites:
    loop = None
    for owner, (l, name, var) in ((me, l1), (other, l2)):
      if _inside_node(mod, c, l):
        loop = (owner, l, name, var)
    if loop is None:
      raise AnalysisError(
          f"merge_into: `{src(c)}` outside the two loops over the locals")
    by_side[loop[0]].append((c, loop))
  for owner, label in ((me, "self-side"), (other, "other-side")):
    found = by_side[owner]
    if not found:
      ctx.bad(f"merge_into:{label}", ST, fn.lineno,
              f"the locals of `{owner}` that carry its block condition "
              "implicitly are never given that condition explicitly: after "
              "the merge their values are no longer restricted to that block",
              {"sites": 0})
      continue
    problems, facts = [], []
    for c, (_, loop, name, var) in found:
      stmt = mod.enclosing_stmt(c)
      recv = src(c.func.value)
      arg = src(sym.resolve(c.args[0], c)) if len(c.args) == 1 and \
          not c.keywords else src(c)
      g = S.guards(mod, stmt, sym, within=loop)
      owners = [x for x in (me, other)
                if any(_member_atom(t, name, f"{x}._locals_with_block_condition") is pol
                       for t, pol in g)]
      facts.append({"receiver": recv, "condition": arg,
                    "guards": [(src(t), p) for t, p in g]})
      if recv != var:
        raise AnalysisError(
            f"merge_into: with_condition applied to `{recv}`, not the loop variable")
      if arg not in (f"{me}._condition", f"{other}._condition"):
        raise AnalysisError(f"merge_into: with_condition(`{arg}`)")
      if arg != f"{owner}._condition":
        problems.append(
            f"a variable taken from {owner}._locals is conditioned with {arg}")
      if owners != [owner]:
        problems.append(
            f"the conditioning of {owner}'s variable is guarded by membership "
            f"in the implicit set of {owners or 'no state'}")
      # the conditioned variable must be what is used afterwards
      tgt = None
      if isinstance(stmt, ast.Assign) and len(stmt.targets) == 1 and stmt.value is c:
        tgt = src(stmt.targets[0])
      if tgt is None or not (tgt == var or tgt.endswith(f"[{name}]")):
        problems.append("the conditioned variable is not stored "
                        f"(statement `{src(stmt)[:50]}`)")
    ctx.check(not problems, f"merge_into:{label}", ST, found[0][0].lineno,
              "; ".join(problems), {"sites": facts})


# ---------------------------------------------------------------------------
# R18.4

def _bindings_seqs(expr):
  """The `X.bindings` operands of a (possibly concatenated/chained) sequence."""
  if isinstance(expr, ast.BinOp) and isinstance(expr.op, ast.Add):
    return _bindings_seqs(expr.left) + _bindings_seqs(expr.right)
  if isinstance(expr, ast.Call) and (dotted(expr.func) or "").endswith("chain") \
      and not expr.keywords:
    out = []
    for a in expr.args:
      out.extend(_bindings_seqs(a))
    return out
  if isinstance(expr, ast.Attribute) and expr.attr == "bindings":
    return [src(expr)]
  if any(isinstance(n, ast.Attribute) and n.attr == "bindings" for n in ast.walk(expr)):
    raise AnalysisError(f"merge_into: bindings sequence `{src(expr)}` not understood")
  return []


@rule("R18.4", "C18", floor=5)
def r18_4(ctx):
  """The value->condition map combines duplicates on both sides."""
  mod = get_module(ctx, ST)
  fn = mod.func("BlockState.merge_into")
  sym = S.Sym(mod, fn)
  me, other, l1, (loop2, name, var) = _merge_loops(mod, fn)
  # loops over bindings with a keyed write
  floops = []
  for n in ast.walk(fn):
    if isinstance(n, ast.For) and _bindings_seqs(n.iter):
      if not isinstance(n.target, ast.Name):
        raise AnalysisError(f"merge_into: loop target `{src(n.target)}`")
      floops.append(n)
  seeds = []
  for n in ast.walk(fn):
    gens = None
    if isinstance(n, ast.DictComp):
      gens, key = n.generators, n.key
    elif isinstance(n, ast.Call) and dotted(n.func) == "dict" and n.args and \
        isinstance(n.args[0], (ast.GeneratorExp, ast.ListComp)):
      gens = n.args[0].generators
      elt = n.args[0].elt
      key = elt.elts[0] if isinstance(elt, ast.Tuple) and elt.elts else elt
    if gens and any(_bindings_seqs(g.iter) for g in gens):
      seeds.append((n, key, [s for g in gens for s in _bindings_seqs(g.iter)]))
  maps = set()
  writes = []
  for l in floops:
    b = l.target.id
    for n in ast.walk(l):
      if isinstance(n, ast.Assign) and len(n.targets) == 1 and \
          isinstance(n.targets[0], ast.Subscript):
        t = n.targets[0]
        if src(t.slice) != f"{b}.value":
          raise AnalysisError(f"merge_into: write keyed by `{src(t.slice)}`")
        maps.add(src(t.value))
        writes.append((l, b, n))
      elif isinstance(n, ast.AugAssign):
        raise AnalysisError(f"merge_into: `{src(n)}` in the bindings loop")
      elif isinstance(n, ast.stmt) and not isinstance(
          n, (ast.If, ast.For, ast.Pass, ast.Continue)):
        raise AnalysisError(f"merge_into: statement `{src(n)[:60]}` in the bindings loop")
  if len(maps) != 1:
    raise AnalysisError(f"merge_into: value->condition map not identified ({sorted(maps)})")
  M = maps.pop()
  inits = [s for s in ast.walk(fn) if isinstance(s, ast.Assign) and
           len(s.targets) == 1 and src(s.targets[0]) == M]
  if len(inits) != 1:
    raise AnalysisError(f"merge_into: {len(inits)} initialisations of {M}")
  init = inits[0]
  seed_here = [s for s in seeds if s[0] is init.value]
  if seed_here:
    ctx.bad("merge_into:bindings-map:init", ST, init.lineno,
            f"`{M}` is seeded by a dict comprehension/constructor over "
            f"{seed_here[0][2]}: a later binding of the same value silently "
            "replaces an earlier one (last one wins) instead of or-ing their "
            "conditions", {"init": src(init.value)})
  elif S.empty_kind(init.value) == "dict":
    ctx.ok("merge_into:bindings-map:init", ST, init.lineno, {"init": src(init.value)})
  else:
    raise AnalysisError(f"merge_into: `{M}` initialised with `{src(init.value)[:60]}`")
  for s in seeds:
    if s[0] is not init.value:
      raise AnalysisError("merge_into: unrelated dict built from bindings")
  # both sides go through the combining loop
  folded = []
  for l in floops:
    folded.extend(_bindings_seqs(l.iter))
  need = [f"locals_[{name}].bindings", f"{var}.bindings"]
  lname = None
  for n in ast.walk(loop2):
    if isinstance(n, ast.Assign) and len(n.targets) == 1 and \
        isinstance(n.targets[0], ast.Subscript) and src(n.targets[0].slice) == name:
      lname = src(n.targets[0].value)
  if lname is None:
    raise AnalysisError("merge_into: merged locals map not identified")
  need = [f"{lname}[{name}].bindings", f"{var}.bindings"]
  missing = [x for x in need if x not in folded]
  ctx.check(not missing, "merge_into:bindings-map:both-sides", ST,
            floops[0].lineno if floops else fn.lineno,
            f"the duplicate-combining loop folds {folded} but not {missing}: "
            "the two sides of one merge must be treated alike",
            {"folded": folded, "expected": need})
  # the two arms
  if len({id(l) for l, _, _ in writes}) != 1:
    raise AnalysisError("merge_into: writes in several bindings loops")
  l, b, _ = writes[0]
  key = f"{b}.value"

  def atom_for(present):
    return lambda t: (None if _member_atom(t, key, M) is None
                      else _member_atom(t, key, M) == present)

  for present, label in ((True, "duplicate"), (False, "fresh")):
    hit = [w for _, _, w in writes
           if S.holds(S.guards(mod, w, sym, within=l), atom_for(present))]
    if len(hit) != 1:
      raise AnalysisError(
          f"merge_into: {len(hit)} writes execute when the value is "
          f"{'already' if present else 'not yet'} in the map")
    v = sym.resolve(hit[0].value, hit[0])
    cc = _conn_call(v, mod)
    if cc is not None:
      _vocab("merge_into", cc[1], (f"{M}[{key}]", f"{b}.condition"))
    elif src(v) != f"{b}.condition":
      raise AnalysisError(f"merge_into: map entry set to `{src(v)[:70]}`")
    if present:
      ok = cc == ("Or", sorted([f"{M}[{key}]", f"{b}.condition"]))
      ctx.check(ok, "merge_into:bindings-map:duplicate", ST, hit[0].lineno,
                "a value that is already in the map must get conditions.Or("
                f"its condition so far, the new binding's condition); it gets "
                f"`{src(v)}`", {"stored": src(v)})
    else:
      ctx.check(src(v) == f"{b}.condition", "merge_into:bindings-map:fresh", ST,
                hit[0].lineno,
                "a value that is not yet in the map must get the binding's own "
                f"condition; it gets `{src(v)}`", {"stored": src(v)})
  # rebuilding the variable from the map
  rebuilt = None
  for n in ast.walk(loop2):
    if isinstance(n, ast.Assign) and len(n.targets) == 1 and \
        src(n.targets[0]) == f"{lname}[{name}]" and \
        any(src(x) == f"{M}.items()" for x in ast.walk(n.value)):
      rebuilt = n
  if rebuilt is None:
    raise AnalysisError("merge_into: the merged variable is not rebuilt from the map")
  gen = [x for x in ast.walk(rebuilt.value)
         if isinstance(x, (ast.GeneratorExp, ast.ListComp))]
  if len(gen) != 1 or len(gen[0].generators) != 1:
    raise AnalysisError("merge_into: rebuild expression shape")
  g = gen[0].generators[0]
  elt = gen[0].elt
  if not (isinstance(g.target, ast.Tuple) and len(g.target.elts) == 2 and
          isinstance(elt, ast.Call) and (dotted(elt.func) or "").endswith("Binding")):
    raise AnalysisError("merge_into: rebuild expression shape")
  k, v = (src(x) for x in g.target.elts)
  bound = dict(zip(("value", "condition"), (src(a) for a in elt.args)))
  for kw in elt.keywords:
    bound[kw.arg] = src(kw.value)
  ok = not g.ifs and src(g.iter) == f"{M}.items()" and \
      bound == {"value": k, "condition": v}
  ctx.check(ok, "merge_into:bindings-map:rebuild", ST, rebuilt.lineno,
            "every (value, condition) entry of the map must become "
            f"Binding(value, condition); found `{src(gen[0])}`",
            {"binding": bound, "filters": [src(i) for i in g.ifs]})


# ---------------------------------------------------------------------------
# R18.5

_COPIERS = ("dict", "set", "frozenset", "list", "tuple", "sorted")


def _freshness(expr, sym, owners):
  """'fresh' or 'shared:<what>'; AnalysisError when not understood."""
  if isinstance(expr, (ast.Dict, ast.Set, ast.List, ast.DictComp, ast.SetComp,
                       ast.ListComp)):
    return "fresh"
  if isinstance(expr, ast.Call):
    d = dotted(expr.func) or ""
    if d in _COPIERS or d.split(".")[-1] in ("immutabledict", "deepcopy"):
      return "fresh"
    if isinstance(expr.func, ast.Attribute) and expr.func.attr == "copy" and not expr.args:
      return "fresh"
    raise AnalysisError(f"freshness of `{src(expr)[:60]}` not understood")
  if isinstance(expr, ast.Attribute):
    root = expr
    while isinstance(root, ast.Attribute):
      root = root.value
    if isinstance(root, ast.Name) and root.id in owners:
      return f"shared:{src(expr)}"
    raise AnalysisError(f"freshness of `{src(expr)}` not understood")
  if isinstance(expr, ast.Name):
    nm = expr.id
    defs = sym.defs.get(nm, [])
    if nm in sym.params or not defs or len(defs) != sym.counts.get(nm, 0):
      raise AnalysisError(f"freshness of name `{nm}` not understood")
    kinds = {_freshness(d, sym, owners) for d in defs}
    if kinds == {"fresh"}:
      # the local must not escape anywhere else
      for n in walk_no_nested(sym.fn):
        if isinstance(n, ast.Assign) and isinstance(n.value, ast.Name) and \
            n.value.id == nm:
          raise AnalysisError(f"local `{nm}` is aliased by `{src(n)}`")
      return "fresh"
    return sorted(kinds - {"fresh"})[0]
  raise AnalysisError(f"freshness of `{src(expr)[:60]}` not understood")


@rule("R18.5", "C18", floor=9)
def r18_5(ctx):
  """No BlockState shares a mutable container; store_local marks the name."""
  mod = get_module(ctx, ST)
  init, ips, roles = _init_roles(mod)
  n_calls = 0
  for qual in ("BlockState.with_condition", "BlockState.merge_into"):
    fn = mod.func(qual)
    sym = S.Sym(mod, fn)
    owners = set(S.params_of(fn))
    short = qual.split(".")[1]
    calls = sorted(_bs_calls(fn), key=lambda c: c.lineno)
    for i, call in enumerate(calls):
      n_calls += 1
      bargs = _bs_args(mod, call)
      tag = f"{short}#{i + 1}" if len(calls) > 1 else short
      for field in ("_locals", "_locals_with_block_condition"):
        cons = f"BlockState({tag}):{field}"
        if field not in bargs:
          if field == "_locals":
            raise AnalysisError(f"{qual}: BlockState(...) without locals")
          ctx.ok(cons, ST, call.lineno, {"argument": "default (set(locals_))"})
          continue
        k = _freshness(bargs[field], sym, owners)
        ctx.check(k == "fresh", cons, ST, call.lineno,
                  f"the new state is given `{src(bargs[field])}` ({k}) as its "
                  f"{field}: the two states would share one mutable container, "
                  "so store_local on either changes the other",
                  {"argument": src(bargs[field]), "kind": k})
  others = [c for c in calls_in(mod.tree)
            if (dotted(c.func) or "").split(".")[-1] == "BlockState"]
  if len(others) != n_calls:
    raise AnalysisError(
        f"state.py constructs BlockState at {len(others)} sites, {n_calls} analysed")
  # __init__: the default implicit set is a fresh set of all names
  lp = [p for p, f in roles.items() if f == "_locals"][0]
  wp = [p for p, f in roles.items() if f == "_locals_with_block_condition"][0]
  vals = {}
  for n in walk_no_nested(init):
    if isinstance(n, ast.Assign) and len(n.targets) == 1 and \
        src(n.targets[0]) == "self._locals_with_block_condition":
      g = [(src(t), p) for t, p in S.guards(mod, n)]
      if g in ([(f"{wp} is None", True)], [(f"{wp} is not None", False)]):
        vals["default"] = src(n.value)
      elif g in ([(f"{wp} is None", False)], [(f"{wp} is not None", True)]):
        vals["given"] = src(n.value)
      else:
        raise AnalysisError(f"BlockState.__init__: implicit set assigned under {g}")
  if set(vals) != {"default", "given"} or vals["given"] != wp:
    raise AnalysisError(f"BlockState.__init__: implicit set initialised as {vals}")
  ctx.check(vals["default"] in (f"set({lp})", f"set({lp}.keys())", f"set(self._locals)"),
            "BlockState.__init__:default-implicit-set", ST, init.lineno,
            "without an explicit set every initial local carries the block "
            f"condition: the default must be a fresh set({lp}); found "
            f"`{vals['default']}`", vals)
  # get_locals
  fn = mod.func("BlockState.get_locals")
  rets = [n for n in walk_no_nested(fn) if isinstance(n, ast.Return)]
  if len(rets) != 1 or rets[0].value is None:
    raise AnalysisError("BlockState.get_locals: shape")
  sym = S.Sym(mod, fn)
  k = _freshness(sym.resolve(rets[0].value, rets[0]), sym, set(S.params_of(fn)))
  ctx.check(k == "fresh", "BlockState.get_locals", ST, rets[0].lineno,
            f"get_locals returns `{src(rets[0].value)}` ({k}): callers would "
            "hold the state's own dict", {"returns": src(rets[0].value), "kind": k})
  # store_local
  fn = mod.func("BlockState.store_local")
  ps = S.params_of(fn)
  if len(ps) != 3:
    raise AnalysisError(f"store_local parameters {ps}")
  me, nm, vr = ps
  writes = [n for n in walk_no_nested(fn) if isinstance(n, ast.Assign)
            and len(n.targets) == 1 and src(n.targets[0]) == f"{me}._locals[{nm}]"]
  if len(writes) != 1 or src(writes[0].value) != vr:
    raise AnalysisError("store_local: the write into _locals was not found")
  marks = [c for c in calls_in(fn)
           if src(c.func) == f"{me}._locals_with_block_condition.add"
           and len(c.args) == 1 and src(c.args[0]) == nm]
  unguarded = [c for c in marks if not S.guards(mod, mod.enclosing_stmt(c))]
  ctx.check(bool(unguarded) and not S.guards(mod, writes[0]),
            "BlockState.store_local:marks-implicit", ST, fn.lineno,
            "a value stored inside a block holds under that block's condition: "
            "store_local must add the name to _locals_with_block_condition in "
            f"the same call (found {len(marks)} unconditional marks)",
            {"marks": len(unguarded)})


# ---------------------------------------------------------------------------
# R18.6

@rule("R18.6", "C18", floor=3)
def r18_6(ctx):
  """Only a variable identical in both states takes the merged block condition."""
  mod = get_module(ctx, ST)
  fn = mod.func("BlockState.merge_into")
  sym = S.Sym(mod, fn)
  me, other, (loop, name, var), l2 = _merge_loops(mod, fn)
  table = _merge_returns(mod, fn, sym, other)
  bargs = _bs_args(mod, table[False][1])
  if "_locals" not in bargs or "_locals_with_block_condition" not in bargs:
    raise AnalysisError("merge_into: merged BlockState without locals / implicit set")
  L, W = src(bargs["_locals"]), src(bargs["_locals_with_block_condition"])
  if not (isinstance(bargs["_locals"], ast.Name) and
          isinstance(bargs["_locals_with_block_condition"], ast.Name)):
    raise AnalysisError("merge_into: merged containers are not plain locals")
  events = []
  for n in ast.walk(loop):
    if isinstance(n, ast.Assign) and len(n.targets) == 1 and \
        src(n.targets[0]) == f"{L}[{name}]":
      events.append(("store", src(sym.resolve(n.value, n)), n))
    elif isinstance(n, ast.Expr) and isinstance(n.value, ast.Call) and \
        src(n.value.func) == f"{W}.add" and len(n.value.args) == 1 and \
        src(n.value.args[0]) == name:
      events.append(("mark", name, n))
    elif isinstance(n, ast.stmt) and not isinstance(n, (ast.If, ast.For, ast.Pass)):
      raise AnalysisError(f"merge_into: statement `{src(n)[:60]}` in the first loop")
  marks_elsewhere = [c for c in calls_in(fn) if src(c.func) == f"{W}.add"
                     and not _inside_node(mod, c, loop)]
  in_other = f"{other}._locals"
  eqs = (f"{var} == {other}._locals[{name}]", f"{other}._locals[{name}] == {var}")
  impl = f"{me}._locals_with_block_condition"

  def atom_for(w):
    present, equal, implicit = w

    def atom(t):
      m = _member_atom(t, name, in_other)
      if m is not None:
        return present == m
      if src(t) in eqs:
        return equal
      m = _member_atom(t, name, impl)
      if m is not None:
        return implicit == m
      return None
    return atom

  worlds = [(p, e, i) for p in (True, False) for e in (True, False)
            for i in (True, False) if p or not e]
  ran = {}
  for w in worlds:
    ran[w] = [(k, v) for k, v, n in events
              if S.holds(S.guards(mod, n, sym, within=loop), atom_for(w))]
  def fmt(ws):
    return {f"in-other={p},equal={e},implicit={i}": ran[(p, e, i)] for p, e, i in ws}
  same = [w for w in worlds if w[1]]
  ok = all(sorted(ran[w]) == [("mark", name), ("store", var)] for w in same)
  ctx.check(ok, "merge_into:identical-variable", ST, loop.lineno,
            "a variable that is equal in both states must be stored unchanged "
            "and marked as carrying the merged block condition (p or q); "
            f"found {fmt(same)}", fmt(same))
  diff = [w for w in worlds if not w[1]]
  ok = not any(k == "mark" for w in diff for k, _ in ran[w]) and not marks_elsewhere
  ctx.check(ok, "merge_into:only-identical-marked", ST, loop.lineno,
            "a variable that differs between the states (or exists in one "
            "only) must not be marked as carrying the merged block condition: "
            "its bindings would be widened from p (or q) to p or q; "
            f"found {fmt(diff)} and {len(marks_elsewhere)} marks elsewhere",
            {"marks_elsewhere": len(marks_elsewhere), **fmt(diff)})
  expl = [w for w in diff if not w[2]]
  ok = all(ran[w] == [("store", var)] for w in expl)
  ctx.check(ok, "merge_into:explicit-kept", ST, loop.lineno,
            "a differing variable whose conditions are already explicit must "
            f"be stored unchanged; found {fmt(expl)}", fmt(expl))


# ---------------------------------------------------------------------------
# R18.7

def _frozen(mod, c):
  """Is class c decorated as a frozen dataclass (eq left on)?"""
  for d in c.decorator_list:
    node = d
    if isinstance(d, ast.Name) and d.id in mod.assigns:
      node = mod.assigns[d.id]
    if isinstance(node, ast.Call) and (dotted(node.func) or "").endswith("dataclass"):
      kws = {k.arg: k.value for k in node.keywords}
      fr = kws.get("frozen")
      eq = kws.get("eq")
      unsafe = kws.get("unsafe_hash")
      if isinstance(fr, ast.Constant) and fr.value is True and \
          (eq is None or (isinstance(eq, ast.Constant) and eq.value is True)) \
          and unsafe is None:
        return True, src(node)
      return False, src(node)
    if (dotted(node) or "").endswith("dataclass"):
      return False, src(node)
  return False, None


@rule("R18.7", "C18", floor=9)
def r18_7(ctx):
  """Conditions, bindings and variables are frozen value objects."""
  for rel, names in ((CD, ("Condition", "_True", "_False", "_Not", "_Composite",
                           "_Or", "_And")), (VR, ("Binding", "Variable"))):
    mod = get_module(ctx, rel)
    for nm in names:
      c = mod.cls(nm)
      ok, deco = _frozen(mod, c)
      if deco is None:
        raise AnalysisError(f"{nm} is not a dataclass")
      own = [m for m in ("__eq__", "__hash__", "__setattr__") if m in mod.methods(nm)]
      if own:
        raise AnalysisError(f"{nm} defines {own} itself")
      ctx.check(ok, f"{nm}:frozen", rel, c.lineno,
                f"{nm} is declared with `{deco}`: it must be a frozen dataclass "
                "with value equality (hashable: conditions are set members and "
                "are looked up by value; immutable: variables are shared "
                "between block states)", {"decorator": deco})


# ---------------------------------------------------------------------------
# sensitivity suite

_MAKE_LOOP = (
    "    conditions = set()\n"
    "    for arg in args:\n"
    "      if arg is cls._IGNORE:\n"
    "        continue\n"
    "      if arg is cls._ACCEPT:\n"
    "        return arg\n"
    "      negation = Not(arg)\n"
    "      if negation in conditions:\n"
    "        return cls._ACCEPT\n"
    "      conditions.add(arg)\n")
_MAKE_FINAL = (
    "    if not conditions:\n"
    "      return cls._IGNORE\n"
    "    if len(conditions) == 1:\n"
    "      return conditions.pop()\n"
    "    return cls(frozenset(conditions))\n")
_D5_NEW = (
    "      bindings = {}\n"
    "      for b in locals_[name].bindings + var.bindings:\n")
_D5_OLD = (
    "      bindings = {b.value: b.condition for b in locals_[name].bindings}\n"
    "      for b in var.bindings:\n")
_VAR_LOOP = (
    "    new_bindings = []\n"
    "    for b in self.bindings:\n"
    "      new_condition = conditions.And(b.condition, condition)\n"
    "      new_bindings.append(dataclasses.replace(b, condition=new_condition))\n"
    "    return dataclasses.replace(self, bindings=tuple(new_bindings))\n")

VARIANTS = [
    # R18.1
    {"name": "_And._ACCEPT-is-TRUE", "rule": "R18.1", "file": CD, "expect": "fire",
     "old": "  _ACCEPT: ClassVar[Condition] = FALSE\n", "new": "  _ACCEPT: ClassVar[Condition] = TRUE\n"},
    {"name": "_Or-constants-swapped", "rule": "R18.1", "file": CD, "expect": "fire",
     "old": "  _ACCEPT: ClassVar[Condition] = TRUE\n  _IGNORE: ClassVar[Condition] = FALSE\n",
     "new": "  _ACCEPT: ClassVar[Condition] = FALSE\n  _IGNORE: ClassVar[Condition] = TRUE\n"},
    {"name": "make-roles-swapped", "rule": "R18.1", "file": CD, "expect": "fire",
     "old": "      if arg is cls._IGNORE:\n        continue\n      if arg is cls._ACCEPT:\n        return arg\n",
     "new": "      if arg is cls._ACCEPT:\n        continue\n      if arg is cls._IGNORE:\n        return arg\n"},
    {"name": "make-complement-returns-identity", "rule": "R18.1", "file": CD, "expect": "fire",
     "old": "      if negation in conditions:\n        return cls._ACCEPT\n",
     "new": "      if negation in conditions:\n        return cls._IGNORE\n"},
    {"name": "make-complement-test-inverted", "rule": "R18.1", "file": CD, "expect": "fire",
     "old": "      if negation in conditions:\n        return cls._ACCEPT\n",
     "new": "      if negation not in conditions:\n        return cls._ACCEPT\n"},
    {"name": "make-identity-kept", "rule": "R18.1", "file": CD, "expect": "fire",
     "old": "      if arg is cls._IGNORE:\n        continue\n", "new": ""},
    {"name": "make-empty-returns-absorbing", "rule": "R18.1", "file": CD, "expect": "fire",
     "old": "    if not conditions:\n      return cls._IGNORE\n",
     "new": "    if not conditions:\n      return cls._ACCEPT\n"},
    {"name": "make-single-wrapped", "rule": "R18.1", "file": CD, "expect": "fire",
     "old": "    if len(conditions) == 1:\n      return conditions.pop()\n", "new": ""},
    {"name": "make-pair-collapses", "rule": "R18.1", "file": CD, "expect": "fire",
     "old": "    if len(conditions) == 1:\n", "new": "    if len(conditions) <= 2:\n"},
    {"name": "make-unhashable-composite", "rule": "R18.1", "file": CD, "expect": "fire",
     "old": "    return cls(frozenset(conditions))\n", "new": "    return cls(conditions)\n"},
    {"name": "Not-unwrap-inverted", "rule": "R18.1", "file": CD, "expect": "fire",
     "old": "    if isinstance(condition, _Not):\n      return condition.condition\n    return cls(condition)",
     "new": "    if not isinstance(condition, _Not):\n      return condition.condition\n    return cls(condition)"},
    {"name": "Not-of-Not-unchanged", "rule": "R18.1", "file": CD, "expect": "fire",
     "old": "      return condition.condition\n", "new": "      return condition\n"},
    {"name": "Or-bound-to-And", "rule": "R18.1", "file": CD, "expect": "fire",
     "old": "Or = _Or.make\n", "new": "Or = _And.make\n"},
    {"name": "twin-make-tests-reordered", "rule": "R18.1", "file": CD, "expect": "silent",
     "old": _MAKE_LOOP + _MAKE_FINAL,
     "new": ("    members = set()\n"
             "    for arg in args:\n"
             "      if arg is cls._ACCEPT:\n"
             "        return cls._ACCEPT\n"
             "      elif arg is cls._IGNORE:\n"
             "        continue\n"
             "      if Not(arg) in members:\n"
             "        return cls._ACCEPT\n"
             "      members.add(arg)\n"
             + _MAKE_FINAL.replace("conditions", "members"))},
    {"name": "twin-make-final-reordered", "rule": "R18.1", "file": CD, "expect": "silent",
     "old": _MAKE_FINAL,
     "new": ("    if len(conditions) > 1:\n"
             "      return cls(frozenset(conditions))\n"
             "    elif conditions:\n"
             "      return conditions.pop()\n"
             "    else:\n"
             "      return cls._IGNORE\n")},
    {"name": "twin-Not-else-arm", "rule": "R18.1", "file": CD, "expect": "silent",
     "old": "    if isinstance(condition, _Not):\n      return condition.condition\n    return cls(condition)",
     "new": "    return condition.condition if isinstance(condition, cls) else cls(condition)"},
    {"name": "unknown-idiom-any-comprehension", "rule": "R18.1", "file": CD, "expect": "error",
     "old": _MAKE_LOOP,
     "new": ("    if any(arg is cls._ACCEPT for arg in args):\n"
             "      return cls._ACCEPT\n"
             "    conditions = {arg for arg in args if arg is not cls._IGNORE}\n"
             "    if any(Not(arg) in conditions for arg in conditions):\n"
             "      return cls._ACCEPT\n")},
    # R18.8 / R18.1 nested terms
    {"name": "seeded-C18-m1", "rule": "R18.8", "patch": "seeded/C18-m1/patch.diff",
     "expect": "fire"},
    {"name": "make-flattens-any-composite", "rule": "R18.8", "file": CD, "expect": "fire",
     "old": "    for arg in args:\n      if arg is cls._IGNORE:\n",
     "new": ("    for arg in args:\n"
             "      if isinstance(arg, _Composite):\n"
             "        conditions.update(arg.conditions)\n"
             "        continue\n"
             "      if arg is cls._IGNORE:\n")},
    {"name": "make-flattens-any-composite-R18.1", "rule": "R18.1", "file": CD, "expect": "fire",
     "old": "    for arg in args:\n      if arg is cls._IGNORE:\n",
     "new": ("    for arg in args:\n"
             "      if isinstance(arg, _Composite):\n"
             "        conditions.update(arg.conditions)\n"
             "        continue\n"
             "      if arg is cls._IGNORE:\n")},
    {"name": "make-pre-flattens-both-connectives", "rule": "R18.8", "file": CD, "expect": "fire",
     "old": "    conditions = set()\n    for arg in args:\n",
     "new": ("    args = [m for arg in args for m in (\n"
             "        arg.conditions if isinstance(arg, (_And, _Or)) else (arg,))]\n"
             "    conditions = set()\n    for arg in args:\n")},
    {"name": "make-flattens-unless-atom", "rule": "R18.8", "file": CD, "expect": "fire",
     "old": "      conditions.add(arg)\n    if not conditions:",
     "new": ("      if not isinstance(arg, _Composite):\n"
             "        conditions.add(arg)\n"
             "        continue\n"
             "      conditions |= arg.conditions\n    if not conditions:")},
    {"name": "twin-make-flattens-same-connective", "rule": "R18.8", "file": CD,
     "expect": "silent",
     "old": "    for arg in args:\n      if arg is cls._IGNORE:\n",
     "new": ("    for arg in args:\n"
             "      if isinstance(arg, cls):\n"
             "        conditions.update(arg.conditions)\n"
             "        continue\n"
             "      if arg is cls._IGNORE:\n")},
    {"name": "twin-make-flattens-exact-type", "rule": "R18.8", "file": CD,
     "expect": "silent",
     "old": "      conditions.add(arg)\n    if not conditions:",
     "new": ("      if isinstance(arg, _Composite) and type(arg) is cls:\n"
             "        conditions |= arg.conditions\n"
             "      else:\n"
             "        conditions.add(arg)\n    if not conditions:")},
    {"name": "twin-make-tests-composite-without-unpacking", "rule": "R18.8", "file": CD,
     "expect": "silent",
     "old": "      conditions.add(arg)\n    if not conditions:",
     "new": ("      if isinstance(arg, _Composite):\n"
             "        conditions.add(arg)\n"
             "        continue\n"
             "      conditions.add(arg)\n    if not conditions:")},
    # R18.2
    {"name": "Variable.with_condition-uses-Or", "rule": "R18.2", "file": VR, "expect": "fire",
     "old": "new_condition = conditions.And(b.condition, condition)",
     "new": "new_condition = conditions.Or(b.condition, condition)"},
    {"name": "Variable.with_condition-replaces-condition", "rule": "R18.2", "file": VR, "expect": "fire",
     "old": "new_condition = conditions.And(b.condition, condition)",
     "new": "new_condition = conditions.And(condition, condition)"},
    {"name": "Variable.with_condition-skips-unconditional", "rule": "R18.2", "file": VR, "expect": "fire",
     "old": "    for b in self.bindings:\n      new_condition = conditions.And",
     "new": "    for b in self.bindings:\n      if b.condition is conditions.TRUE:\n        continue\n      new_condition = conditions.And"},
    {"name": "Variable.with_condition-first-binding-only", "rule": "R18.2", "file": VR, "expect": "fire",
     "old": "    for b in self.bindings:\n      new_condition = conditions.And",
     "new": "    for b in self.bindings[:1]:\n      new_condition = conditions.And"},
    {"name": "Variable.with_condition-FALSE-shortcut", "rule": "R18.2", "file": VR, "expect": "fire",
     "old": "    if condition is conditions.TRUE:\n      return self\n    new_bindings",
     "new": "    if condition is conditions.FALSE:\n      return self\n    new_bindings"},
    {"name": "BlockState.with_condition-uses-Or", "rule": "R18.2", "file": ST, "expect": "fire",
     "old": "    condition = conditions.And(self._condition, condition)",
     "new": "    condition = conditions.Or(self._condition, condition)"},
    {"name": "BlockState.with_condition-arms-swapped", "rule": "R18.2", "file": ST, "expect": "fire",
     "old": "      if name in self._locals_with_block_condition:\n        new_locals[name] = var\n",
     "new": "      if name not in self._locals_with_block_condition:\n        new_locals[name] = var\n"},
    {"name": "BlockState.with_condition-own-condition-only", "rule": "R18.2", "file": ST, "expect": "fire",
     "old": "        new_locals[name] = var.with_condition(condition)",
     "new": "        new_locals[name] = var.with_condition(self._condition)"},
    {"name": "merge-block-condition-And", "rule": "R18.2", "file": ST, "expect": "fire",
     "old": "    condition = conditions.Or(self._condition, other._condition)",
     "new": "    condition = conditions.And(self._condition, other._condition)"},
    {"name": "merge-block-condition-self-only", "rule": "R18.2", "file": ST, "expect": "fire",
     "old": "    condition = conditions.Or(self._condition, other._condition)",
     "new": "    condition = conditions.Or(self._condition, self._condition)"},
    {"name": "twin-Variable.with_condition-comprehension", "rule": "R18.2", "file": VR, "expect": "silent",
     "old": _VAR_LOOP,
     "new": ("    return dataclasses.replace(self, bindings=tuple(\n"
             "        dataclasses.replace(b, condition=conditions.And(b.condition, condition))\n"
             "        for b in self.bindings))\n")},
    {"name": "twin-BlockState.with_condition-rename", "rule": "R18.2", "file": ST, "expect": "silent",
     "edits": [(ST, "    condition = conditions.And(self._condition, condition)\n    new_locals = {}\n",
                "    updated = {}\n    combined = conditions.And(condition, self._condition)\n"),
               (ST, "        new_locals[name] = var\n", "        updated[name] = var\n"),
               (ST, "        new_locals[name] = var.with_condition(condition)",
                "        updated[name] = var.with_condition(combined)"),
               (ST, "        locals_=new_locals,\n        condition=condition,\n",
                "        locals_=updated,\n        condition=combined,\n")]},
    # R18.3
    {"name": "merge-self-side-gets-other-condition", "rule": "R18.3", "file": ST, "expect": "fire",
     "old": "        locals_[name] = var.with_condition(self._condition)",
     "new": "        locals_[name] = var.with_condition(other._condition)"},
    {"name": "merge-other-side-gets-self-condition", "rule": "R18.3", "file": ST, "expect": "fire",
     "old": "        var = var.with_condition(other._condition)",
     "new": "        var = var.with_condition(self._condition)"},
    {"name": "merge-other-side-tests-self-set", "rule": "R18.3", "file": ST, "expect": "fire",
     "old": "      if name in other._locals_with_block_condition:\n",
     "new": "      if name in self._locals_with_block_condition:\n"},
    {"name": "merge-other-side-result-dropped", "rule": "R18.3", "file": ST, "expect": "fire",
     "old": "        var = var.with_condition(other._condition)",
     "new": "        var.with_condition(other._condition)"},
    {"name": "merge-other-side-never-conditioned", "rule": "R18.3", "file": ST, "expect": "fire",
     "old": "        var = var.with_condition(other._condition)", "new": "        pass"},
    {"name": "twin-condition-through-a-local", "rule": "R18.3", "file": ST, "expect": "silent",
     "old": "        var = var.with_condition(other._condition)",
     "new": "        own = other._condition\n        var = var.with_condition(own)"},
    # R18.4
    {"name": "D5-restored", "rule": "R18.4", "file": ST, "expect": "fire",
     "old": _D5_NEW, "new": _D5_OLD},
    {"name": "duplicate-arm-And", "rule": "R18.4", "file": ST, "expect": "fire",
     "old": "          bindings[b.value] = conditions.Or(bindings[b.value], b.condition)",
     "new": "          bindings[b.value] = conditions.And(bindings[b.value], b.condition)"},
    {"name": "duplicate-overwrites", "rule": "R18.4", "file": ST, "expect": "fire",
     "old": "          bindings[b.value] = conditions.Or(bindings[b.value], b.condition)",
     "new": "          bindings[b.value] = b.condition"},
    {"name": "membership-test-inverted", "rule": "R18.4", "file": ST, "expect": "fire",
     "old": "        if b.value in bindings:\n", "new": "        if b.value not in bindings:\n"},
    {"name": "only-incoming-side-folded", "rule": "R18.4", "file": ST, "expect": "fire",
     "old": "      for b in locals_[name].bindings + var.bindings:\n",
     "new": "      for b in var.bindings:\n"},
    {"name": "rebuild-swaps-value-and-condition", "rule": "R18.4", "file": ST, "expect": "fire",
     "old": "tuple(variables.Binding(k, v) for k, v in bindings.items())",
     "new": "tuple(variables.Binding(v, k) for k, v in bindings.items())"},
    {"name": "twin-rename-map", "rule": "R18.4", "file": ST, "expect": "silent",
     "edits": [(ST, _D5_NEW + "        if b.value in bindings:\n"
                "          bindings[b.value] = conditions.Or(bindings[b.value], b.condition)\n"
                "        else:\n          bindings[b.value] = b.condition\n",
                "      merged = dict()\n"
                "      for bnd in locals_[name].bindings + var.bindings:\n"
                "        if bnd.value not in merged:\n"
                "          merged[bnd.value] = bnd.condition\n"
                "          continue\n"
                "        merged[bnd.value] = conditions.Or(bnd.condition, merged[bnd.value])\n"),
               (ST, "for k, v in bindings.items()", "for k, v in merged.items()")]},
    {"name": "unknown-idiom-defaultdict", "rule": "R18.4", "file": ST, "expect": "error",
     "old": _D5_NEW + "        if b.value in bindings:\n"
            "          bindings[b.value] = conditions.Or(bindings[b.value], b.condition)\n"
            "        else:\n          bindings[b.value] = b.condition\n",
     "new": "      bindings = {}\n"
            "      for b in locals_[name].bindings + var.bindings:\n"
            "        bindings[b.value] = conditions.Or(\n"
            "            bindings.get(b.value, conditions.FALSE), b.condition)\n"},
    # R18.5
    {"name": "with_condition-shares-locals", "rule": "R18.5", "file": ST, "expect": "fire",
     "old": "        locals_=new_locals,\n", "new": "        locals_=self._locals,\n"},
    {"name": "with_condition-shares-implicit-set", "rule": "R18.5", "file": ST, "expect": "fire",
     "old": "        locals_with_block_condition=set(self._locals_with_block_condition),\n    )\n\n  def merge_into",
     "new": "        locals_with_block_condition=self._locals_with_block_condition,\n    )\n\n  def merge_into"},
    {"name": "merge-none-shares-locals", "rule": "R18.5", "file": ST, "expect": "fire",
     "old": "          locals_=dict(self._locals),\n", "new": "          locals_=self._locals,\n"},
    {"name": "merge-aliases-other-locals", "rule": "R18.5", "file": ST, "expect": "fire",
     "old": "    locals_ = {}\n    locals_with_block_condition = set()\n",
     "new": "    locals_ = other._locals\n    locals_with_block_condition = set()\n"},
    {"name": "get_locals-returns-own-dict", "rule": "R18.5", "file": ST, "expect": "fire",
     "old": "    return immutabledict.immutabledict(self._locals)", "new": "    return self._locals"},
    {"name": "store_local-does-not-mark", "rule": "R18.5", "file": ST, "expect": "fire",
     "old": "    self._locals[name] = var\n    self._locals_with_block_condition.add(name)\n",
     "new": "    self._locals[name] = var\n"},
    {"name": "default-implicit-set-empty", "rule": "R18.5", "file": ST, "expect": "fire",
     "old": "      self._locals_with_block_condition = set(locals_)\n",
     "new": "      self._locals_with_block_condition = set()\n"},
    {"name": "twin-reorder-independent-inits", "rule": "R18.5", "file": ST, "expect": "silent",
     "old": "    locals_ = {}\n    locals_with_block_condition = set()\n",
     "new": "    locals_with_block_condition = set()\n    locals_ = dict()\n"},
    {"name": "twin-store_local-reordered", "rule": "R18.5", "file": ST, "expect": "silent",
     "old": "    self._locals[name] = var\n    self._locals_with_block_condition.add(name)\n",
     "new": "    self._locals_with_block_condition.add(name)\n    self._locals[name] = var\n"},
    # R18.6
    {"name": "identical-variable-not-marked", "rule": "R18.6", "file": ST, "expect": "fire",
     "old": "        locals_[name] = var\n        locals_with_block_condition.add(name)\n",
     "new": "        locals_[name] = var\n"},
    {"name": "same-name-suffices", "rule": "R18.6", "file": ST, "expect": "fire",
     "old": "      if name in other._locals and var == other._locals[name]:",
     "new": "      if name in other._locals:"},
    {"name": "differing-variable-marked", "rule": "R18.6", "file": ST, "expect": "fire",
     "old": "      else:\n        locals_[name] = var\n    for name, var in other._locals.items():",
     "new": "      else:\n        locals_[name] = var\n        locals_with_block_condition.add(name)\n    for name, var in other._locals.items():"},
    {"name": "twin-identical-test-commuted", "rule": "R18.6", "file": ST, "expect": "silent",
     "old": "      if name in other._locals and var == other._locals[name]:",
     "new": "      if name in other._locals and other._locals[name] == var:"},
    # R18.7
    {"name": "_Not-unfrozen", "rule": "R18.7", "file": CD, "expect": "fire",
     "old": "@_frozen_dataclass\nclass _Not(Condition):", "new": "@dataclasses.dataclass\nclass _Not(Condition):"},
    {"name": "_Or-identity-equality", "rule": "R18.7", "file": CD, "expect": "fire",
     "old": "@dataclasses.dataclass(frozen=True, repr=False)\nclass _Or(_Composite):",
     "new": "@dataclasses.dataclass(frozen=True, repr=False, eq=False)\nclass _Or(_Composite):"},
    {"name": "Variable-mutable", "rule": "R18.7", "file": VR, "expect": "fire",
     "old": "@_frozen_dataclass\nclass Variable(Generic[_T]):",
     "new": "@dataclasses.dataclass\nclass Variable(Generic[_T]):"},
    {"name": "twin-explicit-decorator", "rule": "R18.7", "file": VR, "expect": "silent",
     "old": "@_frozen_dataclass\nclass Variable(Generic[_T]):",
     "new": "@dataclasses.dataclass(frozen=True)\nclass Variable(Generic[_T]):"},
]
