"""C18 - flow conditions and block-state merging preserve meaning (rewrite engine).

Schema match of rewrite/flow/conditions.py (decided completely) and the wiring
facts of rewrite/flow/variables.py and state.py that are necessary for the
merge clause (guard rails, not a proof of the merge clause).
"""
import ast
import copy

from sa.core import rule, AnalysisError
from sa.pyindex import get_module, dotted, src, calls_in, walk_no_nested
from rules import _schema as S
from rules import _util_c12c17c18 as U

CD = "pytype/rewrite/flow/conditions.py"
VR = "pytype/rewrite/flow/variables.py"
ST = "pytype/rewrite/flow/state.py"


def _vconditions(ctx):
  """conditions.py with parallel assignments of the constructors split."""
  return U.virtual(ctx, CD, inline=("_Composite.make", "_Not.make"))


def _vvariables(ctx):
  """variables.py with module-local helpers of with_condition inlined."""
  return U.virtual(ctx, VR, inline=("Variable.with_condition",), flatten=True)


def _vstate(ctx):
  """state.py as the rules read it: methods BlockState inherits from a base
  class / mixin of the file count as its own, module-local helpers of
  with_condition / merge_into are inlined (one merge = one function body
  again), a dict comprehension filling the new locals is the loop it
  abbreviates."""
  return U.virtual(ctx, ST,
                   inline=("BlockState.with_condition", "BlockState.merge_into"),
                   loops=("BlockState.with_condition",), flatten=True)

EXPLANATION = (
    "Schema match of the rewrite engine's flow layer.  Paper argument for the "
    "condition constructors: read `_And S` as 'all of S', `_Or S` as 'some of "
    "S'.  A combinator that returns the absorbing element as soon as it meets "
    "it, drops the identity element, may return the absorbing element when a "
    "member and its negation are both present (x and not x = false, x or not "
    "x = true), keeps the other members in a set and returns the identity "
    "element for none, the member for one and the connective over a frozenset "
    "otherwise is equivalent to the plain connective under every valuation; "
    "`Not` that unwraps a negation and otherwise wraps is equivalent to "
    "negation (not not x = x).  R18.1 decides exactly this for "
    "`_Composite.make`, `_Not.make`, the class constants _ACCEPT/_IGNORE and "
    "the public bindings Or/And/Not, by enumerating the kinds of argument "
    "(absorbing / identity / other, negation already present or not) and the "
    "sizes 0, 1, >= 2 of the accumulator against the path condition "
    "(sa.flow.guards) of every return, continue and add.  Nested terms: "
    "and/or are associative but do not associate with each other, so a "
    "member that is a term of the SAME connective (`isinstance(arg, cls)`) "
    "may be kept or replaced by exactly its members, while a term of the "
    "other connective must stay a member: R18.1 enumerates both kinds of "
    "nested argument as additional worlds of the loop, and R18.8 decides, "
    "independently of the loop's shape (work lists, comprehensions, "
    "pre-passes), that every read of an argument's member set "
    "(`<x>.conditions`) inside make sits under a class test on <x> that "
    "establishes `cls` itself - a test against _Composite, a tuple of "
    "classes or one fixed subclass is a violation (x and (a or b) would "
    "become x and a and b).  For block states "
    "the rules decide wiring facts that are necessary for 'a merge yields "
    "exactly the union of the values under every valuation': R18.2 "
    "conditioning combines with conditions.And over every binding (TRUE is "
    "the only short cut) and merging combines the block conditions with "
    "conditions.Or; R18.3 a variable that carries its block's condition "
    "implicitly is made explicit with the condition of the state it comes "
    "from; R18.4 every write into the value->condition map built from "
    "bindings is under a membership test whose true arm combines with "
    "conditions.Or, the map starts empty and both sides are folded through "
    "that loop (the D5 shape - a last-one-wins dict comprehension - is a "
    "violation); R18.5 no BlockState shares a mutable container with another "
    "and store_local marks the stored name as implicitly conditioned; R18.6 "
    "only a variable that is identical in both states is handed the merged "
    "block condition; R18.7 conditions, bindings and variables are frozen "
    "value objects (hashable, immutable), which the set-based constructors "
    "and the sharing of variables between states rely on.  How the code is "
    "laid out is immaterial to all of this: the rules read the three files "
    "through virtual modules (rules/_util_c12c17c18) in which methods "
    "inherited from a base class / mixin of the file are the class's own "
    "(local C3 linearisation), module-local helpers (`_restrict(b, c)`, "
    "`self._copy()`, `self/other._explicit_local(name)`, "
    "`_union_bindings(a, b)`) are inlined where that preserves behaviour, "
    "independent parallel assignments are split and a statement-level dict "
    "comprehension is the loop it abbreviates; hoisted temporaries "
    "(`accept = cls._ACCEPT`) are resolved; the final arms of make and the "
    "loop bodies of merge_into are *run* per world (U.run_world: every test "
    "decided by the world, values symbolic), so elif / guard clause / "
    "continue / conditional expression / `(only,) = members` forms are the "
    "same thing.  R18.3, R18.4 (both sides) and R18.6 share one name-by-name "
    "model of merge_into (_Merge): for each of the 12 worlds (name local to "
    "self / other / both, variables equal, implicit in self's / other's "
    "set) the loop bodies are executed in source order and yield what the "
    "merged state holds for the name - `X._locals[name]`, "
    "`....with_condition(c)` or a map folded over the bindings of several "
    "variables - and whether the name is marked; any store, call or test "
    "outside that vocabulary is an analysis error.  R18.5 judges every "
    "BlockState(...) construction of the file in the function it is "
    "written in.  The condition "
    "constructors are decided completely; for the merge the rules are "
    "necessary conditions only: they do not prove the union property (it "
    "additionally rests on the invariant that an explicit binding condition "
    "implies its block's condition, which holds for states built through the "
    "public operations but is not checked).")
ASSUMPTIONS = [
    "conditions are built through conditions.And/Or/Not; TRUE/FALSE are the "
    "module constants (identity tests)",
    "a name in BlockState._locals_with_block_condition means: the bindings of "
    "that local are implicitly and-ed with the state's condition",
    "for names not in that set every binding condition already implies the "
    "state's condition (true for states produced by store_local, "
    "with_condition and merge_into; not checked for hand-built states)",
    "values are hashable (they key the value->condition map)",
    "merge_into, name by name: each loop iteration for `name` touches only "
    "merged_locals[name] and the membership of `name` in the merged implicit "
    "set (checked), the implicit set of a state is a subset of its locals, "
    "Variable.with_condition has no side effect (R18.7: frozen value object)",
    "a method inherited from / a helper called on `self` or a parameter "
    "annotated with a class of the file is resolved in exactly that class "
    "(no subclass overrides it elsewhere)",
    "_And and _Or are the only subclasses of _Composite and inherit make "
    "unchanged, so inside make `cls` is the connective being built and "
    "isinstance(x, cls) / type(x) is cls both mean 'a term of that "
    "connective' (checked: no own make/__init__)",
]

EXPLANATION += (
    "  R18.9 (rules/c18_fresh_state.py): BlockState is updated in place "
    "(store_local), so a derived state must be a new object - R18.5 decides "
    "that the containers handed to a construction are fresh, R18.9 that the "
    "state itself is: for every class of state.py (inherited methods "
    "flattened) that stores / deletes / calls a container mutator through "
    "`self.<..>` outside its constructor, every value returned by a plain "
    "method that is annotated to return the class or constructs it "
    "(with_condition, merge_into, helpers such as _copy) is a construction "
    "made during the call - K(..), type(self)(..), copy.copy/deepcopy, "
    "dataclasses.replace, a local all of whose bindings are such, or a "
    "module-local helper / method all of whose returns are such; the "
    "receiver, a parameter or something stored on one of them (`return "
    "self`, `return other`, `a or self`) is a violation: branch and parent "
    "would be one object and a store in the branch would leak into the "
    "parent and its later siblings.  A class that is never updated in place "
    "may return itself.  Blind spots: a fresh object that is also stored "
    "somewhere else before it is returned; dunder methods; callers that keep "
    "using the same state for two successors (frame_base).  R18.10 "
    "(rules/c18_operands.py): And/Or may drop an operand only when an equal "
    "operand is kept.  In every public constructor of conditions.py "
    "(`Name = Class.method`, helpers inlined) every mapping filled with "
    "operands (dict comprehension / display, `d[k] = operand`, setdefault), "
    "every set/list the operands are added to and every membership test on "
    "an operand is keyed by the operand itself or by a condition built from "
    "it with a constructor of the module; a key computed from the operand "
    "(repr/str/hash/type/len/format, an f-string, a field, arithmetic) is a "
    "violation - repr is not injective (`not a and not b` is the printed "
    "form of two different conditions), so two operands would become one; "
    "dict()/zip()/groupby over operands and unknown callees are analysis "
    "errors.  It does not decide what happens to the accumulated set "
    "afterwards (R18.1 does).")
ASSUMPTIONS += [
    "R18.9: an attribute store / container-mutator call through `self.<..>` "
    "(or a local alias of such a path) outside __init__/__post_init__/"
    "__new__/__setstate__ is what makes a state class mutable; mutation "
    "through other routes (setattr, a function receiving the container) is "
    "not seen",
    "R18.10: equality of conditions built by the module's constructors "
    "(Not/And/Or, cls) coincides with equality of their operands (frozen "
    "dataclasses, R18.7)",
]

EXPLANATION += (
    "  R18.50 (rules/c18_round5.py): the caller's half of R18.9.  The frame "
    "runs a block on the very object filed under it and store_local updates "
    "that object in place, so every value frame_base.py writes into an "
    "attribute declared as a mapping to BlockState (`self._states[k] = v`, "
    "setdefault, a dict display, through a local alias of the table) must be "
    "a state made during that call: a BlockState(..) construction, "
    "copy.deepcopy, a call of a method of BlockState that is annotated to "
    "return a state (with_condition / merge_into - R18.9 decides that those "
    "construct), a local whose reaching definitions are all such, or a "
    "method of the frame / module function all of whose returns are such "
    "(a returned parameter is judged at the call).  A parameter, a field of "
    "the frame (`self._current_state`) or an entry of the table itself is a "
    "violation: two blocks would share one mutable state and the join would "
    "merge a state with itself.  Other ways of writing the table (update, "
    "|=, a comprehension, handing the table to a function, nested "
    "functions) are analysis errors.  Blind spots: one fresh state filed "
    "under two keys; writes to the table from subclasses outside "
    "frame_base.py (none today).")
ASSUMPTIONS += [
    "R18.50: the block->state table of the frame is declared with an "
    "annotation `<mapping type>[.., BlockState..]` on `self.<attr>` (or in "
    "the class body); a method called with_condition / merge_into on a "
    "receiver other than the frame is the BlockState method of that name",
]


# ---------------------------------------------------------------------------
# helpers

def _identity_atom(e, var, consts):
  if isinstance(e, ast.Compare) and len(e.ops) == 1 and \
      isinstance(e.ops[0], (ast.Is, ast.IsNot)):
    l, r = src(e.left), src(e.comparators[0])
    for k in consts:
      if (l, r) in ((var, k), (k, var)):
        return k, isinstance(e.ops[0], ast.Is)
  return None


def _member_atom(e, item, container):
  """`item in container` -> True, `item not in container` -> False, else None."""
  if isinstance(e, ast.Compare) and len(e.ops) == 1 and \
      src(e.left) == item and src(e.comparators[0]) == container:
    if isinstance(e.ops[0], ast.In):
      return True
    if isinstance(e.ops[0], ast.NotIn):
      return False
  return None


def _class_test(e, var):
  """`isinstance(var, K)` / `type(var) is K` / `var.__class__ is K` -> (K text,
  positive); K is the unparsed class expression.  None for anything else."""
  if isinstance(e, ast.Call) and dotted(e.func) == "isinstance" and \
      len(e.args) == 2 and not e.keywords and src(e.args[0]) == var:
    k = e.args[1]
    if isinstance(k, ast.Tuple) and len(k.elts) == 1:
      k = k.elts[0]
    return src(k), True
  if isinstance(e, ast.Compare) and len(e.ops) == 1 and \
      isinstance(e.ops[0], (ast.Is, ast.IsNot, ast.Eq, ast.NotEq)):
    l, r = e.left, e.comparators[0]
    for x, y in ((l, r), (r, l)):
      if src(x) in (f"type({var})", f"{var}.__class__"):
        if src(y) == "_Composite":
          return None        # an exact-type test against the abstract base
        return src(y), isinstance(e.ops[0], (ast.Is, ast.Eq))
  return None


def _conjuncts(tests):
  """[(atom, polarity)] implied by a list of (test, polarity) that all hold."""
  out, todo = [], list(tests)
  while todo:
    t, pol = todo.pop(0)
    if isinstance(t, ast.UnaryOp) and isinstance(t.op, ast.Not):
      todo.insert(0, (t.operand, not pol))
    elif isinstance(t, ast.BoolOp) and isinstance(t.op, ast.And) and pol:
      todo = [(v, True) for v in t.values] + todo
    elif isinstance(t, ast.BoolOp) and isinstance(t.op, ast.Or) and not pol:
      todo = [(v, False) for v in t.values] + todo
    else:
      out.append((t, pol))
  return out


def _expr_context(mod, node):
  """Tests that hold when `node` is evaluated inside its own statement: earlier
  operands of enclosing `and`/`or`, IfExp tests, comprehension filters."""
  out, cur = [], node
  while cur in mod.parent and not isinstance(cur, ast.stmt):
    par = mod.parent[cur]
    if isinstance(par, ast.BoolOp) and cur in par.values:
      idx = par.values.index(cur)
      pol = isinstance(par.op, ast.And)
      out = [(v, pol) for v in par.values[:idx]] + out
    elif isinstance(par, ast.IfExp) and cur is not par.test:
      out = [(par.test, cur is par.body)] + out
    elif isinstance(par, (ast.ListComp, ast.SetComp, ast.GeneratorExp, ast.DictComp)):
      gens = par.generators
      if cur in gens:
        k = gens.index(cur)
        # the iterable of generator k is evaluated under the filters of 0..k-1
        for g in gens[:k]:
          out = [(i, True) for i in g.ifs] + out
      else:
        for g in gens:
          out = [(i, True) for i in g.ifs] + out
    elif isinstance(par, ast.comprehension) and cur in par.ifs:
      out = [(i, True) for i in par.ifs[:par.ifs.index(cur)]] + out
    cur = par
  return out


def _composite_field(mod):
  """Name of the one dataclass field of _Composite (the member set)."""
  fields = []
  for s in mod.cls("_Composite").body:
    if isinstance(s, ast.AnnAssign) and isinstance(s.target, ast.Name):
      if "ClassVar" in src(s.annotation):
        continue
      fields.append(s.target.id)
  if len(fields) != 1:
    raise AnalysisError(f"_Composite has fields {fields}, expected the member set only")
  return fields[0]


def _is_conditions(mod):
  return (mod.imports.get("conditions") or "").endswith("flow.conditions")


def _conn_call(node, mod):
  """('And'|'Or', [arg sources]) for conditions.And(..)/conditions.Or(..)."""
  if isinstance(node, ast.Call) and not node.keywords:
    d = dotted(node.func) or ""
    if d in ("conditions.And", "conditions.Or") and _is_conditions(mod):
      return d.split(".")[1], sorted(src(a) for a in node.args)
  return None


def _init_roles(mod):
  """BlockState.__init__: parameter -> field it initialises."""
  fn = mod.func("BlockState.__init__")
  ps = S.params_of(fn)
  roles = {}
  for n in walk_no_nested(fn):
    if isinstance(n, ast.Assign) and len(n.targets) == 1 and \
        isinstance(n.targets[0], ast.Attribute) and \
        src(n.targets[0].value) == ps[0]:
      # `self.f = p` or `self.f = p if <test> else <default>`
      for leaf, _ in S.expand_ifexp(n.value):
        if isinstance(leaf, ast.Name) and leaf.id in ps[1:]:
          roles[leaf.id] = n.targets[0].attr
  want = {"_locals", "_condition", "_locals_with_block_condition"}
  if set(roles.values()) != want or len(roles) != 3:
    raise AnalysisError(f"BlockState.__init__ initialises {roles}")
  return fn, ps[1:], roles


def _bs_args(mod, call):
  """field -> argument expression of a BlockState(...) call."""
  _, ps, roles = _init_roles(mod)
  if any(isinstance(a, ast.Starred) for a in call.args) or \
      any(k.arg is None for k in call.keywords):
    raise AnalysisError("BlockState(...) called with star-arguments")
  bound = dict(zip(ps, call.args))
  for k in call.keywords:
    bound[k.arg] = k.value
  unknown = set(bound) - set(ps)
  if unknown:
    raise AnalysisError(f"BlockState(...) called with {sorted(unknown)}")
  return {roles[p]: v for p, v in bound.items()}


def _bs_calls(fn):
  return [c for c in calls_in(fn) if (dotted(c.func) or "").split(".")[-1] == "BlockState"]


def _items_loop(loops, owner, fnname):
  """The `for name, var in <owner>._locals.items()` loop."""
  hit = [l for l in loops if src(l.iter) == f"{owner}._locals.items()"]
  if len(hit) != 1:
    raise AnalysisError(
        f"{fnname}: expected one loop over {owner}._locals.items(), found {len(hit)}")
  l = hit[0]
  if not (isinstance(l.target, ast.Tuple) and len(l.target.elts) == 2 and
          all(isinstance(x, ast.Name) for x in l.target.elts)):
    raise AnalysisError(f"{fnname}: loop target `{src(l.target)}`")
  return l, l.target.elts[0].id, l.target.elts[1].id


# ---------------------------------------------------------------------------
# R18.1

@rule("R18.1", "C18", floor=19)
def r18_1(ctx):
  """_Composite.make / _Not.make / class constants / public bindings."""
  mod = _vconditions(ctx)
  # class constants
  for const, cname in (("TRUE", "_True"), ("FALSE", "_False")):
    v = mod.assigns.get(const)
    if not (isinstance(v, ast.Call) and dotted(v.func) == cname and not v.args):
      raise AnalysisError(f"conditions.{const} is not {cname}()")
    mod.cls(cname)
  want = {("_Or", "_ACCEPT"): "TRUE", ("_Or", "_IGNORE"): "FALSE",
          ("_And", "_ACCEPT"): "FALSE", ("_And", "_IGNORE"): "TRUE"}
  role = {"_ACCEPT": "absorbing", "_IGNORE": "identity"}
  conn = {"_Or": "disjunction", "_And": "conjunction"}
  for (cname, attr), val in want.items():
    node = mod.class_attr(cname, attr)
    if node is None:
      raise AnalysisError(f"{cname}.{attr} not found")
    ctx.check(src(node) == val, f"{cname}.{attr}", CD, node.lineno,
              f"{cname}.{attr} = {src(node)}; the {role[attr]} element of a "
              f"{conn[cname]} is {val}", {"value": src(node), "expected": val})
  # _Composite.make
  fn = mod.func("_Composite.make")
  if "classmethod" not in [dotted(d) for d in fn.decorator_list]:
    raise AnalysisError("_Composite.make is not a classmethod")
  ps = S.params_of(fn)
  if len(ps) != 1 or fn.args.vararg is None or fn.args.kwarg or fn.args.kwonlyargs:
    raise AnalysisError("_Composite.make signature is not (cls, *args)")
  cls, args = ps[0], fn.args.vararg.arg
  ACC, IGN = f"{cls}._ACCEPT", f"{cls}._IGNORE"
  sym = S.Sym(mod, fn)
  if sym.counts.get(cls) or sym.counts.get(args):
    raise AnalysisError("_Composite.make rebinds its parameters")
  loop = S.single_loop(fn, args)
  a = loop.target.id
  if sym.counts.get(a, 0) != 1:
    raise AnalysisError(f"_Composite.make rebinds the loop variable {a}")
  acc, init, init_stmt, final_stmts = U.combinator_shape(fn, loop, sym)
  actions = S.loop_actions(mod, fn, loop, sym, acc)
  negs = (f"Not({a})", f"_Not.make({a})", f"_Not({a})")

  def atom_for(world):
    kind, neg = world

    def atom(t):
      hit = _identity_atom(t, a, (ACC, IGN))
      if hit is not None:
        k, positive = hit
        return (kind == {ACC: "accept", IGN: "ignore"}[k]) == positive
      for n in negs:
        m = _member_atom(t, n, acc)
        if m is not None:
          return neg == m
      ct = _class_test(t, a)
      if ct is not None:
        klass, positive = ct
        if klass == cls:
          return (kind == "same") == positive
        if klass == "_Composite":
          return (kind in ("same", "othercomp")) == positive
      return None
    return atom

  def describe(acts):
    return [k if p is None else f"{k} {src(p)}" for k, p, _, _ in acts]

  def ret_kind(v, kind):
    s = src(v)
    if s == ACC:
      return "absorbing"
    if s == IGN:
      return "identity"
    if s == a:
      return {"accept": "absorbing", "ignore": "identity", "other": "member"}[kind]
    raise AnalysisError(f"_Composite.make returns `{s}` inside the loop")

  ex = {}
  for kind in ("accept", "ignore", "same", "othercomp", "other"):
    for neg in (True, False):
      ex[(kind, neg)] = S.executed(actions, atom_for((kind, neg)))

  def summary(kind):
    return {f"negation-present={n}": describe(ex[(kind, n)]) for n in (True, False)}

  # absorbing element
  ok = True
  for neg in (True, False):
    acts = ex[("accept", neg)]
    rets = [x for x in acts if x[0] == "return"]
    ok = ok and len(rets) == 1 and ret_kind(rets[0][1], "accept") == "absorbing" \
        and not [x for x in acts if x[0] in ("add", "splice")]
  ctx.check(ok, "_Composite.make:absorb", CD, loop.lineno,
            f"an argument that is {ACC} must be returned at once: "
            f"{summary('accept')}", summary("accept"))
  # identity element: dropped (if its negation is present the absorbing
  # element may be returned: not I or I = absorbing)
  ok = True
  for neg in (True, False):
    acts = ex[("ignore", neg)]
    rets = [x for x in acts if x[0] == "return"]
    if [x for x in acts if x[0] in ("add", "splice")]:
      ok = False
    if rets and not (neg and len(rets) == 1 and
                     ret_kind(rets[0][1], "ignore") == "absorbing"):
      ok = False
  ctx.check(ok, "_Composite.make:identity", CD, loop.lineno,
            f"an argument that is {IGN} must be dropped: {summary('ignore')}",
            summary("ignore"))
  # complementary pair
  acts = ex[("other", True)]
  rets = [x for x in acts if x[0] == "return"]
  adds = [x for x in acts if x[0] == "add"]
  if rets:
    ok = len(rets) == 1 and not adds and \
        ret_kind(rets[0][1], "other") == "absorbing"
  else:
    ok = len(adds) == 1 and src(adds[0][1]) == a   # no short cut: still sound
  ctx.check(ok, "_Composite.make:complement", CD,
            rets[0][2].lineno if rets else loop.lineno,
            "when the negation of an argument is already a member the result "
            f"is the absorbing element {ACC} (x or not x = TRUE, x and not x = "
            f"FALSE); the loop executes {describe(acts)}",
            {"executes": describe(acts)})
  # anything else is kept
  acts = ex[("other", False)]
  eff = [x for x in acts if x[0] != "continue"]
  ok = len(eff) == 1 and eff[0][0] == "add" and src(eff[0][1]) == a
  ctx.check(ok, "_Composite.make:keep", CD, eff[0][2].lineno if eff else loop.lineno,
            "any other argument must be added to the accumulator (and nothing "
            f"else); the loop executes {describe(acts)}", {"executes": describe(acts)})
  # nested terms: a member that is itself a term of the SAME connective may be
  # kept or spliced (associativity); a term of the other connective is a
  # member like any other (and/or do not associate with each other)
  members_field = _composite_field(mod)
  for kind, construct, what in (
      ("same", "_Composite.make:nested-same-connective",
       f"a nested term of the same connective ({cls})"),
      ("othercomp", "_Composite.make:nested-other-connective",
       "a nested term of the other connective")):
    ok, why = True, ""
    for neg in (True, False):
      acts = ex[(kind, neg)]
      rets = [x for x in acts if x[0] == "return"]
      eff = [x for x in acts if x[0] in ("add", "splice")]
      if rets:
        if not (neg and len(rets) == 1 and not eff and
                ret_kind(rets[0][1], "other") == "absorbing"):
          ok, why = False, f"the loop executes {describe(acts)}"
        continue
      if len(eff) == 1 and eff[0][0] == "add" and src(eff[0][1]) == a:
        continue
      if len(eff) == 1 and eff[0][0] == "splice" and kind == "same" and \
          src(eff[0][1]) == f"{a}.{members_field}":
        continue
      ok, why = False, f"the loop executes {describe(acts)}"
    ctx.check(ok, construct, CD, loop.lineno,
              f"{what} must be kept as a member"
              + (f" or contribute exactly its members ({a}.{members_field})"
                 if kind == "same" else
                 "; splicing its members into this connective changes the "
                 "meaning (x and (a or b) is not x and a and b)")
              + f": {why}", summary(kind))
  kind = S.empty_kind(init)
  if kind is None:
    raise AnalysisError(f"_Composite.make: accumulator initialised with `{src(init)}`")
  ctx.check(kind == "set", "_Composite.make:accumulator", CD, init_stmt.lineno,
            f"the members are collected in a {kind}; idempotence and the "
            "negation look-up need a set", {"name": acc, "init": src(init)})
  # final arms: the statements after the loop are run once per size of the
  # accumulator (every test is decided by the size; hoisted temporaries,
  # guard clauses / else chains and `(only,) = acc` are all understood)
  table = {}
  for n in S.CARD_WORLDS:
    env = dict(sym.env_before(final_stmts[0])) if final_stmts else {}
    tr = U.run_world(final_stmts, env, S.card_atom(acc, n), where="_Composite.make")
    if tr.kind != "return":
      raise AnalysisError(f"_Composite.make: no return reached with {n} member(s)")
    table[n] = (tr.stmt, tr.value, tr.tests)

  def final_kind(v, n):
    s = src(v)
    if s == f"{cls}(frozenset({acc}))":
      return "connective"
    if s in (f"{cls}({acc})", f"{cls}(set({acc}))", f"{cls}(list({acc}))",
             f"{cls}(tuple({acc}))"):
      return "connective over a non-frozenset"
    if s in (f"{acc}.pop()", f"next(iter({acc}))"):
      return "member"
    if s == f"__only__({acc})":
      # `(x,) = acc`: the member when there is exactly one, ValueError otherwise
      return "member" if n == 1 else "failing unpacking of the members"
    if s == IGN:
      return "identity"
    if s == ACC:
      return "absorbing"
    raise AnalysisError(f"_Composite.make: final return value `{s}` not understood")

  got = {n: final_kind(table[n][1], n) for n in S.CARD_WORLDS}
  wantk = {0: "identity", 1: "member", 2: "connective", 3: "connective"}
  names = {0: "empty", 1: "single", 2: "many"}
  for n in (0, 1, 2):
    ok = got[n] == wantk[n] and (n != 2 or got[3] == wantk[3])
    ctx.check(ok, f"_Composite.make:{names[n]}", CD, table[n][0].lineno,
              f"with {'>= 2' if n == 2 else n} member(s) make must return the "
              f"{wantk[n]}" + (" over a frozenset (conditions are hashed)" if n == 2 else "")
              + f"; it returns `{src(table[n][1])}` ({got[n]})",
              {"size": n, "returns": src(table[n][1]),
               "guards": [(src(t), p) for t, p in table[n][2]]})
  # _Not.make
  fn = mod.func("_Not.make")
  if "classmethod" not in [dotted(d) for d in fn.decorator_list]:
    raise AnalysisError("_Not.make is not a classmethod")
  ps = S.params_of(fn)
  if len(ps) != 2:
    raise AnalysisError(f"_Not.make parameters {ps}")
  ncls, c = ps
  fields = [s.target.id for s in mod.cls("_Not").body
            if isinstance(s, ast.AnnAssign) and isinstance(s.target, ast.Name)]
  if len(fields) != 1:
    raise AnalysisError(f"_Not has fields {fields}")
  sym = S.Sym(mod, fn)
  paths = S.return_paths(mod, fn, sym)

  def not_atom(w):
    def atom(t):
      if isinstance(t, ast.Call) and dotted(t.func) == "isinstance" and \
          len(t.args) == 2 and src(t.args[0]) == c and \
          src(t.args[1]) in ("_Not", ncls):
        return w
      return None
    return atom

  table = S.decide(paths, (True, False), not_atom)

  def not_kind(v):
    s = src(v)
    if s == f"{c}.{fields[0]}":
      return "unwrap"
    if s in (f"{ncls}({c})", f"_Not({c})", f"{ncls}({fields[0]}={c})",
             f"_Not({fields[0]}={c})"):
      return "wrap"
    if s == c:
      return "unchanged"
    raise AnalysisError(f"_Not.make returns `{s}`")

  for w, wantn, label in ((True, "unwrap", "negation"), (False, "wrap", "other")):
    k = not_kind(table[w][1])
    ctx.check(k == wantn, f"_Not.make:{label}", CD, table[w][0].lineno,
              f"Not of a {'negation' if w else 'non-negation'} must {wantn} "
              f"it; it returns `{src(table[w][1])}` ({k})",
              {"returns": src(table[w][1]), "kind": k})
  # bindings and inheritance
  for name, cname in (("Not", "_Not"), ("Or", "_Or"), ("And", "_And")):
    v = mod.assigns.get(name)
    if v is None:
      raise AnalysisError(f"conditions.{name} not found")
    ok = src(v) == f"{cname}.make"
    if cname != "_Not":
      c_ = mod.cls(cname)
      bases = [dotted(b) for b in c_.bases]
      if bases != ["_Composite"] or "make" in mod.methods(cname):
        raise AnalysisError(f"{cname} has bases {bases} / its own make")
    ctx.check(ok, f"binding:{name}", CD, v.lineno,
              f"conditions.{name} is bound to `{src(v)}`, expected {cname}.make",
              {"bound_to": src(v)})


# ---------------------------------------------------------------------------
# R18.8

@rule("R18.8", "C18", floor=1)
def r18_8(ctx):
  """make unpacks the members of an argument only if it is a term of `cls`."""
  from sa import flow
  mod = _vconditions(ctx)
  fn = mod.func("_Composite.make")
  ps = S.params_of(fn)
  if len(ps) != 1:
    raise AnalysisError("_Composite.make signature is not (cls, *args)")
  cls = ps[0]
  field = _composite_field(mod)
  for sub in ("_Or", "_And"):
    if "make" in mod.methods(sub) or mod.methods(sub).get("__init__"):
      raise AnalysisError(f"{sub} overrides make/__init__")
  reads = []
  for n in ast.walk(fn):
    if isinstance(n, ast.Attribute) and n.attr == field and \
        isinstance(n.ctx, ast.Load) and src(n.value) not in (cls, "self"):
      if mod.enclosing_function(n) is not fn:
        raise AnalysisError(
            f"_Composite.make reads .{field} inside a nested function")
      reads.append(n)
  reads.sort(key=lambda n: (n.lineno, n.col_offset))
  sites = []
  for n in reads:
    x = src(n.value)
    st = mod.enclosing_stmt(n)
    holder = st
    # a read in the header of a compound statement is not guarded by that header
    tests = list(flow.guards(mod.parent, holder)) + _expr_context(mod, n)
    classes = []
    for t, pol in _conjuncts(tests):
      ct = _class_test(t, x)
      if ct is not None and ct[1] == pol:
        classes.append(ct[0])
    # the tested name must still denote the tested object at the read
    test_lines = [mod.enclosing_stmt(t).lineno for t, _ in tests
                  if _class_test(t, x) is not None or any(
                      _class_test(c, x) is not None for c, _ in _conjuncts([(t, True)]))]
    for m in ast.walk(fn):
      if isinstance(m, ast.Name) and isinstance(m.ctx, ast.Store) and m.id == x \
          and any(tl < m.lineno <= n.lineno for tl in test_lines):
        raise AnalysisError(
            f"_Composite.make: {x} is rebound between its class test and the "
            f"read of {x}.{field}")
    facts = {"reads": src(n), "class_tests": classes, "statement": src(st)[:80]}
    sites.append(src(n))
    if cls in classes:
      ctx.ok(f"_Composite.make:unpacks-same-connective-only:{x}", CD, n.lineno, facts)
    elif classes:
      ctx.bad(f"_Composite.make:unpacks-same-connective-only:{x}", CD, n.lineno,
              f"`{src(n)}` unpacks the members of {x} under the class test "
              f"{classes}, which does not establish that {x} is a term of the "
              f"connective being built (`{cls}`): an _Or nested in And(...) (or "
              "an _And in Or(...)) would be spliced into the outer connective, "
              "and x and (a or b) is not x and a and b", facts)
    else:
      raise AnalysisError(
          f"_Composite.make reads `{src(n)}` without a recognisable class test "
          f"on {x}: cannot tell which connective is being unpacked")
  ctx.ok("_Composite.make:member-unpacking-sites", CD, fn.lineno,
         {"sites": sites, "member_field": field})


# ---------------------------------------------------------------------------
# R18.2

@rule("R18.2", "C18", floor=8)
def r18_2(ctx):
  """Conditioning uses And over every binding; merging uses Or."""
  # ---- Variable.with_condition
  mod = _vvariables(ctx)
  fn = mod.func("Variable.with_condition")
  ps = S.params_of(fn)
  if len(ps) != 2:
    raise AnalysisError(f"Variable.with_condition parameters {ps}")
  me, cond = ps
  sym = S.Sym(mod, fn)
  conns = [c for c in calls_in(fn) if _conn_call(c, mod)]
  if len(conns) != 1:
    raise AnalysisError(
        f"Variable.with_condition: {len(conns)} conditions.And/Or calls")
  call = conns[0]
  # the iteration the call sits in
  node, it = call, None
  while node is not fn:
    node = mod.parent[node]
    if isinstance(node, ast.For):
      it = (node.target, node.iter, [], node)
      break
    if isinstance(node, (ast.GeneratorExp, ast.ListComp)):
      if len(node.generators) != 1:
        raise AnalysisError("Variable.with_condition: nested comprehension")
      g = node.generators[0]
      it = (g.target, g.iter, g.ifs, node)
      break
  if it is None or not isinstance(it[0], ast.Name):
    raise AnalysisError("Variable.with_condition: the And call is not inside "
                        "an iteration over the bindings")
  b = it[0].id
  kind, cargs = _conn_call(call, mod)
  _vocab("Variable.with_condition", cargs, (f"{b}.condition", cond))
  facts = {"connective": kind, "args": cargs}
  ctx.check(kind == "And" and cargs == sorted([f"{b}.condition", cond]),
            "Variable.with_condition:and", VR, call.lineno,
            f"each binding must get conditions.And(its own condition, the new "
            f"condition); found conditions.{kind}({', '.join(cargs)})", facts)
  # every binding, unconditionally, and the result is what is returned
  new_b = None
  for c in calls_in(fn):
    if (dotted(c.func) or "").endswith("replace") and c.args and src(c.args[0]) == b:
      kw = [k for k in c.keywords if k.arg == "condition"]
      if kw and src(sym.resolve(kw[0].value, c)) == src(sym.resolve(call, call)):
        new_b = c
  problems = []
  if new_b is None:
    problems.append("the combined condition is not installed by "
                    f"dataclasses.replace({b}, condition=...)")
  if src(it[1]) != f"{me}.bindings":
    problems.append(f"iterates `{src(it[1])}`, not {me}.bindings")
  if it[2]:
    problems.append(f"filters the bindings with `{src(it[2][0])}`")
  holder = it[3]
  if isinstance(holder, ast.For):
    for n in ast.walk(holder):
      if isinstance(n, (ast.Break, ast.Continue, ast.Return)):
        problems.append(f"`{type(n).__name__.lower()}` inside the loop")
    apps = [c for c in calls_in(holder) if isinstance(c.func, ast.Attribute)
            and c.func.attr == "append"]
    if len(apps) != 1:
      raise AnalysisError("Variable.with_condition: expected one append in the loop")
    app = apps[0]
    lst = src(app.func.value)
    g = S.guards(mod, mod.enclosing_stmt(app), sym, within=holder)
    if g:
      problems.append(f"appends only under {[(src(t), p) for t, p in g]}")
    if new_b is not None and src(sym.resolve(app.args[0], app)) != src(sym.resolve(new_b, new_b)):
      problems.append(f"appends `{src(app.args[0])}`, not the re-conditioned binding")
    result = f"tuple({lst})"
  else:
    if new_b is not None and src(sym.resolve(holder.elt, holder)) != src(sym.resolve(new_b, new_b)):
      problems.append("the comprehension does not yield the re-conditioned binding")
    result = None
  rets = S.return_paths(mod, fn, sym)
  final = [p for p in rets if src(p[1]) != me]
  if len(final) != 1:
    raise AnalysisError("Variable.with_condition: expected one non-trivial return")
  fv = final[0][1]
  okret = isinstance(fv, ast.Call) and (dotted(fv.func) or "").endswith("replace") \
      and fv.args and src(fv.args[0]) == me
  bkw = [k for k in fv.keywords if k.arg == "bindings"] if okret else []
  if not bkw:
    raise AnalysisError(f"Variable.with_condition returns `{src(fv)[:70]}`")
  if result is not None and src(bkw[0].value) != result:
    problems.append(f"returns bindings={src(bkw[0].value)}, expected {result}")
  if result is None:
    # the comprehension (directly, or through a once-bound local) is what is
    # returned as the bindings
    hsrc = src(sym.resolve(holder, holder))
    if src(bkw[0].value) not in (f"tuple({hsrc})", hsrc):
      problems.append("the comprehension is not what is returned as bindings")
  ctx.check(not problems, "Variable.with_condition:every-binding", VR, fn.lineno,
            "every binding of the variable must be re-conditioned: "
            + "; ".join(problems),
            {"iterates": src(it[1]), "problems": problems})
  # the only short cut is the identity element of And
  short = [p for p in rets if src(p[1]) == me]
  ok = all([(src(t), pol) for t, pol in p[2]] in
           ([(f"{cond} is conditions.TRUE", True)],
            [(f"conditions.TRUE is {cond}", True)]) for p in short)
  ctx.check(ok, "Variable.with_condition:true-shortcut", VR,
            short[0][0].lineno if short else fn.lineno,
            "the variable may be returned unchanged only when the condition "
            "is conditions.TRUE; found "
            f"{[[(src(t), pol) for t, pol in p[2]] for p in short]}",
            {"shortcuts": [[(src(t), pol) for t, pol in p[2]] for p in short]})

  # ---- BlockState.with_condition
  mod = _vstate(ctx)
  fn = mod.func("BlockState.with_condition")
  ps = S.params_of(fn)
  if len(ps) != 2:
    raise AnalysisError(f"BlockState.with_condition parameters {ps}")
  me, cond = ps
  cond_in = f"<{cond}>" if cond in S.Sym(mod, fn).rebound_params else cond
  sym = S.Sym(mod, fn)
  bs = _bs_calls(fn)
  rets = [n for n in walk_no_nested(fn) if isinstance(n, ast.Return)]
  if len(bs) != 1 or len(rets) != 1 or rets[0].value is not bs[0]:
    raise AnalysisError("BlockState.with_condition: expected a single `return BlockState(...)`")
  bargs = _bs_args(mod, bs[0])
  if "_condition" not in bargs or "_locals" not in bargs:
    raise AnalysisError("BlockState.with_condition: BlockState(...) without condition/locals")
  newc = sym.resolve(bargs["_condition"], bs[0])
  cc = _conn_call(newc, mod)
  if cc is None:
    raise AnalysisError(
        f"BlockState.with_condition: new block condition is `{src(newc)}`")
  combined = src(newc)
  _vocab("BlockState.with_condition", cc[1], (f"{me}._condition", cond_in))
  ctx.check(cc == ("And", sorted([f"{me}._condition", cond_in])),
            "BlockState.with_condition:and", ST, bs[0].lineno,
            "the new block condition must be conditions.And(own condition, "
            f"given condition); found `{combined}`",
            {"connective": cc[0], "args": cc[1]})
  loops = [s for s in fn.body if isinstance(s, ast.For)]
  loop, name, var = _items_loop(loops, me, "BlockState.with_condition")
  newl = src(bargs["_locals"])
  stores = []
  for n in ast.walk(loop):
    if isinstance(n, ast.Assign) and len(n.targets) == 1 and \
        isinstance(n.targets[0], ast.Subscript):
      if src(n.targets[0]) != f"{newl}[{name}]":
        raise AnalysisError(f"BlockState.with_condition: store `{src(n.targets[0])}`")
      stores.append(n)
    elif isinstance(n, ast.stmt) and not isinstance(n, (ast.If, ast.For, ast.Pass)):
      raise AnalysisError(f"BlockState.with_condition: statement `{src(n)[:60]}` in the loop")
  lw = f"{me}._locals_with_block_condition"

  def impl_atom(w):
    return lambda t: (None if _member_atom(t, name, lw) is None
                      else _member_atom(t, name, lw) == w)

  for w, label in ((True, "implicit-kept"), (False, "explicit-conditioned")):
    hit = [s for s in stores
           if S.holds(S.guards(mod, s, sym, within=loop), impl_atom(w))]
    if len(hit) != 1:
      raise AnalysisError(
          f"BlockState.with_condition: {len(hit)} stores for a name "
          f"{'in' if w else 'not in'} {lw}")
    val = src(sym.resolve(hit[0].value, hit[0]))
    known = (var, f"{var}.with_condition({combined})",
             f"{var}.with_condition({cond_in})",
             f"{var}.with_condition({me}._condition)")
    if val not in known:
      raise AnalysisError(f"BlockState.with_condition stores `{val}`")
    if w:
      ok = val == var
      why = ("a local that carries the block condition implicitly must be "
             "copied unchanged (the new block condition covers it)")
    else:
      ok = val in (f"{var}.with_condition({combined})",
                   f"{var}.with_condition({cond_in})")
      why = ("a local with explicit conditions must be conditioned with the "
             "new condition (and-ed with the block condition or not)")
    ctx.check(ok, f"BlockState.with_condition:{label}", ST, hit[0].lineno,
              f"{why}; it is stored as `{val}`", {"stored": val})
  # ---- merge_into: block conditions
  fn = mod.func("BlockState.merge_into")
  ps = S.params_of(fn)
  if len(ps) != 2:
    raise AnalysisError(f"merge_into parameters {ps}")
  me, other = ps
  sym = S.Sym(mod, fn)
  table = _merge_returns(mod, fn, sym, other)
  bargs = _bs_args(mod, table[False][1])
  if "_condition" not in bargs:
    raise AnalysisError("merge_into: merged BlockState without condition")
  newc = sym.resolve(bargs["_condition"], table[False][0])
  cc = _conn_call(newc, mod)
  if cc is None:
    raise AnalysisError(f"merge_into: merged block condition is `{src(newc)}`")
  _vocab("merge_into", cc[1], (f"{me}._condition", f"{other}._condition"))
  ctx.check(cc == ("Or", sorted([f"{me}._condition", f"{other}._condition"])),
            "merge_into:block-or", ST, table[False][0].lineno,
            "the merged block condition must be conditions.Or of the two block "
            f"conditions; found `{src(newc)}`", {"connective": cc[0], "args": cc[1]})
  bargs = _bs_args(mod, table[True][1])
  c0 = src(sym.resolve(bargs["_condition"], table[True][0])) if "_condition" in bargs else None
  ctx.check(c0 == f"{me}._condition", "merge_into:none-copy", ST,
            table[True][0].lineno,
            "merging into nothing must keep the state's own condition; found "
            f"`{c0}`", {"condition": c0})


def _vocab(where, args, allowed):
  extra = [a for a in args if a not in allowed]
  if extra:
    raise AnalysisError(
        f"{where}: connective applied to {extra}, outside {list(allowed)}")


def _inside_node(mod, node, anc):
  while node is not None:
    if node is anc:
      return True
    node = mod.parent.get(node)
  return False


def _merge_returns(mod, fn, sym, other):
  """{other-is-None: (return stmt, BlockState call)} for merge_into."""
  paths = S.return_paths(mod, fn, sym)

  def atom_for(none):
    def atom(t):
      s = src(t)
      if s == other:
        return not none
      if s in (f"{other} is None", f"None is {other}"):
        return none
      if s in (f"{other} is not None", f"None is not {other}"):
        return not none
      return None
    return atom

  table = S.decide(paths, (True, False), atom_for)
  out = {}
  for w in (True, False):
    r, v, _ = table[w]
    if not (isinstance(v, ast.Call) and
            (dotted(v.func) or "").split(".")[-1] == "BlockState"):
      raise AnalysisError(f"merge_into returns `{src(v)[:60]}`")
    out[w] = (r, v)
  return out


# ---------------------------------------------------------------------------
# the merge, name by name

class _NeedAtom(Exception):
  """The world does not fix the truth value of a test yet: split it."""

  def __init__(self, key):
    super().__init__(key)
    self.key = key


class _Merge:
  """merge_into evaluated per local name.

  Both loops of merge_into touch, in the iteration for `name`, only
  `<merged locals>[name]` and the membership of `name` in the merged implicit
  set (checked here: any other store / call is an analysis error), and a dict
  yields every key once.  So what the merged state holds for a name is the
  effect of the loop bodies for that name in source order, and it depends only
  on: is the name a local of self / of other, are the two variables equal,
  does the name carry self's / other's block condition implicitly.  `run`
  executes the loop bodies for one such world with U.run_world: tests are
  decided by the world (and by what has been stored so far), values stay
  symbolic: `X._locals[name]` (the variable of side X),
  `<v>.with_condition(<c>)`, and `__fold__(a, b)` for the value->condition
  map filled from `a.bindings + b.bindings` (the fold loop itself is R18.4's
  business).  Control-flow shape (elif / guard clause / continue / helper
  functions inlined by _vstate / loop over items() or over keys) is
  immaterial.  Two further kinds of test are understood: `X._condition is
  conditions.TRUE` (with_condition(TRUE) returns the variable itself, so in
  such a world a conditioned and an unconditioned variable are the same
  thing) and tests that mention neither the name nor any of the containers:
  they say something about the two states as a whole, cannot be derived from
  what the world fixes, and are enumerated both ways (`all_worlds` splits a
  world lazily when such a test is met) - an obligation that fails under one
  of the two values is a violation reported with that value."""

  def __init__(self, ctx):
    self.mod = mod = _vstate(ctx)
    self.fn = fn = mod.func("BlockState.merge_into")
    ps = S.params_of(fn)
    if len(ps) != 2:
      raise AnalysisError(f"merge_into parameters {ps}")
    self.me, self.other = ps
    self.sym = sym = S.Sym(mod, fn)
    if sym.counts.get(self.me) or sym.counts.get(self.other):
      raise AnalysisError("merge_into rebinds its parameters")
    self.table = _merge_returns(mod, fn, sym, self.other)
    bargs = _bs_args(mod, self.table[False][1])
    if "_locals" not in bargs or "_locals_with_block_condition" not in bargs:
      raise AnalysisError("merge_into: merged BlockState without locals / implicit set")
    if not (isinstance(bargs["_locals"], ast.Name) and
            isinstance(bargs["_locals_with_block_condition"], ast.Name)):
      raise AnalysisError("merge_into: merged containers are not plain locals")
    self.L = bargs["_locals"].id
    self.W = bargs["_locals_with_block_condition"].id
    # the loops over the two states' locals, in source order
    self.loops = []
    self.key = None
    for st in fn.body:
      if isinstance(st, ast.For):
        self.loops.append(self._loop(st))
      elif isinstance(st, (ast.While, ast.Try, ast.With, ast.Match)):
        raise AnalysisError(f"merge_into: top-level `{type(st).__name__}`")
    owners = [l["owner"] for l in self.loops]
    if sorted(owners) != sorted([self.me, self.other]):
      raise AnalysisError(
          f"merge_into: expected one loop over the locals of each state, found {owners}")
    # nothing outside the loops fills the merged containers
    self.marks_elsewhere = 0
    for st in fn.body:
      if isinstance(st, ast.For):
        continue
      for n in ast.walk(st):
        if isinstance(n, ast.Call) and src(n.func) == f"{self.W}.add":
          self.marks_elsewhere += 1
        elif isinstance(n, ast.Call) and isinstance(n.func, ast.Attribute) and \
            src(n.func.value) in (self.L, self.W) and n.func.attr in U._MUTATORS:
          raise AnalysisError(f"merge_into: `{src(n)[:50]}` outside the loops")
        elif isinstance(n, ast.Subscript) and isinstance(n.ctx, ast.Store) and \
            src(n.value) in (self.L, self.W):
          raise AnalysisError(f"merge_into: `{src(n)}` stored outside the loops")
    for nm, kind in ((self.L, "dict"), (self.W, "set")):
      inits = [x for x in fn.body if isinstance(x, ast.Assign) and len(x.targets) == 1
               and src(x.targets[0]) == nm]
      if len(inits) != 1 or sym.counts.get(nm) != 1:
        raise AnalysisError(f"merge_into: `{nm}` is not bound exactly once at the top level")
      # (whether it is fresh is R18.5's question; here only: it starts empty)
      v = inits[0].value
      if S.empty_kind(v) != kind:
        raise AnalysisError(
            f"merge_into: `{nm}` starts as `{src(v)[:50]}`, not as an empty {kind}: "
            "the name-by-name reading of the loops does not apply")

  def _loop(self, st):
    it, tgt = st.iter, st.target
    owner = key = var = None
    for x in (self.me, self.other):
      if src(it) == f"{x}._locals.items()":
        if not (isinstance(tgt, ast.Tuple) and len(tgt.elts) == 2 and
                all(isinstance(e, ast.Name) for e in tgt.elts)):
          raise AnalysisError(f"merge_into: loop target `{src(tgt)}`")
        owner, key, var = x, tgt.elts[0].id, tgt.elts[1].id
      elif src(it) in (f"{x}._locals", f"{x}._locals.keys()", f"list({x}._locals)",
                       f"tuple({x}._locals)", f"sorted({x}._locals)"):
        if not isinstance(tgt, ast.Name):
          raise AnalysisError(f"merge_into: loop target `{src(tgt)}`")
        owner, key = x, tgt.id
    if owner is None:
      raise AnalysisError(
          f"merge_into: top-level loop over `{src(it)}` is not a loop over the "
          "locals of one of the two states")
    if st.orelse:
      raise AnalysisError("merge_into: loop with an else clause")
    if self.key is None:
      self.key = key
    return {"owner": owner, "key": key, "var": var, "node": st}

  # -- terms -------------------------------------------------------------------
  def var_of(self, x):
    return f"{x}._locals[{self.key}]"

  def worlds(self):
    out = []
    for in_s, in_o in ((True, True), (True, False), (False, True)):
      for equal in ((True, False) if in_s and in_o else (False,)):
        for impl_s in ((True, False) if in_s else (False,)):
          for impl_o in ((True, False) if in_o else (False,)):
            out.append({"in": {self.me: in_s, self.other: in_o}, "equal": equal,
                        "impl": {self.me: impl_s, self.other: impl_o}})
    return out

  @staticmethod
  def label(w):
    ins = [x for x, v in w["in"].items() if v]
    extra = "".join(f",[{k}]={v}" for k, v in sorted(w.get("extra", {}).items()))
    return (f"in={'+'.join(ins)},equal={w['equal']},"
            f"implicit={'+'.join(x for x, v in w['impl'].items() if v) or '-'}{extra}")

  def all_worlds(self):
    """[(world, stored term, marked)] with lazily split worlds."""
    if hasattr(self, "_results"):
      return self._results
    out, todo = [], list(reversed(self.worlds()))
    while todo:
      w = todo.pop()
      if len(out) + len(todo) > 120:
        raise AnalysisError("merge_into: too many independent tests to enumerate")
      try:
        term, marked = self.run(w)
      except _NeedAtom as e:
        for val in (False, True):
          w2 = dict(w)
          w2["extra"] = dict(w.get("extra", {}), **{e.key: val})
          todo.append(w2)
        continue
      out.append((w, term, marked))
    self._results = out
    return out

  def cond_is_true(self, w, x):
    """In world w the block condition of x is known to be conditions.TRUE."""
    return w.get("extra", {}).get(f"{x}._condition is TRUE") is True

  def run(self, w):
    """(term stored for the name or None, marked?) in world w."""
    L, W, key = self.L, self.W, self.key
    state = {"L": None, "marked": False}
    me, other = self.me, self.other

    def close(e):
      """Reads of the merged entry denote what has been stored so far."""
      lk = f"{L}[{key}]"
      if not any(isinstance(n, ast.Subscript) and src(n) == lk for n in ast.walk(e)):
        return e

      class T(ast.NodeTransformer):
        def visit_Subscript(self, n):
          if src(n) == lk and isinstance(n.ctx, ast.Load):
            if state["L"] is None:
              raise AnalysisError(f"merge_into: `{lk}` is read before it is stored")
            return copy.deepcopy(state["L"])
          return self.generic_visit(n)
      return T().visit(copy.deepcopy(e))

    def atom(t):
      t = close(t)
      if isinstance(t, ast.Compare) and len(t.ops) == 1:
        l, r, op = src(t.left), src(t.comparators[0]), t.ops[0]
        if isinstance(op, (ast.In, ast.NotIn)) and l == key:
          pos = isinstance(op, ast.In)
          for x in (me, other):
            if r in (f"{x}._locals", f"{x}._locals.keys()"):
              return w["in"][x] == pos
            if r == f"{x}._locals_with_block_condition":
              return w["impl"][x] == pos
          if r == W:
            return state["marked"] == pos
          if r in (L, f"{L}.keys()"):
            return (state["L"] is not None) == pos
        if isinstance(op, (ast.Eq, ast.NotEq)) and \
            {l, r} == {self.var_of(me), self.var_of(other)}:
          return w["equal"] == isinstance(op, ast.Eq)
        if isinstance(op, (ast.Is, ast.IsNot)) and {l, r} == {other, "None"}:
          return isinstance(op, ast.IsNot)     # past the `if not other` exit
        if isinstance(op, (ast.Is, ast.IsNot)):
          for x in (me, other):
            if {l, r} == {f"{x}._condition", "conditions.TRUE"}:
              k = f"{x}._condition is TRUE"
              if k not in w.get("extra", {}):
                raise _NeedAtom(k)
              return w["extra"][k] == isinstance(op, ast.Is)
      if src(t) == other:
        return True                            # past the `if not other` exit
      # a test about the two states as a whole
      names = {n.id for n in ast.walk(t) if isinstance(n, ast.Name)}
      attrs = {n.attr for n in ast.walk(t) if isinstance(n, ast.Attribute)}
      if not (names & {key, L, W}) and not (
          attrs & {"_locals", "_locals_with_block_condition"}) and \
          not any(isinstance(n, (ast.NamedExpr, ast.Await, ast.Yield)) for n in ast.walk(t)):
        k = src(t)
        if k not in w.get("extra", {}):
          raise _NeedAtom(k)
        return w["extra"][k]
      return None

    def effect(s_, env, value):
      for n in ast.walk(s_) if not isinstance(s_, (ast.If, ast.For)) else []:
        if isinstance(n, ast.Call) and isinstance(n.func, ast.Attribute) and \
            n.func.attr in U._MUTATORS and src(n.func.value) in (L, W) and \
            not (isinstance(s_, ast.Expr) and n is s_.value and n.func.attr == "add"):
          raise AnalysisError(f"merge_into: `{src(n)[:50]}` in a locals loop")
      if isinstance(s_, ast.Assign) and len(s_.targets) == 1 and \
          isinstance(s_.targets[0], ast.Subscript):
        tg = U.subst_env(s_.targets[0], env)
        if src(tg) != f"{L}[{key}]":
          raise AnalysisError(f"merge_into: store into `{src(tg)}` in a locals loop")
        state["L"] = close(value(s_.value))
        return True
      if isinstance(s_, ast.Expr) and isinstance(s_.value, ast.Call):
        c = U.subst_env(s_.value, env)
        if src(c.func) == f"{W}.add" and len(c.args) == 1 and src(c.args[0]) == key:
          state["marked"] = True
          return True
        if isinstance(c.func, ast.Attribute) and c.func.attr == "with_condition":
          return True              # a value object is computed and dropped (R18.7)
        raise AnalysisError(f"merge_into: call `{src(c)[:60]}` in a locals loop")
      if isinstance(s_, ast.For):
        it = close(U.subst_env(s_.iter, env))
        seqs = _bindings_operands(it)
        if not seqs:
          raise AnalysisError(f"merge_into: inner loop over `{src(it)[:60]}`")
        maps = set()
        for n in ast.walk(s_):
          if isinstance(n, (ast.Subscript, ast.Attribute)) and isinstance(n.ctx, ast.Store):
            root = n
            while isinstance(root, (ast.Subscript, ast.Attribute)):
              root = root.value
            maps.add(src(root))
          elif isinstance(n, ast.Call) and isinstance(n.func, ast.Attribute) and \
              n.func.attr in U._MUTATORS:
            maps.add(src(n.func.value))
        if len(maps) != 1 or maps & {L, W, me, other}:
          raise AnalysisError(f"merge_into: the bindings loop writes {sorted(maps)}")
        env[maps.pop()] = ast.Call(func=ast.Name(id="__fold__", ctx=ast.Load()),
                                   args=seqs, keywords=[])
        return True
      return False

    for lp in self.loops:
      if not w["in"][lp["owner"]]:
        continue
      env = dict(self.sym.env_before(lp["node"]))
      env[lp["key"]] = ast.Name(id=key, ctx=ast.Load())
      if lp["var"]:
        env[lp["var"]] = ast.parse(self.var_of(lp["owner"]), mode="eval").body
      tr = U.run_world(lp["node"].body, env, atom, effect, where="merge_into")
      if tr.kind in ("return", "break", "raise"):
        raise AnalysisError(f"merge_into: `{tr.kind}` inside a locals loop")
    return state["L"], state["marked"]

  def contributions(self, term, allow_dups=False):
    """side -> ("raw", None) | ("cond", condition text) | ("other", text) for
    the variables of the two states the stored term is made of; plus whether
    the term is a fold."""
    if term is None:
      return {}, False
    folds = [n for n in ast.walk(term) if isinstance(n, ast.Call)
             and dotted(n.func) == "__fold__"]
    if len(folds) > 1:
      raise AnalysisError(f"merge_into: nested bindings maps in `{src(term)[:80]}`")
    parts = list(folds[0].args) if folds else [term]
    out = {}
    for p_ in parts:
      hit = None
      for x in (self.me, self.other):
        v = self.var_of(x)
        if src(p_) == v:
          hit = (x, ("raw", None))
        elif isinstance(p_, ast.Call) and isinstance(p_.func, ast.Attribute) and \
            p_.func.attr == "with_condition" and src(p_.func.value) == v and \
            len(p_.args) == 1 and not p_.keywords:
          hit = (x, ("cond", src(p_.args[0])))
        elif any(src(n) == v for n in ast.walk(p_)):
          hit = (x, ("other", src(p_)[:80]))
      if hit is None:
        raise AnalysisError(f"merge_into: stored value `{src(p_)[:80]}` not understood")
      if hit[0] in out and not allow_dups:
        raise AnalysisError(f"merge_into: `{hit[0]}`'s variable occurs twice in "
                            f"`{src(term)[:80]}`")
      out.setdefault(hit[0], hit[1])
    return out, bool(folds)


def _bindings_operands(expr):
  """Owner expressions of the `X.bindings` operands of a sequence expression."""
  if isinstance(expr, ast.BinOp) and isinstance(expr.op, ast.Add):
    return _bindings_operands(expr.left) + _bindings_operands(expr.right)
  if isinstance(expr, ast.Call) and (dotted(expr.func) or "").endswith("chain") \
      and not expr.keywords:
    out = []
    for a in expr.args:
      out.extend(_bindings_operands(a))
    return out
  if isinstance(expr, ast.Attribute) and expr.attr == "bindings":
    return [expr.value]
  if any(isinstance(n, ast.Attribute) and n.attr == "bindings" for n in ast.walk(expr)):
    raise AnalysisError(f"merge_into: bindings sequence `{src(expr)[:60]}` not understood")
  return []


def _merge_model(ctx):
  return ctx.memo(("c18-merge-model",), lambda: _Merge(ctx))


# ---------------------------------------------------------------------------
# R18.3

@rule("R18.3", "C18", floor=2)
def r18_3(ctx):
  """An implicitly conditioned variable is made explicit with its own state's condition."""
  m = _merge_model(ctx)
  me, other = m.me, m.other
  conds = {me: f"{me}._condition", other: f"{other}._condition"}
  for owner, label in ((me, "self-side"), (other, "other-side")):
    problems, facts, line = [], {}, m.fn.lineno
    for w, term, _ in m.all_worlds():
      if not w["in"][owner] or (w["equal"] and all(w["in"].values())):
        continue
      contrib, _ = m.contributions(term)
      got = contrib.get(owner)
      facts[m.label(w)] = src(term) if term is not None else None
      line = getattr(term, "lineno", line) if term is not None else line
      if got is None:
        if not all(w["in"].values()):
          problems.append(f"[{m.label(w)}] the local is dropped from the merged state")
        continue                     # both sides present: R18.4 (both-sides)
      kind, c = got
      if kind == "other" or (kind == "cond" and c not in conds.values()):
        raise AnalysisError(
            f"merge_into: `{owner}`'s variable is stored as `{c}` [{m.label(w)}]")
      if m.cond_is_true(w, owner) and (kind == "raw" or c == conds[owner]):
        continue                     # with_condition(TRUE) is the identity
      if w["impl"][owner]:
        if kind == "raw":
          problems.append(
              f"[{m.label(w)}] the variable taken from {owner}._locals carries "
              f"{owner}'s block condition implicitly and is never given that "
              "condition explicitly: after the merge its values are no longer "
              "restricted to that block")
        elif c != conds[owner]:
          problems.append(
              f"[{m.label(w)}] a variable taken from {owner}._locals is "
              f"conditioned with {c}")
      elif kind == "cond":
        problems.append(
            f"[{m.label(w)}] the conditioning of {owner}'s variable with {c} is "
            f"not guarded by membership in the implicit set of {owner}")
    ctx.check(not problems, f"merge_into:{label}", ST, line,
              "; ".join(problems), {"stored": facts})


# ---------------------------------------------------------------------------
# R18.4

def _bindings_seqs(expr):
  """The `X.bindings` operands of a (possibly concatenated/chained) sequence."""
  if isinstance(expr, ast.BinOp) and isinstance(expr.op, ast.Add):
    return _bindings_seqs(expr.left) + _bindings_seqs(expr.right)
  if isinstance(expr, ast.Call) and (dotted(expr.func) or "").endswith("chain") \
      and not expr.keywords:
    out = []
    for a in expr.args:
      out.extend(_bindings_seqs(a))
    return out
  if isinstance(expr, ast.Attribute) and expr.attr == "bindings":
    return [src(expr)]
  if any(isinstance(n, ast.Attribute) and n.attr == "bindings" for n in ast.walk(expr)):
    raise AnalysisError(f"merge_into: bindings sequence `{src(expr)}` not understood")
  return []


@rule("R18.4", "C18", floor=5)
def r18_4(ctx):
  """The value->condition map combines duplicates on both sides."""
  m = _merge_model(ctx)
  mod, fn, sym = m.mod, m.fn, m.sym
  me, other, lname = m.me, m.other, m.L
  # loops over bindings with a keyed write (wherever the fold was written: in
  # merge_into itself or in a helper that _vstate has inlined)
  floops = []
  for n in ast.walk(fn):
    if isinstance(n, ast.For) and _bindings_seqs(n.iter):
      if not isinstance(n.target, ast.Name):
        raise AnalysisError(f"merge_into: loop target `{src(n.target)}`")
      floops.append(n)
  seeds = []
  for n in ast.walk(fn):
    gens = None
    if isinstance(n, ast.DictComp):
      gens, key = n.generators, n.key
    elif isinstance(n, ast.Call) and dotted(n.func) == "dict" and n.args and \
        isinstance(n.args[0], (ast.GeneratorExp, ast.ListComp)):
      gens = n.args[0].generators
      elt = n.args[0].elt
      key = elt.elts[0] if isinstance(elt, ast.Tuple) and elt.elts else elt
    if gens and any(_bindings_seqs(g.iter) for g in gens):
      seeds.append((n, key, [s for g in gens for s in _bindings_seqs(g.iter)]))
  maps = set()
  writes = []
  for l in floops:
    b = l.target.id
    for n in ast.walk(l):
      if isinstance(n, ast.Assign) and len(n.targets) == 1 and \
          isinstance(n.targets[0], ast.Subscript):
        t = n.targets[0]
        if src(t.slice) != f"{b}.value":
          raise AnalysisError(f"merge_into: write keyed by `{src(t.slice)}`")
        maps.add(src(t.value))
        writes.append((l, b, n))
      elif isinstance(n, ast.AugAssign):
        raise AnalysisError(f"merge_into: `{src(n)}` in the bindings loop")
      elif isinstance(n, ast.stmt) and not isinstance(
          n, (ast.If, ast.For, ast.Pass, ast.Continue)):
        raise AnalysisError(f"merge_into: statement `{src(n)[:60]}` in the bindings loop")
  if len(maps) != 1:
    raise AnalysisError(f"merge_into: value->condition map not identified ({sorted(maps)})")
  M = maps.pop()
  inits = [s for s in ast.walk(fn) if isinstance(s, ast.Assign) and
           len(s.targets) == 1 and src(s.targets[0]) == M]
  if len(inits) != 1:
    raise AnalysisError(f"merge_into: {len(inits)} initialisations of {M}")
  init = inits[0]
  seed_here = [s for s in seeds if s[0] is init.value]
  if seed_here:
    ctx.bad("merge_into:bindings-map:init", ST, init.lineno,
            f"`{M}` is seeded by a dict comprehension/constructor over "
            f"{seed_here[0][2]}: a later binding of the same value silently "
            "replaces an earlier one (last one wins) instead of or-ing their "
            "conditions", {"init": src(init.value)})
  elif S.empty_kind(init.value) == "dict":
    ctx.ok("merge_into:bindings-map:init", ST, init.lineno, {"init": src(init.value)})
  else:
    raise AnalysisError(f"merge_into: `{M}` initialised with `{src(init.value)[:60]}`")
  for s in seeds:
    if s[0] is not init.value:
      raise AnalysisError("merge_into: unrelated dict built from bindings")
  # both sides go through the combining loop: whenever the two states hold
  # different variables for a name, what is stored for it is built from a map
  # folded over the bindings of both
  folded, missing = {}, []
  for w, term, _ in m.all_worlds():
    if not all(w["in"].values()) or w["equal"]:
      continue
    contrib, is_fold = m.contributions(term, allow_dups=True)
    folded[m.label(w)] = src(term)[:160] if term is not None else None
    lacking = [x for x in (me, other) if x not in contrib]
    if lacking or not is_fold:
      missing.append((m.label(w), lacking or "no bindings map"))
  ctx.check(not missing, "merge_into:bindings-map:both-sides", ST,
            floops[0].lineno if floops else fn.lineno,
            "when both states define a name with different variables the "
            "merged variable must be folded from the bindings of both; "
            f"missing: {missing}: the two sides of one merge must be treated alike",
            {"stored": folded})
  # the two arms
  if len({id(l) for l, _, _ in writes}) != 1:
    raise AnalysisError("merge_into: writes in several bindings loops")
  l, b, _ = writes[0]
  key = f"{b}.value"

  def atom_for(present):
    return lambda t: (None if _member_atom(t, key, M) is None
                      else _member_atom(t, key, M) == present)

  for present, label in ((True, "duplicate"), (False, "fresh")):
    hit = [w for _, _, w in writes
           if S.holds(S.guards(mod, w, sym, within=l), atom_for(present))]
    if len(hit) != 1:
      raise AnalysisError(
          f"merge_into: {len(hit)} writes execute when the value is "
          f"{'already' if present else 'not yet'} in the map")
    v = sym.resolve(hit[0].value, hit[0])
    cc = _conn_call(v, mod)
    if cc is not None:
      _vocab("merge_into", cc[1], (f"{M}[{key}]", f"{b}.condition"))
    elif src(v) != f"{b}.condition":
      raise AnalysisError(f"merge_into: map entry set to `{src(v)[:70]}`")
    if present:
      ok = cc == ("Or", sorted([f"{M}[{key}]", f"{b}.condition"]))
      ctx.check(ok, "merge_into:bindings-map:duplicate", ST, hit[0].lineno,
                "a value that is already in the map must get conditions.Or("
                f"its condition so far, the new binding's condition); it gets "
                f"`{src(v)}`", {"stored": src(v)})
    else:
      ctx.check(src(v) == f"{b}.condition", "merge_into:bindings-map:fresh", ST,
                hit[0].lineno,
                "a value that is not yet in the map must get the binding's own "
                f"condition; it gets `{src(v)}`", {"stored": src(v)})
  # rebuilding the variable from the map
  rebuilt = None
  for n in ast.walk(fn):
    if isinstance(n, ast.Assign) and len(n.targets) == 1 and \
        isinstance(n.targets[0], ast.Subscript) and \
        src(n.targets[0].value) == lname and \
        any(src(x) == f"{M}.items()" for x in ast.walk(n.value)):
      if rebuilt is not None:
        raise AnalysisError("merge_into: the map is rebuilt into a variable twice")
      rebuilt = n
  if rebuilt is None:
    raise AnalysisError("merge_into: the merged variable is not rebuilt from the map")
  gen = [x for x in ast.walk(rebuilt.value)
         if isinstance(x, (ast.GeneratorExp, ast.ListComp))]
  if len(gen) != 1 or len(gen[0].generators) != 1:
    raise AnalysisError("merge_into: rebuild expression shape")
  g = gen[0].generators[0]
  elt = gen[0].elt
  if not (isinstance(g.target, ast.Tuple) and len(g.target.elts) == 2 and
          isinstance(elt, ast.Call) and (dotted(elt.func) or "").endswith("Binding")):
    raise AnalysisError("merge_into: rebuild expression shape")
  k, v = (src(x) for x in g.target.elts)
  bound = dict(zip(("value", "condition"), (src(a) for a in elt.args)))
  for kw in elt.keywords:
    bound[kw.arg] = src(kw.value)
  ok = not g.ifs and src(g.iter) == f"{M}.items()" and \
      bound == {"value": k, "condition": v}
  ctx.check(ok, "merge_into:bindings-map:rebuild", ST, rebuilt.lineno,
            "every (value, condition) entry of the map must become "
            f"Binding(value, condition); found `{src(gen[0])}`",
            {"binding": bound, "filters": [src(i) for i in g.ifs]})


# ---------------------------------------------------------------------------
# R18.5

_COPIERS = ("dict", "set", "frozenset", "list", "tuple", "sorted")


def _freshness(expr, sym, owners):
  """'fresh' or 'shared:<what>'; AnalysisError when not understood."""
  if isinstance(expr, (ast.Dict, ast.Set, ast.List, ast.DictComp, ast.SetComp,
                       ast.ListComp)):
    return "fresh"
  if isinstance(expr, ast.Call):
    d = dotted(expr.func) or ""
    if d in _COPIERS or d.split(".")[-1] in ("immutabledict", "deepcopy"):
      return "fresh"
    if isinstance(expr.func, ast.Attribute) and expr.func.attr == "copy" and not expr.args:
      return "fresh"
    raise AnalysisError(f"freshness of `{src(expr)[:60]}` not understood")
  if isinstance(expr, ast.Attribute):
    root = expr
    while isinstance(root, ast.Attribute):
      root = root.value
    if isinstance(root, ast.Name) and root.id in owners:
      return f"shared:{src(expr)}"
    raise AnalysisError(f"freshness of `{src(expr)}` not understood")
  if isinstance(expr, ast.Name):
    nm = expr.id
    defs = sym.defs.get(nm, [])
    if nm in sym.params or not defs or len(defs) != sym.counts.get(nm, 0):
      raise AnalysisError(f"freshness of name `{nm}` not understood")
    kinds = {_freshness(d, sym, owners) for d in defs}
    if kinds == {"fresh"}:
      # the local must not escape anywhere else
      for n in walk_no_nested(sym.fn):
        if isinstance(n, ast.Assign) and isinstance(n.value, ast.Name) and \
            n.value.id == nm:
          raise AnalysisError(f"local `{nm}` is aliased by `{src(n)}`")
      return "fresh"
    return sorted(kinds - {"fresh"})[0]
  raise AnalysisError(f"freshness of `{src(expr)[:60]}` not understood")


@rule("R18.5", "C18", floor=9)
def r18_5(ctx):
  """No BlockState shares a mutable container; store_local marks the name."""
  mod = get_module(ctx, ST)
  vmod = _vstate(ctx)
  init, ips, roles = _init_roles(mod)
  # every construction site of the file, in the function it is written in
  # (a helper such as `_copy` is judged where it stands: its parameters are
  # the states whose containers must not be shared)
  sites = {}
  for c in calls_in(mod.tree):
    if (dotted(c.func) or "").split(".")[-1] != "BlockState":
      continue
    fn = mod.enclosing_function(c)
    if fn is None or isinstance(fn, ast.Lambda):
      raise AnalysisError(f"state.py constructs a BlockState outside a function (line {c.lineno})")
    sites.setdefault(fn, []).append(c)
  if not sites:
    raise AnalysisError("state.py constructs no BlockState")
  for fn in sorted(sites, key=lambda f: f.lineno):
    sym = S.Sym(mod, fn)
    owners = set(S.params_of(fn))
    short = fn.name
    calls = sorted(sites[fn], key=lambda c: c.lineno)
    for i, call in enumerate(calls):
      bargs = _bs_args(mod, call)
      tag = f"{short}#{i + 1}" if len(calls) > 1 else short
      for field in ("_locals", "_locals_with_block_condition"):
        cons = f"BlockState({tag}):{field}"
        if field not in bargs:
          if field == "_locals":
            raise AnalysisError(f"{short}: BlockState(...) without locals")
          ctx.ok(cons, ST, call.lineno, {"argument": "default (set(locals_))"})
          continue
        k = _freshness(bargs[field], sym, owners)
        ctx.check(k == "fresh", cons, ST, call.lineno,
                  f"the new state is given `{src(bargs[field])}` ({k}) as its "
                  f"{field}: the two states would share one mutable container, "
                  "so store_local on either changes the other",
                  {"argument": src(bargs[field]), "kind": k})
  # __init__: the default implicit set is a fresh set of all names
  lp = [p for p, f in roles.items() if f == "_locals"][0]
  wp = [p for p, f in roles.items() if f == "_locals_with_block_condition"][0]
  vals = {}
  for n in walk_no_nested(init):
    if isinstance(n, ast.Assign) and len(n.targets) == 1 and \
        src(n.targets[0]) == "self._locals_with_block_condition":
      base = [(src(t), p) for t, p in S.guards(mod, n)]
      # if/else statement or conditional expression: the same two arms
      for leaf, conds in S.expand_ifexp(n.value):
        g = []
        for t, p in base + [(src(t), p) for t, p in conds]:
          while t.startswith("not "):
            t, p = t[4:], not p
          g.append((t, p))
        if g in ([(f"{wp} is None", True)], [(f"{wp} is not None", False)]):
          vals["default"] = src(leaf)
        elif g in ([(f"{wp} is None", False)], [(f"{wp} is not None", True)]):
          vals["given"] = src(leaf)
        else:
          raise AnalysisError(f"BlockState.__init__: implicit set assigned under {g}")
  if set(vals) != {"default", "given"} or vals["given"] != wp:
    raise AnalysisError(f"BlockState.__init__: implicit set initialised as {vals}")
  ctx.check(vals["default"] in (f"set({lp})", f"set({lp}.keys())", f"set(self._locals)"),
            "BlockState.__init__:default-implicit-set", ST, init.lineno,
            "without an explicit set every initial local carries the block "
            f"condition: the default must be a fresh set({lp}); found "
            f"`{vals['default']}`", vals)
  # get_locals / store_local: BlockState's own or inherited from a base class
  # of the file (local MRO)
  mod = vmod
  fn = mod.func("BlockState.get_locals")
  rets = [n for n in walk_no_nested(fn) if isinstance(n, ast.Return)]
  if len(rets) != 1 or rets[0].value is None:
    raise AnalysisError("BlockState.get_locals: shape")
  sym = S.Sym(mod, fn)
  k = _freshness(sym.resolve(rets[0].value, rets[0]), sym, set(S.params_of(fn)))
  ctx.check(k == "fresh", "BlockState.get_locals", ST, rets[0].lineno,
            f"get_locals returns `{src(rets[0].value)}` ({k}): callers would "
            "hold the state's own dict", {"returns": src(rets[0].value), "kind": k})
  # store_local
  fn = mod.func("BlockState.store_local")
  ps = S.params_of(fn)
  if len(ps) != 3:
    raise AnalysisError(f"store_local parameters {ps}")
  me, nm, vr = ps
  writes = [n for n in walk_no_nested(fn) if isinstance(n, ast.Assign)
            and len(n.targets) == 1 and src(n.targets[0]) == f"{me}._locals[{nm}]"]
  if len(writes) != 1 or src(writes[0].value) != vr:
    raise AnalysisError("store_local: the write into _locals was not found")
  marks = [c for c in calls_in(fn)
           if src(c.func) == f"{me}._locals_with_block_condition.add"
           and len(c.args) == 1 and src(c.args[0]) == nm]
  unguarded = [c for c in marks if not S.guards(mod, mod.enclosing_stmt(c))]
  ctx.check(bool(unguarded) and not S.guards(mod, writes[0]),
            "BlockState.store_local:marks-implicit", ST, fn.lineno,
            "a value stored inside a block holds under that block's condition: "
            "store_local must add the name to _locals_with_block_condition in "
            f"the same call (found {len(marks)} unconditional marks)",
            {"marks": len(unguarded)})


# ---------------------------------------------------------------------------
# R18.6

@rule("R18.6", "C18", floor=3)
def r18_6(ctx):
  """Only a variable identical in both states takes the merged block condition."""
  m = _merge_model(ctx)
  me, other = m.me, m.other
  res = {}
  for w, term, marked in m.all_worlds():
    contrib, is_fold = m.contributions(term)
    res[m.label(w)] = (w, term, marked, contrib, is_fold)

  def fmt(labels):
    return {l: {"stored": src(res[l][1]) if res[l][1] is not None else None,
                "marked": res[l][2]} for l in labels}
  line = m.loops[0]["node"].lineno
  same = [l for l, r in res.items() if r[0]["equal"]]
  ok = all(res[l][2] and not res[l][4] and len(res[l][3]) == 1 and
           list(res[l][3].values())[0] == ("raw", None) for l in same)
  ctx.check(ok, "merge_into:identical-variable", ST, line,
            "a variable that is equal in both states must be stored unchanged "
            "and marked as carrying the merged block condition (p or q); "
            f"found {fmt(same)}", fmt(same))
  diff = [l for l, r in res.items() if not r[0]["equal"]]
  ok = not any(res[l][2] for l in diff) and not m.marks_elsewhere
  ctx.check(ok, "merge_into:only-identical-marked", ST, line,
            "a variable that differs between the states (or exists in one "
            "only) must not be marked as carrying the merged block condition: "
            "its bindings would be widened from p (or q) to p or q; "
            f"found {fmt(diff)} and {m.marks_elsewhere} marks elsewhere",
            {"marks_elsewhere": m.marks_elsewhere, **fmt(diff)})
  expl = [l for l in diff if res[l][0]["in"][me] and not res[l][0]["impl"][me]]
  ok = all(res[l][3].get(me) == ("raw", None) or
           (m.cond_is_true(res[l][0], me) and
            res[l][3].get(me) == ("cond", f"{me}._condition")) for l in expl)
  ctx.check(ok, "merge_into:explicit-kept", ST, line,
            "a differing variable whose conditions are already explicit must "
            f"be stored unchanged; found {fmt(expl)}", fmt(expl))


# ---------------------------------------------------------------------------
# R18.7

def _frozen(mod, c):
  """Is class c decorated as a frozen dataclass (eq left on)?"""
  for d in c.decorator_list:
    node = d
    if isinstance(d, ast.Name) and d.id in mod.assigns:
      node = mod.assigns[d.id]
    if isinstance(node, ast.Call) and (dotted(node.func) or "").endswith("dataclass"):
      kws = {k.arg: k.value for k in node.keywords}
      fr = kws.get("frozen")
      eq = kws.get("eq")
      unsafe = kws.get("unsafe_hash")
      if isinstance(fr, ast.Constant) and fr.value is True and \
          (eq is None or (isinstance(eq, ast.Constant) and eq.value is True)) \
          and unsafe is None:
        return True, src(node)
      return False, src(node)
    if (dotted(node) or "").endswith("dataclass"):
      return False, src(node)
  return False, None


@rule("R18.7", "C18", floor=9)
def r18_7(ctx):
  """Conditions, bindings and variables are frozen value objects."""
  for rel, names in ((CD, ("Condition", "_True", "_False", "_Not", "_Composite",
                           "_Or", "_And")), (VR, ("Binding", "Variable"))):
    mod = get_module(ctx, rel)
    for nm in names:
      c = mod.cls(nm)
      ok, deco = _frozen(mod, c)
      if deco is None:
        raise AnalysisError(f"{nm} is not a dataclass")
      own = [m for m in ("__eq__", "__hash__", "__setattr__") if m in mod.methods(nm)]
      if own:
        raise AnalysisError(f"{nm} defines {own} itself")
      ctx.check(ok, f"{nm}:frozen", rel, c.lineno,
                f"{nm} is declared with `{deco}`: it must be a frozen dataclass "
                "with value equality (hashable: conditions are set members and "
                "are looked up by value; immutable: variables are shared "
                "between block states)", {"decorator": deco})


# ---------------------------------------------------------------------------
# sensitivity suite

_MAKE_LOOP = (
    "    conditions = set()\n"
    "    for arg in args:\n"
    "      if arg is cls._IGNORE:\n"
    "        continue\n"
    "      if arg is cls._ACCEPT:\n"
    "        return arg\n"
    "      negation = Not(arg)\n"
    "      if negation in conditions:\n"
    "        return cls._ACCEPT\n"
    "      conditions.add(arg)\n")
_MAKE_FINAL = (
    "    if not conditions:\n"
    "      return cls._IGNORE\n"
    "    if len(conditions) == 1:\n"
    "      return conditions.pop()\n"
    "    return cls(frozenset(conditions))\n")
_D5_NEW = (
    "      bindings = {}\n"
    "      for b in locals_[name].bindings + var.bindings:\n")
_D5_OLD = (
    "      bindings = {b.value: b.condition for b in locals_[name].bindings}\n"
    "      for b in var.bindings:\n")
_VAR_LOOP = (
    "    new_bindings = []\n"
    "    for b in self.bindings:\n"
    "      new_condition = conditions.And(b.condition, condition)\n"
    "      new_bindings.append(dataclasses.replace(b, condition=new_condition))\n"
    "    return dataclasses.replace(self, bindings=tuple(new_bindings))\n")

# -- refactored shapes (helpers, mixins, hoisted temporaries) + defects --------
_R1_MAKE = (
    "    ignore, accept = cls._IGNORE, cls._ACCEPT\n"
    "    kept = set()\n"
    "    for cond in args:\n"
    "      if cond is ignore:\n"
    "        continue\n"
    "      if cond is accept or Not(cond) in kept:\n"
    "        return accept\n"
    "      kept.add(cond)\n"
    "    if len(kept) > 1:\n"
    "      return cls(frozenset(kept))\n"
    "    if kept:\n"
    "      (only,) = kept\n"
    "      return only\n"
    "    return ignore\n")
_SELF_ARMS = (
    "      elif name in self._locals_with_block_condition:\n"
    "        # This variable implicitly had a block condition, which we now\n"
    "        # explicitly add to the variable.\n"
    "        locals_[name] = var.with_condition(self._condition)\n"
    "      else:\n"
    "        locals_[name] = var\n"
    "    for name, var in other._locals.items():\n")
_OTHER_HEAD = (
    "    for name, var in other._locals.items():\n"
    "      if name in locals_with_block_condition:\n"
    "        continue\n"
    "      if name in other._locals_with_block_condition:\n"
    "        # This variable implicitly had a block condition, which we now\n"
    "        # explicitly add to the variable.\n"
    "        var = var.with_condition(other._condition)\n")
_FOLD = (
    "      bindings = {}\n"
    "      for b in locals_[name].bindings + var.bindings:\n"
    "        if b.value in bindings:\n"
    "          bindings[b.value] = conditions.Or(bindings[b.value], b.condition)\n"
    "        else:\n"
    "          bindings[b.value] = b.condition\n"
    "      locals_[name] = variables.Variable(\n"
    "          tuple(variables.Binding(k, v) for k, v in bindings.items()))\n")
_MERGE_DEF = "  def merge_into(self, other: Optional['BlockState[_T]']) -> 'BlockState[_T]':\n"
_NONE_COPY = (
    "      return BlockState(\n"
    "          locals_=dict(self._locals),\n"
    "          condition=self._condition,\n"
    "          locals_with_block_condition=set(self._locals_with_block_condition),\n"
    "      )\n")
_ACCESSORS = (
    "  def load_local(self, name: str) -> variables.Variable[_T]:\n"
    "    return self._locals[name].with_name(name)\n\n"
    "  def store_local(self, name: str, var: variables.Variable[_T]) -> None:\n"
    "    self._locals[name] = var\n"
    "    self._locals_with_block_condition.add(name)\n\n"
    "  def get_locals(self) -> Mapping[str, variables.Variable[_T]]:\n"
    "    return immutabledict.immutabledict(self._locals)\n\n")


def _explicit_helper(test="name in self._locals_with_block_condition",
                     cond="self._condition", other_side="other._explicit_local(name)"):
  """merge_into with the 'make the implicit condition explicit' step extracted
  into a method used for both sides (second loop over the keys only)."""
  return [
      (ST, _MERGE_DEF,
       "  def _explicit_local(self, name):\n"
       "    var = self._locals[name]\n"
       f"    if {test}:\n"
       f"      return var.with_condition({cond})\n"
       "    return var\n\n" + _MERGE_DEF),
      (ST, _SELF_ARMS,
       "      else:\n        locals_[name] = self._explicit_local(name)\n"
       "    for name, var in other._locals.items():\n"),
      (ST, _OTHER_HEAD,
       "    for name in other._locals:\n"
       "      if name in locals_with_block_condition:\n"
       "        continue\n"
       f"      var = {other_side}\n"),
  ]


def _union_helper(seq="var1.bindings + var2.bindings", conn="Or",
                  dup="conditions.{conn}(merged[b.value], b.condition)"):
  """merge_into with the binding-union loop extracted into a module function."""
  return [
      (ST, _FOLD, "      locals_[name] = _union_bindings(locals_[name], var)\n"),
      (ST, "    # pylint: enable=protected-access\n"
           "    return BlockState(locals_, condition, locals_with_block_condition)\n",
       "    # pylint: enable=protected-access\n"
       "    return BlockState(locals_, condition, locals_with_block_condition)\n\n\n"
       "def _union_bindings(var1, var2):\n"
       "  merged = {}\n"
       f"  for b in {seq}:\n"
       "    if b.value in merged:\n"
       "      merged[b.value] = " + dup.format(conn=conn) + "\n"
       "    else:\n"
       "      merged[b.value] = b.condition\n"
       "  return variables.Variable(\n"
       "      tuple(variables.Binding(k, v) for k, v in merged.items()))\n"),
  ]


def _copy_helper(locals_arg="dict(self._locals)"):
  return [
      (ST, _NONE_COPY, "      return self._copy()\n"),
      (ST, _MERGE_DEF,
       "  def _copy(self):\n"
       "    return BlockState(\n"
       f"        locals_={locals_arg},\n"
       "        condition=self._condition,\n"
       "        locals_with_block_condition=set(self._locals_with_block_condition),\n"
       "    )\n\n" + _MERGE_DEF),
  ]


def _mixin(accessors):
  """The locals accessors moved into a base class of the file."""
  return [
      (ST, _ACCESSORS, ""),
      (ST, "class BlockState(Generic[_T]):\n",
       "class _LocalsAccessMixin(Generic[_T]):\n"
       "  \"\"\"Access to the local variables of a block state.\"\"\"\n\n"
       + accessors + "\nclass BlockState(_LocalsAccessMixin[_T]):\n"),
  ]


VARIANTS = [
    # R18.1
    {"name": "twin-benign-C18-r1-hoisted-constants", "rule": "R18.1",
     "patch": "benign/C18-r1/patch.diff", "expect": "silent"},
    {"name": "twin-make-hoisted-constants-fused-tests-unpacking", "rule": "R18.1", "file": CD,
     "expect": "silent", "old": _MAKE_LOOP + _MAKE_FINAL, "new": _R1_MAKE},
    {"name": "hoisted-constants-swapped", "rule": "R18.1", "file": CD, "expect": "fire",
     "old": _MAKE_LOOP + _MAKE_FINAL,
     "new": _R1_MAKE.replace("ignore, accept = cls._IGNORE, cls._ACCEPT",
                             "ignore, accept = cls._ACCEPT, cls._IGNORE")},
    {"name": "hoisted-shape-empty-returns-absorbing", "rule": "R18.1", "file": CD,
     "expect": "fire", "old": _MAKE_LOOP + _MAKE_FINAL,
     "new": _R1_MAKE.replace("    return ignore\n", "    return accept\n")},
    {"name": "hoisted-shape-complement-returns-identity", "rule": "R18.1", "file": CD,
     "expect": "fire", "old": _MAKE_LOOP + _MAKE_FINAL,
     "new": _R1_MAKE.replace(
         "      if cond is accept or Not(cond) in kept:\n        return accept\n",
         "      if cond is accept or Not(cond) in kept:\n        return ignore\n")},
    {"name": "unpacking-taken-for-several-members", "rule": "R18.1", "file": CD,
     "expect": "fire", "old": _MAKE_LOOP + _MAKE_FINAL,
     "new": _R1_MAKE.replace("    if len(kept) > 1:\n", "    if len(kept) > 2:\n")},
    {"name": "_And._ACCEPT-is-TRUE", "rule": "R18.1", "file": CD, "expect": "fire",
     "old": "  _ACCEPT: ClassVar[Condition] = FALSE\n", "new": "  _ACCEPT: ClassVar[Condition] = TRUE\n"},
    {"name": "_Or-constants-swapped", "rule": "R18.1", "file": CD, "expect": "fire",
     "old": "  _ACCEPT: ClassVar[Condition] = TRUE\n  _IGNORE: ClassVar[Condition] = FALSE\n",
     "new": "  _ACCEPT: ClassVar[Condition] = FALSE\n  _IGNORE: ClassVar[Condition] = TRUE\n"},
    {"name": "make-roles-swapped", "rule": "R18.1", "file": CD, "expect": "fire",
     "old": "      if arg is cls._IGNORE:\n        continue\n      if arg is cls._ACCEPT:\n        return arg\n",
     "new": "      if arg is cls._ACCEPT:\n        continue\n      if arg is cls._IGNORE:\n        return arg\n"},
    {"name": "make-complement-returns-identity", "rule": "R18.1", "file": CD, "expect": "fire",
     "old": "      if negation in conditions:\n        return cls._ACCEPT\n",
     "new": "      if negation in conditions:\n        return cls._IGNORE\n"},
    {"name": "make-complement-test-inverted", "rule": "R18.1", "file": CD, "expect": "fire",
     "old": "      if negation in conditions:\n        return cls._ACCEPT\n",
     "new": "      if negation not in conditions:\n        return cls._ACCEPT\n"},
    {"name": "make-identity-kept", "rule": "R18.1", "file": CD, "expect": "fire",
     "old": "      if arg is cls._IGNORE:\n        continue\n", "new": ""},
    {"name": "make-empty-returns-absorbing", "rule": "R18.1", "file": CD, "expect": "fire",
     "old": "    if not conditions:\n      return cls._IGNORE\n",
     "new": "    if not conditions:\n      return cls._ACCEPT\n"},
    {"name": "make-single-wrapped", "rule": "R18.1", "file": CD, "expect": "fire",
     "old": "    if len(conditions) == 1:\n      return conditions.pop()\n", "new": ""},
    {"name": "make-pair-collapses", "rule": "R18.1", "file": CD, "expect": "fire",
     "old": "    if len(conditions) == 1:\n", "new": "    if len(conditions) <= 2:\n"},
    {"name": "make-unhashable-composite", "rule": "R18.1", "file": CD, "expect": "fire",
     "old": "    return cls(frozenset(conditions))\n", "new": "    return cls(conditions)\n"},
    {"name": "Not-unwrap-inverted", "rule": "R18.1", "file": CD, "expect": "fire",
     "old": "    if isinstance(condition, _Not):\n      return condition.condition\n    return cls(condition)",
     "new": "    if not isinstance(condition, _Not):\n      return condition.condition\n    return cls(condition)"},
    {"name": "Not-of-Not-unchanged", "rule": "R18.1", "file": CD, "expect": "fire",
     "old": "      return condition.condition\n", "new": "      return condition\n"},
    {"name": "Or-bound-to-And", "rule": "R18.1", "file": CD, "expect": "fire",
     "old": "Or = _Or.make\n", "new": "Or = _And.make\n"},
    {"name": "twin-make-tests-reordered", "rule": "R18.1", "file": CD, "expect": "silent",
     "old": _MAKE_LOOP + _MAKE_FINAL,
     "new": ("    members = set()\n"
             "    for arg in args:\n"
             "      if arg is cls._ACCEPT:\n"
             "        return cls._ACCEPT\n"
             "      elif arg is cls._IGNORE:\n"
             "        continue\n"
             "      if Not(arg) in members:\n"
             "        return cls._ACCEPT\n"
             "      members.add(arg)\n"
             + _MAKE_FINAL.replace("conditions", "members"))},
    {"name": "twin-make-final-reordered", "rule": "R18.1", "file": CD, "expect": "silent",
     "old": _MAKE_FINAL,
     "new": ("    if len(conditions) > 1:\n"
             "      return cls(frozenset(conditions))\n"
             "    elif conditions:\n"
             "      return conditions.pop()\n"
             "    else:\n"
             "      return cls._IGNORE\n")},
    {"name": "twin-Not-else-arm", "rule": "R18.1", "file": CD, "expect": "silent",
     "old": "    if isinstance(condition, _Not):\n      return condition.condition\n    return cls(condition)",
     "new": "    return condition.condition if isinstance(condition, cls) else cls(condition)"},
    {"name": "unknown-idiom-any-comprehension", "rule": "R18.1", "file": CD, "expect": "error",
     "old": _MAKE_LOOP,
     "new": ("    if any(arg is cls._ACCEPT for arg in args):\n"
             "      return cls._ACCEPT\n"
             "    conditions = {arg for arg in args if arg is not cls._IGNORE}\n"
             "    if any(Not(arg) in conditions for arg in conditions):\n"
             "      return cls._ACCEPT\n")},
    # R18.8 / R18.1 nested terms
    {"name": "seeded-C18-m1", "rule": "R18.8", "patch": "seeded/C18-m1/patch.diff",
     "expect": "fire"},
    {"name": "make-flattens-any-composite", "rule": "R18.8", "file": CD, "expect": "fire",
     "old": "    for arg in args:\n      if arg is cls._IGNORE:\n",
     "new": ("    for arg in args:\n"
             "      if isinstance(arg, _Composite):\n"
             "        conditions.update(arg.conditions)\n"
             "        continue\n"
             "      if arg is cls._IGNORE:\n")},
    {"name": "make-flattens-any-composite-R18.1", "rule": "R18.1", "file": CD, "expect": "fire",
     "old": "    for arg in args:\n      if arg is cls._IGNORE:\n",
     "new": ("    for arg in args:\n"
             "      if isinstance(arg, _Composite):\n"
             "        conditions.update(arg.conditions)\n"
             "        continue\n"
             "      if arg is cls._IGNORE:\n")},
    {"name": "make-pre-flattens-both-connectives", "rule": "R18.8", "file": CD, "expect": "fire",
     "old": "    conditions = set()\n    for arg in args:\n",
     "new": ("    args = [m for arg in args for m in (\n"
             "        arg.conditions if isinstance(arg, (_And, _Or)) else (arg,))]\n"
             "    conditions = set()\n    for arg in args:\n")},
    {"name": "make-flattens-unless-atom", "rule": "R18.8", "file": CD, "expect": "fire",
     "old": "      conditions.add(arg)\n    if not conditions:",
     "new": ("      if not isinstance(arg, _Composite):\n"
             "        conditions.add(arg)\n"
             "        continue\n"
             "      conditions |= arg.conditions\n    if not conditions:")},
    {"name": "twin-make-flattens-same-connective", "rule": "R18.8", "file": CD,
     "expect": "silent",
     "old": "    for arg in args:\n      if arg is cls._IGNORE:\n",
     "new": ("    for arg in args:\n"
             "      if isinstance(arg, cls):\n"
             "        conditions.update(arg.conditions)\n"
             "        continue\n"
             "      if arg is cls._IGNORE:\n")},
    {"name": "twin-make-flattens-exact-type", "rule": "R18.8", "file": CD,
     "expect": "silent",
     "old": "      conditions.add(arg)\n    if not conditions:",
     "new": ("      if isinstance(arg, _Composite) and type(arg) is cls:\n"
             "        conditions |= arg.conditions\n"
             "      else:\n"
             "        conditions.add(arg)\n    if not conditions:")},
    {"name": "twin-make-tests-composite-without-unpacking", "rule": "R18.8", "file": CD,
     "expect": "silent",
     "old": "      conditions.add(arg)\n    if not conditions:",
     "new": ("      if isinstance(arg, _Composite):\n"
             "        conditions.add(arg)\n"
             "        continue\n"
             "      conditions.add(arg)\n    if not conditions:")},
    # R18.2
    {"name": "Variable.with_condition-uses-Or", "rule": "R18.2", "file": VR, "expect": "fire",
     "old": "new_condition = conditions.And(b.condition, condition)",
     "new": "new_condition = conditions.Or(b.condition, condition)"},
    {"name": "Variable.with_condition-replaces-condition", "rule": "R18.2", "file": VR, "expect": "fire",
     "old": "new_condition = conditions.And(b.condition, condition)",
     "new": "new_condition = conditions.And(condition, condition)"},
    {"name": "Variable.with_condition-skips-unconditional", "rule": "R18.2", "file": VR, "expect": "fire",
     "old": "    for b in self.bindings:\n      new_condition = conditions.And",
     "new": "    for b in self.bindings:\n      if b.condition is conditions.TRUE:\n        continue\n      new_condition = conditions.And"},
    {"name": "Variable.with_condition-first-binding-only", "rule": "R18.2", "file": VR, "expect": "fire",
     "old": "    for b in self.bindings:\n      new_condition = conditions.And",
     "new": "    for b in self.bindings[:1]:\n      new_condition = conditions.And"},
    {"name": "Variable.with_condition-FALSE-shortcut", "rule": "R18.2", "file": VR, "expect": "fire",
     "old": "    if condition is conditions.TRUE:\n      return self\n    new_bindings",
     "new": "    if condition is conditions.FALSE:\n      return self\n    new_bindings"},
    {"name": "BlockState.with_condition-uses-Or", "rule": "R18.2", "file": ST, "expect": "fire",
     "old": "    condition = conditions.And(self._condition, condition)",
     "new": "    condition = conditions.Or(self._condition, condition)"},
    {"name": "BlockState.with_condition-arms-swapped", "rule": "R18.2", "file": ST, "expect": "fire",
     "old": "      if name in self._locals_with_block_condition:\n        new_locals[name] = var\n",
     "new": "      if name not in self._locals_with_block_condition:\n        new_locals[name] = var\n"},
    {"name": "BlockState.with_condition-own-condition-only", "rule": "R18.2", "file": ST, "expect": "fire",
     "old": "        new_locals[name] = var.with_condition(condition)",
     "new": "        new_locals[name] = var.with_condition(self._condition)"},
    {"name": "merge-block-condition-And", "rule": "R18.2", "file": ST, "expect": "fire",
     "old": "    condition = conditions.Or(self._condition, other._condition)",
     "new": "    condition = conditions.And(self._condition, other._condition)"},
    {"name": "merge-block-condition-self-only", "rule": "R18.2", "file": ST, "expect": "fire",
     "old": "    condition = conditions.Or(self._condition, other._condition)",
     "new": "    condition = conditions.Or(self._condition, self._condition)"},
    {"name": "twin-Variable.with_condition-comprehension", "rule": "R18.2", "file": VR, "expect": "silent",
     "old": _VAR_LOOP,
     "new": ("    return dataclasses.replace(self, bindings=tuple(\n"
             "        dataclasses.replace(b, condition=conditions.And(b.condition, condition))\n"
             "        for b in self.bindings))\n")},
    {"name": "twin-BlockState.with_condition-rename", "rule": "R18.2", "file": ST, "expect": "silent",
     "edits": [(ST, "    condition = conditions.And(self._condition, condition)\n    new_locals = {}\n",
                "    updated = {}\n    combined = conditions.And(condition, self._condition)\n"),
               (ST, "        new_locals[name] = var\n", "        updated[name] = var\n"),
               (ST, "        new_locals[name] = var.with_condition(condition)",
                "        updated[name] = var.with_condition(combined)"),
               (ST, "        locals_=new_locals,\n        condition=condition,\n",
                "        locals_=updated,\n        condition=combined,\n")]},
    {"name": "twin-benign-C18-r2-helper-and-comprehensions", "rule": "R18.2",
     "patch": "benign/C18-r2/patch.diff", "expect": "silent"},
    {"name": "twin-binding-step-in-a-helper", "rule": "R18.2", "expect": "silent",
     "edits": [
         (VR, _VAR_LOOP,
          "    new_bindings = tuple(_restrict(b, condition) for b in self.bindings)\n"
          "    return dataclasses.replace(self, bindings=new_bindings)\n"),
         (VR, "@_frozen_dataclass\nclass Variable(Generic[_T]):",
          "def _restrict(binding, condition):\n"
          "  return dataclasses.replace(\n"
          "      binding, condition=conditions.And(binding.condition, condition))\n\n\n"
          "@_frozen_dataclass\nclass Variable(Generic[_T]):")]},
    {"name": "binding-helper-uses-Or", "rule": "R18.2", "expect": "fire",
     "edits": [
         (VR, _VAR_LOOP,
          "    new_bindings = tuple(_restrict(b, condition) for b in self.bindings)\n"
          "    return dataclasses.replace(self, bindings=new_bindings)\n"),
         (VR, "@_frozen_dataclass\nclass Variable(Generic[_T]):",
          "def _restrict(binding, condition):\n"
          "  return dataclasses.replace(\n"
          "      binding, condition=conditions.Or(binding.condition, condition))\n\n\n"
          "@_frozen_dataclass\nclass Variable(Generic[_T]):")]},
    {"name": "binding-helper-drops-own-condition", "rule": "R18.2", "expect": "fire",
     "edits": [
         (VR, _VAR_LOOP,
          "    new_bindings = tuple(_restrict(b, condition) for b in self.bindings)\n"
          "    return dataclasses.replace(self, bindings=new_bindings)\n"),
         (VR, "@_frozen_dataclass\nclass Variable(Generic[_T]):",
          "def _restrict(binding, condition):\n"
          "  return dataclasses.replace(\n"
          "      binding, condition=conditions.And(condition, condition))\n\n\n"
          "@_frozen_dataclass\nclass Variable(Generic[_T]):")]},
    {"name": "binding-helper-applied-to-some-bindings", "rule": "R18.2", "expect": "fire",
     "edits": [
         (VR, _VAR_LOOP,
          "    new_bindings = tuple(_restrict(b, condition) for b in self.bindings[1:])\n"
          "    return dataclasses.replace(self, bindings=new_bindings)\n"),
         (VR, "@_frozen_dataclass\nclass Variable(Generic[_T]):",
          "def _restrict(binding, condition):\n"
          "  return dataclasses.replace(\n"
          "      binding, condition=conditions.And(binding.condition, condition))\n\n\n"
          "@_frozen_dataclass\nclass Variable(Generic[_T]):")]},
    {"name": "hoisted-comprehension-result-not-returned", "rule": "R18.2", "expect": "fire",
     "edits": [
         (VR, _VAR_LOOP,
          "    new_bindings = tuple(dataclasses.replace(\n"
          "        b, condition=conditions.And(b.condition, condition)) for b in self.bindings)\n"
          "    return dataclasses.replace(self, bindings=self.bindings)\n")]},
    {"name": "twin-BlockState.with_condition-dict-comprehension", "rule": "R18.2", "expect": "silent",
     "edits": [
         (ST, "    new_locals = {}\n    for name, var in self._locals.items():\n"
              "      if name in self._locals_with_block_condition:\n"
              "        new_locals[name] = var\n      else:\n"
              "        new_locals[name] = var.with_condition(condition)\n",
          "    implicit = self._locals_with_block_condition\n"
          "    new_locals = {\n"
          "        name: var if name in implicit else var.with_condition(condition)\n"
          "        for name, var in self._locals.items()\n    }\n")]},
    {"name": "dict-comprehension-arms-swapped", "rule": "R18.2", "expect": "fire",
     "edits": [
         (ST, "    new_locals = {}\n    for name, var in self._locals.items():\n"
              "      if name in self._locals_with_block_condition:\n"
              "        new_locals[name] = var\n      else:\n"
              "        new_locals[name] = var.with_condition(condition)\n",
          "    implicit = self._locals_with_block_condition\n"
          "    new_locals = {\n"
          "        name: var.with_condition(condition) if name in implicit else var\n"
          "        for name, var in self._locals.items()\n    }\n")]},
    {"name": "dict-comprehension-filters-locals", "rule": "R18.2", "expect": "error",
     "edits": [
         (ST, "    new_locals = {}\n    for name, var in self._locals.items():\n"
              "      if name in self._locals_with_block_condition:\n"
              "        new_locals[name] = var\n      else:\n"
              "        new_locals[name] = var.with_condition(condition)\n",
          "    new_locals = {\n"
          "        name: var.with_condition(condition)\n"
          "        for name, var in self._locals.items()\n"
          "        if name not in self._locals_with_block_condition\n    }\n")]},
    # R18.3 .. R18.6 on the split merge_into
    {"name": "twin-benign-C18-r3-merge-split-into-helpers", "rule": "R18.3",
     "patch": "benign/C18-r3/patch.diff", "expect": "silent"},
    {"name": "twin-explicit-step-in-a-method", "rule": "R18.3", "expect": "silent",
     "edits": _explicit_helper()},
    {"name": "explicit-helper-guard-inverted", "rule": "R18.3", "expect": "fire",
     "edits": _explicit_helper(test="name not in self._locals_with_block_condition")},
    {"name": "explicit-helper-never-conditions", "rule": "R18.3", "expect": "fire",
     "edits": _explicit_helper(other_side="other._locals[name]")},
    {"name": "explicit-helper-result-unused-on-other-side", "rule": "R18.3", "expect": "fire",
     "edits": [(f, o, n.replace("      var = other._explicit_local(name)\n",
                                "      other._explicit_local(name)\n"
                                "      var = other._locals[name]\n"))
               for f, o, n in _explicit_helper()]},
    {"name": "explicit-helper-outside-the-inliner", "rule": "R18.3", "expect": "error",
     "edits": [(f, o, n.replace(
         "    var = self._locals[name]\n",
         "    for var in (self._locals[name],):\n      if var is None:\n        return var\n"))
               for f, o, n in _explicit_helper()]},
    {"name": "twin-union-in-a-module-function", "rule": "R18.4", "expect": "silent",
     "edits": _union_helper()},
    {"name": "union-helper-folds-one-side", "rule": "R18.4", "expect": "fire",
     "edits": _union_helper(seq="var2.bindings")},
    {"name": "union-helper-duplicates-And", "rule": "R18.4", "expect": "fire",
     "edits": _union_helper(conn="And")},
    {"name": "union-helper-duplicates-overwrite", "rule": "R18.4", "expect": "fire",
     "edits": _union_helper(dup="b.condition")},
    {"name": "union-helper-given-the-same-side-twice", "rule": "R18.4", "expect": "fire",
     "edits": [(f, o, n.replace("_union_bindings(locals_[name], var)",
                                "_union_bindings(var, var)"))
               for f, o, n in _union_helper()]},
    {"name": "twin-none-copy-in-a-method", "rule": "R18.5", "expect": "silent",
     "edits": _copy_helper()},
    {"name": "copy-helper-shares-locals", "rule": "R18.5", "expect": "fire",
     "edits": _copy_helper(locals_arg="self._locals")},
    {"name": "copy-helper-changes-condition", "rule": "R18.2", "expect": "fire",
     "edits": [(f, o, n.replace("        condition=self._condition,\n",
                                "        condition=conditions.TRUE,\n"))
               for f, o, n in _copy_helper()]},
    {"name": "explicit-helper-shape-identical-not-marked", "rule": "R18.6", "expect": "fire",
     "edits": _explicit_helper() + [
         (ST, "        locals_[name] = var\n        locals_with_block_condition.add(name)\n",
          "        locals_[name] = var\n")]},
    {"name": "explicit-helper-shape-marks-every-name", "rule": "R18.6", "expect": "fire",
     "edits": [(f, o, n.replace(
         "      else:\n        locals_[name] = self._explicit_local(name)\n",
         "      else:\n        locals_[name] = self._explicit_local(name)\n"
         "        locals_with_block_condition.add(name)\n"))
               for f, o, n in _explicit_helper()]},
    # methods moved into a mixin of the file
    {"name": "twin-benign-C18-r4-locals-mixin", "rule": "R18.5",
     "patch": "benign/C18-r4/patch.diff", "expect": "silent"},
    {"name": "twin-accessors-in-a-mixin", "rule": "R18.5", "expect": "silent",
     "edits": _mixin(_ACCESSORS)},
    {"name": "mixin-get_locals-returns-own-dict", "rule": "R18.5", "expect": "fire",
     "edits": _mixin(_ACCESSORS.replace(
         "    return immutabledict.immutabledict(self._locals)\n", "    return self._locals\n"))},
    {"name": "mixin-store_local-does-not-mark", "rule": "R18.5", "expect": "fire",
     "edits": _mixin(_ACCESSORS.replace(
         "    self._locals_with_block_condition.add(name)\n", ""))},
    {"name": "mixin-overridden-by-sharing-accessor", "rule": "R18.5", "expect": "fire",
     "edits": _mixin(_ACCESSORS) + [
         (ST, "  def with_condition(self, condition: conditions.Condition) -> 'BlockState[_T]':",
          "  def get_locals(self):\n    return self._locals\n\n"
          "  def with_condition(self, condition: conditions.Condition) -> 'BlockState[_T]':")]},
    {"name": "seeded-C18-m2", "rule": "R18.3", "patch": "seeded/C18-m2/patch.diff",
     "expect": "fire"},
    {"name": "conditioning-skipped-under-a-test-on-the-states", "rule": "R18.3", "file": ST,
     "expect": "fire",
     "old": "      if name in other._locals_with_block_condition:\n",
     "new": "      if name in other._locals_with_block_condition and other._condition != self._condition:\n"},
    {"name": "twin-no-conditioning-with-TRUE", "rule": "R18.3", "file": ST, "expect": "silent",
     "old": "      elif name in self._locals_with_block_condition:\n",
     "new": "      elif (name in self._locals_with_block_condition and\n"
            "            self._condition is not conditions.TRUE):\n"},
    {"name": "twin-redundant-none-test", "rule": "R18.3", "file": ST, "expect": "silent",
     "old": "      if name in other._locals_with_block_condition:\n",
     "new": "      if other is not None and name in other._locals_with_block_condition:\n"},
    # R18.3
    {"name": "merge-self-side-gets-other-condition", "rule": "R18.3", "file": ST, "expect": "fire",
     "old": "        locals_[name] = var.with_condition(self._condition)",
     "new": "        locals_[name] = var.with_condition(other._condition)"},
    {"name": "merge-other-side-gets-self-condition", "rule": "R18.3", "file": ST, "expect": "fire",
     "old": "        var = var.with_condition(other._condition)",
     "new": "        var = var.with_condition(self._condition)"},
    {"name": "merge-other-side-tests-self-set", "rule": "R18.3", "file": ST, "expect": "fire",
     "old": "      if name in other._locals_with_block_condition:\n",
     "new": "      if name in self._locals_with_block_condition:\n"},
    {"name": "merge-other-side-result-dropped", "rule": "R18.3", "file": ST, "expect": "fire",
     "old": "        var = var.with_condition(other._condition)",
     "new": "        var.with_condition(other._condition)"},
    {"name": "merge-other-side-never-conditioned", "rule": "R18.3", "file": ST, "expect": "fire",
     "old": "        var = var.with_condition(other._condition)", "new": "        pass"},
    {"name": "twin-condition-through-a-local", "rule": "R18.3", "file": ST, "expect": "silent",
     "old": "        var = var.with_condition(other._condition)",
     "new": "        own = other._condition\n        var = var.with_condition(own)"},
    # R18.4
    {"name": "D5-restored", "rule": "R18.4", "file": ST, "expect": "fire",
     "old": _D5_NEW, "new": _D5_OLD},
    {"name": "duplicate-arm-And", "rule": "R18.4", "file": ST, "expect": "fire",
     "old": "          bindings[b.value] = conditions.Or(bindings[b.value], b.condition)",
     "new": "          bindings[b.value] = conditions.And(bindings[b.value], b.condition)"},
    {"name": "duplicate-overwrites", "rule": "R18.4", "file": ST, "expect": "fire",
     "old": "          bindings[b.value] = conditions.Or(bindings[b.value], b.condition)",
     "new": "          bindings[b.value] = b.condition"},
    {"name": "membership-test-inverted", "rule": "R18.4", "file": ST, "expect": "fire",
     "old": "        if b.value in bindings:\n", "new": "        if b.value not in bindings:\n"},
    {"name": "only-incoming-side-folded", "rule": "R18.4", "file": ST, "expect": "fire",
     "old": "      for b in locals_[name].bindings + var.bindings:\n",
     "new": "      for b in var.bindings:\n"},
    {"name": "rebuild-swaps-value-and-condition", "rule": "R18.4", "file": ST, "expect": "fire",
     "old": "tuple(variables.Binding(k, v) for k, v in bindings.items())",
     "new": "tuple(variables.Binding(v, k) for k, v in bindings.items())"},
    {"name": "twin-rename-map", "rule": "R18.4", "file": ST, "expect": "silent",
     "edits": [(ST, _D5_NEW + "        if b.value in bindings:\n"
                "          bindings[b.value] = conditions.Or(bindings[b.value], b.condition)\n"
                "        else:\n          bindings[b.value] = b.condition\n",
                "      merged = dict()\n"
                "      for bnd in locals_[name].bindings + var.bindings:\n"
                "        if bnd.value not in merged:\n"
                "          merged[bnd.value] = bnd.condition\n"
                "          continue\n"
                "        merged[bnd.value] = conditions.Or(bnd.condition, merged[bnd.value])\n"),
               (ST, "for k, v in bindings.items()", "for k, v in merged.items()")]},
    {"name": "unknown-idiom-defaultdict", "rule": "R18.4", "file": ST, "expect": "error",
     "old": _D5_NEW + "        if b.value in bindings:\n"
            "          bindings[b.value] = conditions.Or(bindings[b.value], b.condition)\n"
            "        else:\n          bindings[b.value] = b.condition\n",
     "new": "      bindings = {}\n"
            "      for b in locals_[name].bindings + var.bindings:\n"
            "        bindings[b.value] = conditions.Or(\n"
            "            bindings.get(b.value, conditions.FALSE), b.condition)\n"},
    # R18.5
    {"name": "with_condition-shares-locals", "rule": "R18.5", "file": ST, "expect": "fire",
     "old": "        locals_=new_locals,\n", "new": "        locals_=self._locals,\n"},
    {"name": "with_condition-shares-implicit-set", "rule": "R18.5", "file": ST, "expect": "fire",
     "old": "        locals_with_block_condition=set(self._locals_with_block_condition),\n    )\n\n  def merge_into",
     "new": "        locals_with_block_condition=self._locals_with_block_condition,\n    )\n\n  def merge_into"},
    {"name": "merge-none-shares-locals", "rule": "R18.5", "file": ST, "expect": "fire",
     "old": "          locals_=dict(self._locals),\n", "new": "          locals_=self._locals,\n"},
    {"name": "merge-aliases-other-locals", "rule": "R18.5", "file": ST, "expect": "fire",
     "old": "    locals_ = {}\n    locals_with_block_condition = set()\n",
     "new": "    locals_ = other._locals\n    locals_with_block_condition = set()\n"},
    {"name": "get_locals-returns-own-dict", "rule": "R18.5", "file": ST, "expect": "fire",
     "old": "    return immutabledict.immutabledict(self._locals)", "new": "    return self._locals"},
    {"name": "store_local-does-not-mark", "rule": "R18.5", "file": ST, "expect": "fire",
     "old": "    self._locals[name] = var\n    self._locals_with_block_condition.add(name)\n",
     "new": "    self._locals[name] = var\n"},
    {"name": "default-implicit-set-empty", "rule": "R18.5", "file": ST, "expect": "fire",
     "old": "      self._locals_with_block_condition = set(locals_)\n",
     "new": "      self._locals_with_block_condition = set()\n"},
    {"name": "twin-default-implicit-set-conditional-expression", "rule": "R18.5", "file": ST,
     "expect": "silent",
     "old": "    if locals_with_block_condition is None:\n"
            "      self._locals_with_block_condition = set(locals_)\n"
            "    else:\n"
            "      self._locals_with_block_condition = locals_with_block_condition\n",
     "new": "    self._locals_with_block_condition = (\n"
            "        locals_with_block_condition\n"
            "        if locals_with_block_condition is not None else set(locals_))\n"},
    {"name": "default-implicit-set-conditional-expression-empty", "rule": "R18.5", "file": ST,
     "expect": "fire",
     "old": "    if locals_with_block_condition is None:\n"
            "      self._locals_with_block_condition = set(locals_)\n"
            "    else:\n"
            "      self._locals_with_block_condition = locals_with_block_condition\n",
     "new": "    self._locals_with_block_condition = (\n"
            "        locals_with_block_condition\n"
            "        if locals_with_block_condition is not None else set())\n"},
    {"name": "twin-reorder-independent-inits", "rule": "R18.5", "file": ST, "expect": "silent",
     "old": "    locals_ = {}\n    locals_with_block_condition = set()\n",
     "new": "    locals_with_block_condition = set()\n    locals_ = dict()\n"},
    {"name": "twin-store_local-reordered", "rule": "R18.5", "file": ST, "expect": "silent",
     "old": "    self._locals[name] = var\n    self._locals_with_block_condition.add(name)\n",
     "new": "    self._locals_with_block_condition.add(name)\n    self._locals[name] = var\n"},
    # R18.6
    {"name": "identical-variable-not-marked", "rule": "R18.6", "file": ST, "expect": "fire",
     "old": "        locals_[name] = var\n        locals_with_block_condition.add(name)\n",
     "new": "        locals_[name] = var\n"},
    {"name": "same-name-suffices", "rule": "R18.6", "file": ST, "expect": "fire",
     "old": "      if name in other._locals and var == other._locals[name]:",
     "new": "      if name in other._locals:"},
    {"name": "differing-variable-marked", "rule": "R18.6", "file": ST, "expect": "fire",
     "old": "      else:\n        locals_[name] = var\n    for name, var in other._locals.items():",
     "new": "      else:\n        locals_[name] = var\n        locals_with_block_condition.add(name)\n    for name, var in other._locals.items():"},
    {"name": "twin-identical-test-commuted", "rule": "R18.6", "file": ST, "expect": "silent",
     "old": "      if name in other._locals and var == other._locals[name]:",
     "new": "      if name in other._locals and other._locals[name] == var:"},
    # R18.7
    {"name": "_Not-unfrozen", "rule": "R18.7", "file": CD, "expect": "fire",
     "old": "@_frozen_dataclass\nclass _Not(Condition):", "new": "@dataclasses.dataclass\nclass _Not(Condition):"},
    {"name": "_Or-identity-equality", "rule": "R18.7", "file": CD, "expect": "fire",
     "old": "@dataclasses.dataclass(frozen=True, repr=False)\nclass _Or(_Composite):",
     "new": "@dataclasses.dataclass(frozen=True, repr=False, eq=False)\nclass _Or(_Composite):"},
    {"name": "Variable-mutable", "rule": "R18.7", "file": VR, "expect": "fire",
     "old": "@_frozen_dataclass\nclass Variable(Generic[_T]):",
     "new": "@dataclasses.dataclass\nclass Variable(Generic[_T]):"},
    {"name": "twin-explicit-decorator", "rule": "R18.7", "file": VR, "expect": "silent",
     "old": "@_frozen_dataclass\nclass Variable(Generic[_T]):",
     "new": "@dataclasses.dataclass(frozen=True)\nclass Variable(Generic[_T]):"},
]
