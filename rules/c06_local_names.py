"""C06 extension: the name qualifier of the stub reader inverts the printer's
naming convention in every class context.

R6.24  pytype emits a stub with module-relative class paths: a top-level class
       is written with its bare name (`Node`), a nested one with its full path
       from the module root (`Tree.Node`) - wherever the reference occurs,
       also inside the body of another (nested) class.  The stub reader
       (`visitors.ResolveLocalNames`, run by the pyi parser on every stub that
       is read: text, imports-map entry, or Print -> parse -> pickle) must
       therefore qualify a name whose FIRST component is a class of the module
       from the module root, `<module>.<name>`, no matter which class body the
       reference sits in; the class-scope readings ("the class I am in",
       `ImmediateOuter.Nested`) are fallbacks for names that no module-level
       class claims.

Decided exhaustively on a small scope: the visitor's methods are evaluated
from their AST (rules/_minieval.py; nothing is imported or run from /repo).
The visitor is driven the way the traversal drives it - `__init__`,
`EnterTypeDeclUnit(unit)`, `EnterClass(c)` for each enclosing class, then
`VisitNamedType(node)` / `VisitClassType(node)` - for every module whose class
tree is a prefix-closed set of paths of length <= 2 over two simple names (plus
two trees of depth 3), every class context of that module (none, or any class
of the tree) and every reference the printer can emit (the path of any class of
the tree, optionally continued by a member name).  Facets:

  module-root     head of the name is a top-level class -> `<module>.<name>`
  class-scope     otherwise: the simple name of the innermost enclosing class
                  -> that class; `<innermost simple name>.<X>` -> its member X
  untouched       a head that is an Any-typed constant -> Any; an unknown head,
                  an external-prefixed name -> the node unchanged
"""
import ast
import copy
import itertools

from sa.core import rule, AnalysisError
from sa.pyindex import get_module, fold, Unfoldable
from rules import _minieval as me

VISITORS = "pytype/pytd/visitors.py"
CONSTS = "pytype/pytd/parse/parser_constants.py"
CLS = "ResolveLocalNames"
MODNAME = "m"

_ANY = lambda: me.Obj(("pytd.AnythingType",), {"args": ()}, structural=True)  # pylint: disable=unnecessary-lambda-assignment


def _init_without_super(fn):
  """__init__ minus the `super().__init__(..)` statement (the base Visitor's
  bookkeeping is not part of the name qualification)."""
  fn2 = copy.deepcopy(fn)
  body = []
  for s in fn2.body:
    if isinstance(s, ast.Expr) and isinstance(s.value, ast.Call) and \
        isinstance(s.value.func, ast.Attribute) and \
        isinstance(s.value.func.value, ast.Call) and \
        isinstance(s.value.func.value.func, ast.Name) and \
        s.value.func.value.func.id == "super":
      continue
    body.append(s)
  fn2.body = body or [ast.Pass()]
  return fn2


def _resolver(mod, world):
  def resolver(name, args, kw):
    if "." not in name and name in mod.functions:
      fn = mod.functions[name]
      params = [p.arg for p in fn.args.posonlyargs + fn.args.args]
      if len(args) > len(params):
        raise me.Outside(f"call of {name}")
      return me.Interp(fn, world, 4000, resolver).call(
          {**dict(zip(params, args)), **kw})
    if name == "pytd.AnythingType" and not args and not kw:
      return _ANY()
    if name.startswith("pytd."):
      return NotImplemented            # an opaque structural pytd record
    raise me.Outside(f"call of {name}, which the world model does not define")
  return resolver


class _Driver:
  def __init__(self, ctx, mod):
    self.mod = mod
    self.methods = _methods_local_mro(mod, CLS)
    for need in ("EnterTypeDeclUnit", "EnterClass", "VisitNamedType"):
      if need not in self.methods:
        raise AnalysisError(f"{VISITORS}: {CLS}.{need} not found")
    cm = get_module(ctx, CONSTS)
    try:
      ext = fold(cm.assigns["EXTERNAL_NAME_PREFIX"], mod=cm)
    except (KeyError, Unfoldable) as e:
      raise AnalysisError(f"{CONSTS}: EXTERNAL_NAME_PREFIX not a constant") from e
    self.external = ext
    self.world = {}
    for alias, target in mod.imports.items():
      if target.endswith("parser_constants"):
        self.world[alias] = me.Obj(("module parser_constants",),
                                   {"EXTERNAL_NAME_PREFIX": ext})
    self.resolver = _resolver(mod, self.world)

  def _call(self, fn, args):
    return me.Interp(fn, self.world, 4000, self.resolver).call(args)

  def _method(self, obj, name, *args):
    fn = self.methods[name]
    params = [p.arg for p in fn.args.posonlyargs + fn.args.args]
    if len(params) != len(args) + 1:
      raise AnalysisError(f"{CLS}.{name}: unexpected signature")
    return self._call(fn, dict(zip(params, (obj,) + args)))

  def visit(self, tops, any_consts, stack, name, method="VisitNamedType"):
    """-> the visitor's result for a reference `name` inside the classes
    `stack` (simple names, outermost first) of a module with the top-level
    classes `tops` and the Any-typed constants `any_consts`."""
    obj = me.Obj((CLS,), {}, cls_methods=self.methods)
    if "__init__" in self.methods:
      init = _init_without_super(self.methods["__init__"])
      self._call(init, {(init.args.posonlyargs + init.args.args)[0].arg: obj})
    unit = me.Obj(("pytd.TypeDeclUnit",), {
        "name": MODNAME,
        "classes": tuple(me.Obj(("pytd.Class",), {"name": c}) for c in tops),
        "constants": tuple(me.Obj(("pytd.Constant",), {"name": c, "type": _ANY()})
                           for c in any_consts) + (
                               me.Obj(("pytd.Constant",), {
                                   "name": "k", "type": me.Obj(
                                       ("pytd.NamedType",), {"name": "int"},
                                       structural=True)}),),
        "functions": (), "aliases": (), "type_params": ()})
    self._method(obj, "EnterTypeDeclUnit", unit)
    for simple in stack:
      self._method(obj, "EnterClass", me.Obj(("pytd.Class",), {"name": simple}))
    kind = "pytd.NamedType" if method == "VisitNamedType" else "pytd.ClassType"
    attrs = {"name": name}
    if method != "VisitNamedType":
      attrs["cls"] = None
    node = me.replaceable((kind,), **attrs)
    return node, self._method(obj, method, node)


def _methods_local_mro(mod, cls):
  """name -> def over the module-local linearisation of `cls` (single
  inheritance chains only; first definition wins)."""
  out, seen = {}, set()
  todo = [cls]
  while todo:
    c = todo.pop(0)
    if c in seen or c not in mod.classes:
      continue
    seen.add(c)
    for n, fn in mod.methods(c).items():
      out.setdefault(n, fn)
    for b in mod.classes[c].bases:
      if isinstance(b, ast.Name) and b.id != "Visitor":
        todo.append(b.id)
  return out


# -- the scope ------------------------------------------------------------------

_NAMES = ("A", "B")


def _trees():
  """Prefix-closed sets of class paths (tuples of simple names)."""
  out = []
  for r in (1, 2):
    for tops in itertools.combinations(_NAMES, r):
      kids = [(t, k) for t in tops for k in _NAMES]
      for n in range(len(kids) + 1):
        for sub in itertools.combinations(kids, n):
          out.append(tuple((t,) for t in tops) + sub)
  out.append((("A",), ("A", "B"), ("A", "B", "A")))
  out.append((("A",), ("B",), ("A", "B"), ("A", "B", "B")))
  return out


def _name_of(res):
  if isinstance(res, me.Obj):
    if res.kinds and res.kinds[0] == "pytd.AnythingType":
      return "<Any>"
    if "name" in res.attrs:
      return res.attrs["name"]
  return f"<{res!r:.40}>"


def decide(ctx, mod):
  def run():
    drv = _Driver(ctx, mod)
    out = {"module-root": [], "class-scope": [], "untouched": [],
           "VisitClassType": [], "n": collections_counter()}

    def evaluate(tops, anyc, stack, name, method="VisitNamedType"):
      try:
        return drv.visit(tops, anyc, stack, name, method)
      except me.Outside as e:
        raise AnalysisError(
            f"{CLS}: small-scope evaluation left the modelled fragment: {e}") from e
      except me.Raised as e:
        return None, me.Obj(("raised",), {"name": f"raises {e.name}"})
      except me.Diverged as e:
        raise AnalysisError(f"{CLS}: no termination within the step budget") from e

    def record(facet, tops, stack, name, want, got):
      out["n"][facet] += 1
      if got != want:
        out[facet].append({
            "top_level_classes": list(tops), "inside_class": ".".join(stack) or None,
            "reference": name, "want": want, "got": got})

    for tree in _trees():
      tops = tuple(p[0] for p in tree if len(p) == 1)
      for stack in ((),) + tree:
        # (1) every reference the printer can emit: the path of a class of the
        # module, optionally continued by a member name
        for path in tree:
          for tail in ((), ("X",)):
            if tail and stack not in ((), tree[-1]):
              continue
            name = ".".join(path + tail)
            _, res = evaluate(tops, (), stack, name)
            record("module-root", tops, stack, name, f"{MODNAME}.{name}", _name_of(res))
        if stack:
          inner = stack[-1]
          if inner not in tops:
            # (2) class-scope readings, only when no module-level class claims the head
            _, res = evaluate(tops, (), stack, inner)
            record("class-scope", tops, stack, inner,
                   f"{MODNAME}.{'.'.join(stack)}", _name_of(res))
            _, res = evaluate(tops, (), stack, inner + ".X")
            record("class-scope", tops, stack, inner + ".X",
                   f"{MODNAME}.{'.'.join(stack)}.X", _name_of(res))
        # (3) heads nobody claims (outside classes and in the innermost class)
        if stack not in ((), tree[-1]):
          continue
        for name, anyc, want in (
            ("q", (), "q"), ("q.r", (), "q.r"), ("q.X", ("q",), "<Any>"),
            ("k.X", (), "k.X"),
            (drv.external + "ext.T", (), drv.external + "ext.T"),
            (drv.external + tops[0], (), drv.external + tops[0])):
          node, res = evaluate(tops, anyc, stack, name)
          record("untouched", tops, stack, name, want, _name_of(res))
    # (4) ClassType references are qualified the same way
    if "VisitClassType" in drv.methods:
      for tree in _trees()[:12]:
        tops = tuple(p[0] for p in tree if len(p) == 1)
        for stack in ((),) + tree:
          for path in tree:
            name = ".".join(path)
            _, a = evaluate(tops, (), stack, name)
            _, b = evaluate(tops, (), stack, name, "VisitClassType")
            record("VisitClassType", tops, stack, name, _name_of(a), _name_of(b))
    return out
  return ctx.memo(("c06-local-names-scope", mod.rel), run)


def collections_counter():
  import collections
  return collections.Counter()


_REASONS = {
    "module-root":
        "inside class {inside_class} of a module with the top-level classes "
        "{top_level_classes} the reference `{reference}` is qualified as `{got}`, "
        "wanted `{want}`: the printer writes a bare/module-relative path exactly "
        "for the class reached from the module root, so after the hand-off the "
        "name denotes a different class than the one that was inferred",
    "class-scope":
        "inside class {inside_class} (top-level classes {top_level_classes}) the "
        "reference `{reference}` is qualified as `{got}`, wanted `{want}`",
    "untouched":
        "the reference `{reference}` (top-level classes {top_level_classes}, "
        "inside class {inside_class}) becomes `{got}`, wanted `{want}`",
    "VisitClassType":
        "VisitClassType qualifies `{reference}` as `{got}` but VisitNamedType as "
        "`{want}` (inside class {inside_class})",
}


@rule("R6.24", "C06", floor=4)
def r6_24(ctx):
  """ResolveLocalNames qualifies module-relative class paths from the module
  root in every class context (small-scope evaluation)."""
  mod = get_module(ctx, VISITORS)
  res = decide(ctx, mod)
  line = mod.cls(CLS).lineno
  for facet, reason in _REASONS.items():
    bad = res[facet]
    n = res["n"][facet]
    if n == 0:
      if facet == "VisitClassType":
        continue
      raise AnalysisError(f"{CLS}: empty scope for facet {facet}")
    facts = {"cases_evaluated": n, "counterexamples": len(bad), "first": bad[:3]}
    construct = f"{CLS}:{facet}"
    if bad:
      ctx.bad(construct, VISITORS, line,
              reason.format(**bad[0]) + f" ({len(bad)} of {n} cases of the scope)", facts)
    else:
      ctx.ok(construct, VISITORS, line, facts)


_TOP = ("    target = node.name.split(\".\")[0]\n"
        "    if target in self.classes:\n"
        "      # We need to check just the first part, in case we have a class constant\n"
        "      # like Foo.BAR, or some similarly nested name.\n"
        "      return node.Replace(name=self.prefix + node.name)\n")

VARIANTS = [
    {"name": "seeded-C06-r3m2", "rule": "R6.24", "patch": "seeded/C06-r3m2/patch.diff",
     "expect": "fire"},
    {"name": "module-level-claim-only-outside-classes", "rule": "R6.24", "file": VISITORS,
     "expect": "fire", "old": "    if target in self.classes:\n      # We need to check just",
     "new": "    if target in self.classes and not self.cls_stack:\n      # We need to check just"},
    {"name": "module-level-claim-tests-the-whole-name", "rule": "R6.24", "file": VISITORS,
     "expect": "fire", "old": "    target = node.name.split(\".\")[0]\n    if target in self.classes:",
     "new": "    target = node.name\n    if target in self.classes:"},
    {"name": "module-level-claim-inserts-the-class-stack", "rule": "R6.24", "file": VISITORS,
     "expect": "fire", "old": _TOP,
     "new": "    target = node.name.split(\".\")[0]\n"
            "    if target in self.classes:\n"
            "      scope = self._ClassStackString()\n"
            "      return node.Replace(name=self.prefix + (scope + \".\" if scope else \"\") + node.name)\n"},
    {"name": "self-reference-drops-the-outer-classes", "rule": "R6.24", "file": VISITORS,
     "expect": "fire",
     "old": "        return node.Replace(name=self.prefix + self._ClassStackString())",
     "new": "        return node.Replace(name=self.prefix + node.name)"},
    {"name": "twin-module-level-claim-via-partition", "rule": "R6.24", "file": VISITORS,
     "expect": "silent", "old": "    target = node.name.split(\".\")[0]\n    if target in self.classes:",
     "new": "    target, _, _ = node.name.partition(\".\")\n    if target in self.classes:"},
    {"name": "twin-qualification-in-helper-with-guard-clauses", "rule": "R6.24",
     "expect": "silent",
     "edits": [(VISITORS,
                "    if self.cls_stack:\n"
                "      if node.name == self.cls_stack[-1].name:\n"
                "        # We're referencing a class from within itself.\n"
                "        return node.Replace(name=self.prefix + self._ClassStackString())\n"
                "      elif \".\" in node.name:\n"
                "        prefix, base = node.name.rsplit(\".\", 1)\n"
                "        if prefix == self.cls_stack[-1].name:\n"
                "          # The parser leaves aliases to nested classes as\n"
                "          # ImmediateOuter.Nested, so we need to insert the full class stack.\n"
                "          name = self.prefix + self._ClassStackString() + \".\" + base\n"
                "          return node.Replace(name=name)\n"
                "    return node\n",
                "    scoped = self._InClassScope(node.name)\n"
                "    return node if scoped is None else node.Replace(name=scoped)\n\n"
                "  def _InClassScope(self, name):\n"
                "    if not self.cls_stack:\n"
                "      return None\n"
                "    innermost = self.cls_stack[-1].name\n"
                "    here = self.prefix + self._ClassStackString()\n"
                "    if name == innermost:\n"
                "      return here\n"
                "    outer, _, base = name.rpartition(\".\")\n"
                "    if outer and outer == innermost:\n"
                "      return here + \".\" + base\n"
                "    return None\n")]},
    {"name": "twin-any-constant-test-before-class-test", "rule": "R6.24", "expect": "silent",
     "edits": [(VISITORS, _TOP, ""),
               (VISITORS,
                "      # We resolve `mod.Thing` to Any.\n      return pytd.AnythingType()\n",
                "      # We resolve `mod.Thing` to Any.\n      return pytd.AnythingType()\n"
                "    if target in self.classes:\n"
                "      return node.Replace(name=self.prefix + node.name)\n"),
               (VISITORS, "    if target in self.any_constants:\n",
                "    target = node.name.split(\".\")[0]\n"
                "    if target in self.any_constants and target not in self.classes:\n")]},
    {"name": "twin-class-names-kept-as-frozenset-under-another-name", "rule": "R6.24",
     "expect": "silent",
     "edits": [(VISITORS, "    self.classes = {cls.name for cls in node.classes}\n",
                "    self.classes = self._toplevel = frozenset(c.name for c in node.classes)\n"),
               (VISITORS, "    if target in self.classes:\n      # We need to check just",
                "    if target in self._toplevel:\n      # We need to check just")]},
]
