"""C03 extension: the two directive kinds register the same lines for a trailing comment.

`Director.__init__` moves the end of a function to the *start* line of a last statement that
carries a directive (`_function_ranges.adjust_end(line_range.end_line, line_range.start_line)`),
and `filter_error` re-reports the implicit `return None` error there; errors of a multi-line call
are reported where the call starts.  So a trailing `# type: ignore` / `# pytype: disable=E` on the
last line of a statement only silences "that error" if the directive is registered on the
comment's own line AND on the start line of the enclosing range - in both sibling
implementations (`_process_type`, `_process_disable`), whatever the kind of the range.

R3.23 executes the trailing (not open-ended) arm of both processors symbolically, path by path
(helpers of the module inlined, loops over literal tuples unrolled, locals substituted, `a != b`
tests turned into equalities) and compares the sets of lines written to the kind's line set.
"""
import ast
import copy
import re

from sa.core import rule, AnalysisError
from sa.pyindex import get_module, dotted, src, calls_in, walk_no_nested
from sa import flow
from rules.c03 import DIR, _PROCS, _arms, _params, _is_reg, _reg_args, _stored, _inline_self_calls

_MAX_PATHS = 400
_NEG = {ast.NotEq: ast.Eq, ast.NotIn: ast.In, ast.IsNot: ast.Is}


def _norm(test, pol=True):
  """(test, polarity) with `not` stripped and `!=`/`not in`/`is not` turned into their positive form."""
  while isinstance(test, ast.UnaryOp) and isinstance(test.op, ast.Not):
    test, pol = test.operand, not pol
  if isinstance(test, ast.Compare) and len(test.ops) == 1 and type(test.ops[0]) in _NEG:
    test = ast.Compare(left=test.left, ops=[_NEG[type(test.ops[0])]()], comparators=test.comparators)
    pol = not pol
  return test, pol


class _St:
  """One path: local name -> expression over the processor's parameters, path condition, writes."""
  __slots__ = ("env", "conds", "writes")

  def __init__(self, env, conds=(), writes=()):
    self.env, self.conds, self.writes = env, conds, writes

  def bind(self, name, value):
    return _St({**self.env, name: value}, self.conds, self.writes)

  def with_env(self, env):
    return _St(env, self.conds, self.writes)

  def wrote(self, w):
    return _St(self.env, self.conds, self.writes + (w,))

  def assume(self, test, pol):
    """The path extended by `test` having truth value `pol`; None when that is infeasible."""
    test, pol = _norm(test, pol)
    if isinstance(test, ast.Constant):
      return self if bool(test.value) == pol else None
    if isinstance(test, ast.Compare) and len(test.ops) == 1 and isinstance(test.ops[0], ast.Eq) \
        and src(test.left) == src(test.comparators[0]):
      return self if pol else None
    txt = src(test)
    for t, p in self.conds:
      if src(t) == txt:
        return self if p == pol else None
    return _St(self.env, self.conds + ((test, pol),), self.writes)

  def classes(self):
    """Equivalence classes of expressions the path condition has established to be equal."""
    groups = []
    for t, p in self.conds:
      if p and isinstance(t, ast.Compare) and len(t.ops) == 1 and isinstance(t.ops[0], ast.Eq):
        a, b = src(t.left), src(t.comparators[0])
        hit = [g for g in groups if a in g or b in g]
        for g in hit:
          groups.remove(g)
        groups.append(set().union({a, b}, *hit))
    return groups

  def same(self, a, b):
    return a == b or any(a in g and b in g for g in self.classes())


class _Exec:
  """Symbolic execution of statements of one function of directors.py (callees inlined)."""

  def __init__(self, ctx, mod, top, recv=None):
    self.ctx, self.mod, self.top, self.recv = ctx, mod, top, recv
    self.top_params = set(_params(top))
    self.top_stored = {n.id for n in walk_no_nested(top) if isinstance(n, ast.Name)
                       and not isinstance(n.ctx, ast.Load)}
    self.loop_vars = {n.target.id for n in walk_no_nested(top) if isinstance(n, ast.For)
                      and isinstance(n.target, ast.Name)}
    self.count = 0
    self._regs = {}

  # -- which callees matter ------------------------------------------------------------------
  def callee(self, call):
    """The function of this module `call` invokes (self.<method> of the class, or a module-level def)."""
    f = call.func
    if isinstance(f, ast.Attribute) and dotted(f.value) == "self":
      cls = self.mod.parent.get(self.top)
      ms = self.mod.methods(cls.name) if isinstance(cls, ast.ClassDef) else {}
      return ms.get(f.attr), True
    if isinstance(f, ast.Name) and f.id in self.mod.functions:
      return self.mod.functions[f.id], False
    return None, False

  def registers(self, fn, depth=0):
    """Does fn (or a callee in this module) call set_line/start_range?"""
    if fn not in self._regs:
      self._regs[fn] = False
      hit = any(_is_reg(c) for c in calls_in(fn))
      if not hit and depth < 3:
        hit = any(g is not None and g is not fn and self.registers(g, depth + 1)
                  for g in (self.callee(c)[0] for c in calls_in(fn)))
      self._regs[fn] = hit
    return self._regs[fn]

  def bind(self, call, fn, is_method, st, frame):
    a = fn.args
    if a.vararg or a.kwarg or fn.decorator_list or any(isinstance(x, ast.Starred) for x in call.args) \
        or any(k.arg is None for k in call.keywords):
      raise AnalysisError(f"cannot bind arguments of {src(call)}")
    pos = [x.arg for x in a.posonlyargs + a.args][1 if is_method else 0:]
    if len(call.args) > len(pos):
      raise AnalysisError(f"cannot bind arguments of {src(call)}")
    env = {n: self.subst(v, st, frame) for n, v in zip(pos, call.args)}
    env.update({k.arg: self.subst(k.value, st, frame) for k in call.keywords})
    defaults = dict(zip(reversed(pos), reversed(a.defaults)))
    defaults.update({p.arg: d for p, d in zip(a.kwonlyargs, a.kw_defaults) if d is not None})
    for p in pos + [x.arg for x in a.kwonlyargs]:
      if p not in env:
        if p not in defaults:
          raise AnalysisError(f"{src(call)}: parameter {p} of {fn.name} is not bound")
        env[p] = defaults[p]
    if is_method:
      env["self"] = ast.Name(id="self", ctx=ast.Load())
    return env

  # -- expressions ---------------------------------------------------------------------------
  def lookup(self, name, st, frame):
    """Expression a loaded local denotes (None: not a local - parameter of the processor, global)."""
    if name in st.env:
      return st.env[name]
    if frame is not self.top:
      if name in _params(frame) or name in _stored(frame):
        raise AnalysisError(f"{frame.name}: {name} is read before it is bound on some path")
      return None
    if name in self.top_params or name not in self.top_stored or name in self.loop_vars:
      return None
    vals = [n for n in walk_no_nested(self.top) if isinstance(n, ast.Assign) and len(n.targets) == 1
            and dotted(n.targets[0]) == name]
    stores = sum(1 for n in walk_no_nested(self.top) if isinstance(n, ast.Name) and n.id == name
                 and not isinstance(n.ctx, ast.Load))
    if stores != 1 or len(vals) != 1:
      raise AnalysisError(f"{self.top.name}: local {name} is not bound by one plain assignment before its use")
    forks = list(self.values(vals[0].value, _St({}), self.top))
    if len(forks) != 1 or forks[0][1].conds:
      raise AnalysisError(f"{self.top.name}: local {name} (bound outside the trailing arm) has a conditional value")
    return forks[0][0]

  def subst(self, node, st, frame):
    """Copy of `node` with locals replaced by what they denote on this path."""
    ex = self

    class T(ast.NodeTransformer):
      def visit_Name(self, n):
        if not isinstance(n.ctx, ast.Load):
          return n
        v = ex.lookup(n.id, st, frame)
        return n if v is None else copy.deepcopy(v)

      def visit_Lambda(self, n):
        return n
    return T().visit(copy.deepcopy(node))

  def test(self, node, st, frame):
    """A branch condition over the processor's parameters (single-expression methods inlined)."""
    cls = self.mod.parent.get(self.top)
    if isinstance(cls, ast.ClassDef):
      node = _inline_self_calls(self.mod, cls.name, node)
    return self.subst(node, st, frame)

  def opaque(self, test_src):
    """Does the condition delegate to a function of this module that was not inlined?"""
    return any(self.callee(c)[0] is not None for c in calls_in(ast.parse(test_src, mode="eval")))

  def values(self, node, st, frame, depth=0):
    """(value, path) for every way `node` can be evaluated on the path `st`."""
    if depth > 6:
      raise AnalysisError(f"value of {src(node)} is defined recursively")
    if isinstance(node, ast.IfExp):
      test = self.test(node.test, st, frame)
      for pol, sub in ((True, node.body), (False, node.orelse)):
        s2 = st.assume(test, pol)
        if s2 is not None:
          yield from self.values(sub, s2, frame, depth + 1)
      return
    if isinstance(node, ast.Call):
      fn, is_m = self.callee(node)
      if fn is not None and not any(isinstance(n, (ast.Yield, ast.YieldFrom)) for n in walk_no_nested(fn)):
        env = self.bind(node, fn, is_m, st, frame)
        for s2, how, val in self.block(fn.body, st.with_env(env), fn, depth + 1):
          if how == "raise":
            continue
          if how not in ("fall", "return"):
            raise AnalysisError(f"{fn.name}: leaves by {how}")
          yield (val if val is not None else ast.Constant(None)), s2.with_env(st.env)
        return
    yield self.subst(node, st, frame), st

  # -- statements ----------------------------------------------------------------------------
  def block(self, stmts, st, frame, depth=0):
    """(path, how, return value) for every path through `stmts`; how in fall/return/continue/break/raise."""
    if not stmts:
      yield st, "fall", None
      return
    for s2, how, val in self.stmt(stmts[0], st, frame, depth):
      if how == "fall":
        yield from self.block(stmts[1:], s2, frame, depth)
      else:
        yield s2, how, val

  def stmt(self, s, st, frame, depth):
    self.count += 1
    if self.count > 20000 or depth > 6:
      raise AnalysisError(f"{self.top.name}: too many paths through the trailing arm")
    if isinstance(s, ast.If):
      test = self.test(s.test, st, frame)
      for pol, sub in ((True, s.body), (False, s.orelse)):
        s2 = st.assume(test, pol)
        if s2 is not None:
          yield from self.block(sub, s2, frame, depth)
    elif isinstance(s, ast.Return):
      if s.value is None:
        yield st, "return", None
      else:
        for v, s2 in self.values(s.value, st, frame, depth):
          yield s2, "return", v
    elif isinstance(s, ast.Raise):
      yield st, "raise", None
    elif isinstance(s, (ast.Continue, ast.Break)):
      yield st, type(s).__name__.lower(), None
    elif isinstance(s, (ast.Pass, ast.Assert, ast.Delete, ast.FunctionDef)):
      yield st, "fall", None
    elif isinstance(s, (ast.Assign, ast.AnnAssign)):
      targets = s.targets if isinstance(s, ast.Assign) else [s.target]
      if s.value is None:
        yield st, "fall", None
      elif len(targets) == 1 and isinstance(targets[0], ast.Name):
        for v, s2 in self.values(s.value, st, frame, depth):
          yield s2.bind(targets[0].id, v), "fall", None
      elif any(isinstance(n, ast.Name) for t in targets for n in ast.walk(t) if not isinstance(n.ctx, ast.Load)):
        raise AnalysisError(f"{frame.name}: unsupported assignment `{src(s)[:60]}`")
      else:
        yield st, "fall", None    # store to an attribute / subscript: not a local
    elif isinstance(s, ast.Expr):
      yield from self.expr_stmt(s.value, st, frame, depth)
    elif isinstance(s, ast.For):
      if not (isinstance(s.iter, (ast.Tuple, ast.List)) and isinstance(s.target, ast.Name)
              and not s.orelse and not any(isinstance(e, ast.Starred) for e in s.iter.elts)):
        raise AnalysisError(f"{frame.name}: loop `for {src(s.target)} in {src(s.iter)[:40]}` is not over a "
                            "literal tuple")
      elts = [self.subst(e, st, frame) for e in s.iter.elts]
      yield from self.unroll(s, elts, st, frame, depth)
    else:
      raise AnalysisError(f"{frame.name}: unsupported {type(s).__name__} on the way of a trailing directive")

  def unroll(self, loop, elts, st, frame, depth):
    if not elts:
      yield st, "fall", None
      return
    for s2, how, val in self.block(loop.body, st.bind(loop.target.id, elts[0]), frame, depth):
      if how in ("fall", "continue"):
        yield from self.unroll(loop, elts[1:], s2, frame, depth)
      elif how == "break":
        yield s2, "fall", None
      else:
        yield s2, how, val

  def expr_stmt(self, e, st, frame, depth):
    if not isinstance(e, ast.Call):
      yield st, "fall", None
      return
    if _is_reg(e):
      a, m = _reg_args(self.ctx, e)
      recv = src(self.subst(e.func.value, st, frame))
      memb = src(self.subst(ast.parse(m, mode="eval").body, st, frame))
      for v, s2 in self.values(ast.parse(a, mode="eval").body, st, frame, depth):
        yield s2.wrote((recv, e.func.attr, src(v), memb, e.lineno)), "fall", None
      return
    fn, is_m = self.callee(e)
    if fn is not None and self.registers(fn):
      env = self.bind(e, fn, is_m, st, frame)
      for s2, how, _ in self.block(fn.body, st.with_env(env), fn, depth + 1):
        if how in ("fall", "return"):
          yield s2.with_env(st.env), "fall", None
        elif how == "raise":
          yield s2.with_env(st.env), "raise", None
        else:
          raise AnalysisError(f"{fn.name}: leaves by {how}")
      return
    # any other call: must not be handed the line set (it could register lines out of sight)
    if self.recv is not None:
      for a in list(e.args) + [k.value for k in e.keywords]:
        if self.recv in src(self.subst(a, st, frame)):
          raise AnalysisError(f"{frame.name}: the line set {self.recv} is handed to `{src(e.func)}`")
    yield st, "fall", None


def _continuation(mod, fn, st, arm):
  """Statements executed after the arm falls through, up to the end of the loop body / function."""
  node = st if (arm is st.body or arm is st.orelse) else mod.parent[st]
  out = []
  while node is not fn:
    par = mod.parent[node]
    blocks = [b for b in (getattr(par, f, None) for f in ("body", "orelse", "finalbody")) if isinstance(b, list)]
    blk = next((b for b in blocks if any(x is node for x in b)), None)
    if blk is None:
      raise AnalysisError(f"{fn.name}: cannot place the open_ended split in its block")
    out += blk[[x is node for x in blk].index(True) + 1:]
    if isinstance(par, (ast.For, ast.While)) or par is fn:
      break
    if not isinstance(par, ast.If):
      raise AnalysisError(f"{fn.name}: the open_ended split is nested in a {type(par).__name__}")
    node = par
  return out


def _start_exprs(fn):
  return {f"{p}.start_line" for p in _params(fn)}


def _trailing_paths(ctx, mod, qual):
  """Per non-raising path of the trailing arm: (error-class atoms, other conditions, own?, start?, lines)."""
  fn, st, _, trail, recv, memb, lv = _arms(mod, qual)
  ex = _Exec(ctx, mod, fn, recv)
  todo = list(trail) + _continuation(mod, fn, st, trail)
  starts = _start_exprs(fn)
  out = []
  for s, how, _ in ex.block(todo, _St({}), fn):
    if how == "raise":
      continue
    lines = [w[2] for w in s.writes if w[0] == recv and w[1] == "set_line" and w[3] == memb]
    own = any(s.same(x, "line") for x in lines)
    start = any(s.same(x, y) for x in lines for y in starts)
    cls_atoms, other = {}, []
    for t, p in s.conds:
      names = flow.names_in(t)
      local = (names & (ex.top_params | ex.top_stored)) - {"self"}
      if lv is not None and local == {lv}:
        cls_atoms[src(t)] = p
      elif isinstance(t, ast.Compare) and len(t.ops) == 1 and isinstance(t.ops[0], ast.Eq) and (
          {src(t.left), src(t.comparators[0])} & ({"line"} | starts)):
        continue    # comparison of two line numbers: consumed as an (in)equality of the written lines
      else:
        other.append((src(t), p))
    out.append({"cls": cls_atoms, "other": other, "own": own, "start": start, "lines": sorted(set(lines))})
    if len(out) > _MAX_PATHS:
      raise AnalysisError(f"{qual}: more than {_MAX_PATHS} paths through the trailing arm")
  if not out:
    raise AnalysisError(f"{qual}: no path through the trailing arm")
  return fn, st, out, ex


def _compatible(p, q):
  return all(q["cls"].get(k, v) == v for k, v in p["cls"].items())


def _moves_to_start(mod):
  """Sites of the Director that move a function's end to the start line of a directive's range."""
  out = []
  for c in calls_in(mod.cls("Director"), suffix="adjust_end"):
    if len(c.args) + len(c.keywords) != 2:
      raise AnalysisError(f"{src(c)}: expected adjust_end(<old end>, <new end>)")
    new = c.args[1] if len(c.args) == 2 else c.keywords[-1].value
    fn = mod.enclosing_function(c)
    if isinstance(new, ast.Name):
      vals = [n.value for n in walk_no_nested(fn) if isinstance(n, ast.Assign)
              and any(dotted(t) == new.id for t in n.targets)]
      if len(vals) != 1:
        raise AnalysisError(f"{fn.name}: new end `{new.id}` of adjust_end is not bound exactly once")
      new = vals[0]
    if re.fullmatch(r"\w+\.start_line", src(new)):
      out.append(c)
  return out


@rule("R3.23", "C03", floor=3)
def r3_23(ctx):
  """Both directive kinds register own line + range start line for a trailing comment, on every path."""
  mod = get_module(ctx, DIR)
  summary = {}
  for qual in _PROCS:
    fn, st, paths, ex = _trailing_paths(ctx, mod, qual)
    no_own = [p for p in paths if not p["own"]]
    with_start = [p for p in paths if p["start"]]
    without = [p for p in paths if not p["start"]]
    # whether the start line is registered may depend on the error class named, on nothing else
    clash = [(p, q) for p in with_start for q in without if _compatible(p, q)]
    why = []
    if no_own:
      why.append(f"a path (conditions {no_own[0]['other'] or no_own[0]['cls']}) registers {no_own[0]['lines']}: "
                 "the comment's own line is missing")
    if clash:
      p, q = clash[0]
      diff = [c for c in q["other"] if c not in p["other"]] or q["other"]
      if any(ex.opaque(t) for t, _ in diff + [c for c in p["other"] if c not in q["other"]]):
        raise AnalysisError(f"{qual}: whether the start line is registered depends on {diff}, a helper that "
                            "was not understood")
      why.append(f"the start line of the enclosing range is registered on one path but not on the path with "
                 f"conditions {diff} (lines {q['lines']}): which lines a trailing directive covers must not "
                 "depend on the kind of range or the position of the comment")
    ctx.check(not why, f"{qual}:trailing-lines-on-every-path", DIR, st.lineno, "; ".join(why),
              {"paths": len(paths), "with_start_line": len(with_start),
               "lines": sorted({x for p in paths for x in p["lines"]})})
    summary[qual] = (bool(with_start), bool(with_start) and not without, st.lineno)
  movers = _moves_to_start(mod)
  (ty_some, ty_all, ty_line), (di_some, _, _) = summary[_PROCS[1]], summary[_PROCS[0]]
  why = []
  if ty_all != di_some:
    why.append("`# pytype: disable=` registers the start line of the enclosing range "
               f"{'for some error classes' if di_some else 'never'}, `# type: ignore` (all error classes) "
               f"{'on every path' if ty_all else 'on some paths only' if ty_some else 'never'}")
  if movers and not (ty_all and di_some):
    why.append(f"{mod.enclosing_function(movers[0]).name} moves the end of a function to the start line of the "
               "range that carries a directive (adjust_end), so the implicit-return error is reported there: "
               "both directive kinds must register that line")
  ctx.check(not why, "Director:directive-kinds-register-the-same-lines", DIR, ty_line, "; ".join(why),
            {"type_ignore_start_line": "every path" if ty_all else "some" if ty_some else "never",
             "disable_start_line": "some error classes" if di_some else "never",
             "adjust_end_to_start_line_sites": len(movers)})


_TY = ("        self._ignore.set_line(line, True)\n"
       "        self._ignore.set_line(final_line, True)\n")
_DI = ("          if final_line != line:\n"
       "            # Set the disable on the original line so that, even if we mess up\n"
       "            # adjusting the line number, silencing an error by adding a\n"
       "            # disable to the exact line the error is reported on always works.\n"
       "            lines.set_line(line, disable)\n"
       "          lines.set_line(final_line, disable)\n")


def _v(name, old, new, expect="fire"):
  return {"name": name, "rule": "R3.23", "file": DIR, "old": old, "new": new, "expect": expect}


VARIANTS = [
    {"name": "seeded-C03-r4m1", "rule": "R3.23", "patch": "seeded/C03-r4m1/patch.diff", "expect": "fire"},
    _v("ignore-start-line-dropped", _TY, "        self._ignore.set_line(line, True)\n"),
    _v("ignore-start-line-only-for-statement-ranges", _TY,
       "        self._ignore.set_line(line, True)\n"
       "        if not isinstance(line_range, parser.Call):\n"
       "          self._ignore.set_line(final_line, True)\n"),
    _v("ignore-own-line-only-at-the-range-end", _TY,
       "        if line == line_range.end_line:\n"
       "          self._ignore.set_line(line, True)\n"
       "        self._ignore.set_line(final_line, True)\n"),
    _v("ignore-either-line-by-range-kind", _TY,
       "        self._ignore.set_line(\n"
       "            final_line if isinstance(line_range, parser.Call) else line, True)\n"),
    _v("disable-start-line-only-for-call-ranges", _DI,
       "          lines.set_line(line, disable)\n"
       "          if isinstance(line_range, parser.Call):\n"
       "            lines.set_line(final_line, disable)\n"),
    _v("disable-adjustment-depends-on-range-kind", "    if error_class not in _ALL_ADJUSTABLE_ERRORS:\n",
       "    if error_class not in _ALL_ADJUSTABLE_ERRORS or isinstance(line_range, parser.Call):\n"),
    _v("disable-start-line-dropped", _DI, "          lines.set_line(line, disable)\n"),
    # behaviour-preserving twins
    _v("twin-ignore-lines-in-a-loop", _TY,
       "        for covered in (line, final_line):\n"
       "          self._ignore.set_line(covered, True)\n", "silent"),
    _v("twin-ignore-start-line-first-guarded-own", _TY,
       "        self._ignore.set_line(final_line, True)\n"
       "        if line != final_line:\n"
       "          self._ignore.set_line(line, True)\n", "silent"),
    {"name": "twin-ignore-guard-clause-and-start-line-helper", "rule": "R3.23", "expect": "silent", "edits": [
        (DIR, "    final_line = line_range.start_line\n    if is_ignore:\n",
         "    final_line = self._first_line(line_range)\n    if is_ignore:\n"),
        (DIR, "      if open_ended:\n        self._ignore.start_range(line, True)\n      else:\n" + _TY,
         "      if open_ended:\n        self._ignore.start_range(line, True)\n        return\n"
         "      self._ignore.set_line(line, True)\n      self._ignore.set_line(final_line, True)\n      return\n"),
        (DIR, "  def _process_pytype(\n",
         "  def _first_line(self, line_range):\n    return line_range.start_line\n\n  def _process_pytype(\n")]},
    # a helper that does the writes is followed (R3.7 does not follow it: only the fire side is declared)
    {"name": "ignore-lines-helper-skips-start-line-of-statements", "rule": "R3.23", "expect": "fire", "edits": [
        (DIR, _TY, "        self._ignore_lines(line, final_line, isinstance(line_range, parser.Call))\n"),
        (DIR, "  def _process_pytype(\n",
         "  def _ignore_lines(self, own, first, in_call):\n    self._ignore.set_line(own, True)\n"
         "    if in_call:\n      self._ignore.set_line(first, True)\n\n  def _process_pytype(\n")]},
    _v("twin-disable-both-lines-unconditionally", _DI,
       "          lines.set_line(final_line, disable)\n"
       "          lines.set_line(line, disable)\n", "silent"),
]
