"""C02 extension: a value with several components matches a type only if EVERY
component was put to the matcher.

R2.27  The matcher decides structured values (the elements of a concrete
       tuple, the type parameters of an instance, the arguments of a callable,
       the attributes of a protocol, the arguments of a call) in loops of the
       form

           for <component> in <components>:
             <result> = self.<match...>(<component>, ...)
             if <result> is None:        # or: raise MatchError
               return None
             <accumulate result>

       - "all components must match" loops.  They are found by role, not by
       name: a `for` loop in a class of matcher.py whose body (a) hands a value
       derived from the loop variable to a matcher method and (b) contains a
       failure exit (`return None`, `return <name known to be None>`, `raise`).
       For each of them every way through the loop body that goes on to the
       next component (falls off the end / `continue`) must have
         * passed a value derived from the loop variable to a matcher method
           (`self.<..match..>(..)`, a self-helper that forwards a parameter to
           one), or
         * fed a value derived from the loop variable into the result the
           function hands back (the local returned / merged after the loop),
       and a `return` inside the body must return None.  A path that merely
       LOOKS at the component (its class, a flag, its position, a set of
       things seen before) and moves on has accepted the component without
       matching it: a missed violation for every value whose unexamined
       component is the offending one.
"""
import ast
import re

from sa.core import rule, AnalysisError
from sa.pyindex import get_module, src, walk_no_nested
from rules import _util_c13c02c10 as U

MATCHER = "pytype/matcher.py"
_FUNCS = (ast.FunctionDef, ast.AsyncFunctionDef)
_MUTATORS = {"append", "extend", "add", "update", "insert", "appendleft",
             "setdefault", "__setitem__"}


def _loads(node):
  return {n.id for n in ast.walk(node)
          if isinstance(n, ast.Name) and isinstance(n.ctx, ast.Load)}


def _stored_names(target):
  return {n.id for n in ast.walk(target)
          if isinstance(n, ast.Name) and isinstance(n.ctx, ast.Store)}


class _Matchers:
  """Which callables of a class are 'matcher methods': the name says so
  (`match` in it), or the method forwards one of its parameters to one."""

  def __init__(self, mod, cname):
    self.mod, self.cname, self.memo = mod, cname, {}

  def is_matcher(self, name, depth=0):
    if "match" in name.lower():
      return True
    if name in self.memo:
      return self.memo[name]
    self.memo[name] = False
    if depth < 3:
      try:
        _, h = U.resolve_method(self.mod, self.cname, name)
      except AnalysisError:
        h = None
      if h is not None:
        params = {a.arg for a in h.args.posonlyargs + h.args.args + h.args.kwonlyargs}
        for c in ast.walk(h):
          if self.match_call(c, depth + 1) and any(
              _loads(a) & params for a in list(c.args) + [k.value for k in c.keywords]):
            self.memo[name] = True
            break
    return self.memo[name]

  def match_call(self, node, depth=0):
    return isinstance(node, ast.Call) and isinstance(node.func, ast.Attribute) \
        and isinstance(node.func.value, ast.Name) and node.func.value.id == "self" \
        and self.is_matcher(node.func.attr, depth)


def _flow_insensitive_taint(loop):
  """Names that may hold a value derived from the loop variable somewhere in
  the body (fixpoint over the body's assignments)."""
  tainted = _stored_names(loop.target)
  changed = True
  while changed:
    changed = False
    for n in ast.walk(loop):
      if isinstance(n, (ast.Assign, ast.AnnAssign, ast.AugAssign)) and n.value is not None:
        ts = n.targets if isinstance(n, ast.Assign) else [n.target]
        if _loads(n.value) & tainted:
          new = set().union(*[_stored_names(t) for t in ts]) - tainted
          if new:
            tainted |= new
            changed = True
  return tainted


def _element_match_calls(node, tainted, ms):
  return [c for c in ast.walk(node) if ms.match_call(c) and any(
      _loads(a) & tainted for a in list(c.args) + [k.value for k in c.keywords])]


def _is_none(e):
  return isinstance(e, ast.Constant) and e.value is None


_NONNONE = (ast.Dict, ast.List, ast.Tuple, ast.Set, ast.DictComp, ast.ListComp,
            ast.SetComp, ast.JoinedStr)


class _Known:
  """What a path knows about `<name> is None` atoms."""

  def __init__(self):
    self.v = {}

  def assign(self, names, value):
    for a in list(self.v):
      if set(re.findall(r"[A-Za-z_]\w*", a)) & set(names):
        del self.v[a]
    if len(names) == 1 and value is not None:
      (n,) = names
      if isinstance(value, _NONNONE) or (
          isinstance(value, ast.Constant) and value.value is not None):
        self.v[f"{n} is None"] = False
      elif _is_none(value):
        self.v[f"{n} is None"] = True

  def assume(self, f, want):
    """Records formula f == want; False if that contradicts the path."""
    k = f[0]
    if k == "const":
      return f[1] == want
    if k == "atom":
      if f[1] in self.v:
        return self.v[f[1]] == want
      if re.fullmatch(r"[A-Za-z_]\w* is None", f[1]):
        self.v[f[1]] = want
      return True
    if k == "not":
      return self.assume(f[1], not want)
    if (k == "and" and want) or (k == "or" and not want):
      return all(self.assume(g, want) for g in f[1])
    # a disjunction that must hold / a conjunction that must fail: contradiction
    # only if every member is already decided the other way
    vals = [self.peek(g) for g in f[1]]
    return not all(v is (not want) for v in vals)

  def peek(self, f):
    k = f[0]
    if k == "const":
      return f[1]
    if k == "atom":
      return self.v.get(f[1])
    if k == "not":
      v = self.peek(f[1])
      return None if v is None else not v
    vals = [self.peek(g) for g in f[1]]
    if k == "and":
      return False if any(v is False for v in vals) else (
          True if all(v is True for v in vals) else None)
    return True if any(v is True for v in vals) else (
        False if all(v is False for v in vals) else None)


def _accumulators(fn, loop):
  """Locals written in the loop body that the function reads after the loop."""
  written = set()
  for n in ast.walk(loop):
    if isinstance(n, (ast.Assign, ast.AnnAssign, ast.AugAssign)):
      for t in (n.targets if isinstance(n, ast.Assign) else [n.target]):
        written |= _stored_names(t)
        if isinstance(t, ast.Subscript) and isinstance(t.value, ast.Name):
          written.add(t.value.id)
    elif isinstance(n, ast.Call) and isinstance(n.func, ast.Attribute) and \
        n.func.attr in _MUTATORS and isinstance(n.func.value, ast.Name):
      written.add(n.func.value.id)
  inside = set(ast.walk(loop))
  after = set()
  for n in walk_no_nested(fn):
    if n not in inside and isinstance(n, ast.Name) and isinstance(n.ctx, ast.Load) \
        and (n.lineno, n.col_offset) > (loop.end_lineno, loop.end_col_offset):
      after.add(n.id)
  return written & after


def _understood_shape(loop, ms):
  """The body is if-nesting over simple statements: nested loops / try / match
  blocks / local functions that match a component or leave the iteration are
  outside the path enumeration (such a loop is not an instance)."""
  t0 = _flow_insensitive_taint(loop)
  for n in ast.walk(loop):
    if n is not loop and isinstance(n, (ast.For, ast.While, ast.Try, ast.Match) + _FUNCS):
      if _element_match_calls(n, t0, ms) or (not isinstance(n, _FUNCS) and any(
          isinstance(x, (ast.Return, ast.Break, ast.Continue)) for x in ast.walk(n))):
        return False
  return True


def _decide_loop(ctx, mod, cname, fn, loop, ms, construct):
  what = f"{cname}.{fn.name}"
  if loop.orelse:
    raise AnalysisError(f"{what}: component loop with an else clause not understood")
  acc = _accumulators(fn, loop)
  problems, facts = [], []
  n_paths = 0
  for path in U.linear_paths(loop.body, what=what):
    tainted = _stored_names(loop.target)
    known = _Known()
    matched = accumulated = False
    feasible = True
    for step in path:
      if step[0] == "test":
        if _element_match_calls(step[1], tainted, ms):
          matched = True
        if not known.assume(U.bool_formula(step[1]), step[2]):
          feasible = False
          break
      elif step[0] in ("stmt", "with"):
        st = step[1]
        if step[0] == "with":
          if _element_match_calls(ast.Module(body=[ast.Expr(i.context_expr) for i in st.items],
                                             type_ignores=[]), tainted, ms):
            matched = True
          continue
        if _element_match_calls(st, tainted, ms):
          matched = True
        if isinstance(st, (ast.Assign, ast.AnnAssign, ast.AugAssign)) and st.value is not None:
          ts = st.targets if isinstance(st, ast.Assign) else [st.target]
          names = set().union(*[_stored_names(t) for t in ts])
          dirty = bool(_loads(st.value) & tainted)
          for t in ts:
            if isinstance(t, ast.Subscript) and isinstance(t.value, ast.Name) and \
                t.value.id in acc and (dirty or _loads(t.slice) & tainted):
              accumulated = True
          if dirty:
            if names & acc:
              accumulated = True
            tainted = tainted | names
          elif not isinstance(st, ast.AugAssign):
            tainted = tainted - names
          known.assign(names, st.value if len(ts) == 1 and isinstance(ts[0], ast.Name)
                       and not isinstance(st, ast.AugAssign) else None)
        elif isinstance(st, ast.Expr) and isinstance(st.value, ast.Call) and \
            isinstance(st.value.func, ast.Attribute) and \
            st.value.func.attr in _MUTATORS and \
            isinstance(st.value.func.value, ast.Name) and \
            st.value.func.value.id in acc and any(
                _loads(a) & tainted for a in st.value.args):
          accumulated = True
      else:
        kind, node = step[1], step[2]
        if not feasible:
          break
        n_paths += 1
        if kind == "raise":
          continue
        if kind == "break":
          raise AnalysisError(f"{what}: the component loop is left by `break`: "
                              "whether the remaining components are matched is not decided")
        if kind == "return":
          v = node.value
          none = v is None or _is_none(v) or (
              isinstance(v, ast.Name) and known.v.get(f"{v.id} is None") is True)
          if not none:
            problems.append(
                f"`{src(node)}` leaves the loop with a result before the remaining "
                "components were matched")
          continue
        conds = " and ".join(
            ("" if s[2] else "not ") + f"({src(s[1])[:60]})" for s in path if s[0] == "test") or "always"
        facts.append({"when": conds, "matched": matched, "accumulated": accumulated})
        if not (matched or accumulated):
          problems.append(f"when {conds} the component is neither matched nor "
                          "carried into the result")
  if not n_paths:
    raise AnalysisError(f"{what}: no feasible path through the component loop")
  ctx.check(not problems, construct, mod.rel, loop.lineno,
            f"every component of `{src(loop.iter)[:50]}` must be put to the "
            "matcher: " + "; ".join(problems[:3]),
            {"iter": src(loop.iter)[:80], "result_locals": sorted(acc), "paths": facts[:12]})


def _has_failure_exit(loop, ms):
  for n in walk_no_nested(ast.Module(body=loop.body, type_ignores=[])):
    if isinstance(n, ast.Raise):
      return True
    if isinstance(n, ast.Return) and (n.value is None or _is_none(n.value)):
      return True
    if isinstance(n, ast.Return) and isinstance(n.value, ast.Name):
      # `if r is None: return r`
      for t, p in _enclosing_tests(loop, n):
        f = U.bool_formula(t)
        if not p:
          f = ("not", f)
        k = _Known()
        k.assume(f, True)
        if k.v.get(f"{n.value.id} is None") is True:
          return True
  return False


def _enclosing_tests(loop, node):
  out = []

  def visit(stmts, conds):
    for st in stmts:
      if st is node:
        out.extend(conds)
        return True
      if isinstance(st, ast.If):
        if visit(st.body, conds + [(st.test, True)]) or \
            visit(st.orelse, conds + [(st.test, False)]):
          return True
      elif isinstance(st, (ast.With, ast.AsyncWith)):
        if visit(st.body, conds):
          return True
    return False
  visit(loop.body, [])
  return out


@rule("R2.27", "C02", floor=9)
def r2_27(ctx):
  """All-components-must-match loops of the matcher examine every component."""
  mod = get_module(ctx, MATCHER)
  n = 0
  for cname in mod.classes:
    ms = _Matchers(mod, cname)
    for mname, fn in mod.methods(cname).items():
      k = 0
      loops = [x for x in walk_no_nested(fn) if isinstance(x, ast.For)]
      loops.sort(key=lambda x: (x.lineno, x.col_offset))
      for loop in loops:
        tainted = _flow_insensitive_taint(loop)
        body = ast.Module(body=loop.body, type_ignores=[])
        if not _element_match_calls(body, tainted, ms):
          continue
        if not _has_failure_exit(loop, ms) or not _understood_shape(loop, ms):
          continue
        k += 1
        _decide_loop(ctx, mod, cname, fn, loop, ms,
                     f"{cname}.{mname}:component-loop#{k}")
        n += 1
  if not n:
    raise AnalysisError("no all-components-must-match loop found in matcher.py")


_HOMO = ("            new_subst = self.match_var_against_type(\n"
         "                instance_param, class_param, subst, view\n"
         "            )\n"
         "            if new_subst is None:\n"
         "              return None\n")
_FIXED = ("            instance_param = instance.pyval[i]\n"
          "            class_param = other_type.formal_type_parameters[i]\n")

VARIANTS = [
    {"name": "seeded-C02-r3m1", "rule": "R2.27", "patch": "seeded/C02-r3m1/patch.diff",
     "expect": "fire"},
    {"name": "fixed-tuple-only-first-element", "rule": "R2.27", "file": MATCHER, "expect": "fire",
     "old": _FIXED,
     "new": "            if i > 0:\n              continue\n" + _FIXED},
    {"name": "homogeneous-skip-unbound-elements", "rule": "R2.27", "file": MATCHER, "expect": "fire",
     "old": "          else:\n" + _HOMO,
     "new": "          elif len(instance_param.bindings) > 1:\n            pass\n          else:\n" + _HOMO},
    {"name": "protocol-attributes-dunder-skipped", "rule": "R2.27", "file": MATCHER, "expect": "fire",
     "old": "    for attribute in sorted(other_type.protocol_attributes):\n",
     "new": "    for attribute in sorted(other_type.protocol_attributes):\n"
            "      if attribute.startswith(\"__\"):\n        continue\n"},
    {"name": "callable-args-early-success", "rule": "R2.27", "file": MATCHER, "expect": "fire",
     "old": "      new_subst = param_match(left_arg, right_arg, subst)\n      if new_subst is None:\n        # Flip actual and expected to enforce",
     "new": "      new_subst = param_match(left_arg, right_arg, subst)\n      if left_arg is right_arg:\n        return subst\n      if new_subst is None:\n        # Flip actual and expected to enforce"},
    {"name": "twin-homogeneous-guard-clause", "rule": "R2.27", "file": MATCHER, "expect": "silent",
     "old": "            if new_subst is None:\n              return None\n          if new_subst is not None:\n            new_substs.append(new_subst)\n",
     "new": "            if new_subst is None:\n              return None\n          if new_subst is None:\n            continue\n          new_substs.append(new_subst)\n"},
    {"name": "twin-homogeneous-arm-in-helper", "rule": "R2.27", "expect": "silent",
     "edits": [
         (MATCHER, _HOMO,
          "            new_subst = self._element_subst(\n"
          "                instance_param, class_param, subst, view\n"
          "            )\n"
          "            if new_subst is None:\n"
          "              return None\n"),
         (MATCHER, "  def _match_callable_args_against_callable(\n",
          "  def _element_subst(self, element, expected, subst, view):\n"
          "    return self.match_var_against_type(element, expected, subst, view)\n\n"
          "  def _match_callable_args_against_callable(\n")]},
    {"name": "twin-fixed-tuple-zip", "rule": "R2.27", "file": MATCHER, "expect": "silent",
     "old": "          for i in range(instance.tuple_length):\n" + _FIXED,
     "new": "          for instance_param, class_param in zip(\n"
            "              instance.pyval, other_type.formal_type_parameters\n          ):\n"},
    {"name": "twin-protocol-attribute-renamed-locals", "rule": "R2.27", "file": MATCHER, "expect": "silent",
     "old": "      new_subst = self._match_protocol_attribute(\n          left, other_type, attribute, subst, view\n      )\n      if new_subst is None:\n        # _match_protocol_attribute already set _protocol_error.\n        return None\n      new_substs.append(new_subst)\n",
     "new": "      attr_subst = self._match_protocol_attribute(\n          left, other_type, attribute, subst, view\n      )\n      if attr_subst is not None:\n        new_substs.append(attr_subst)\n      else:\n        return None\n"},
]
