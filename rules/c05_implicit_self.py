"""C05 extension R5.20 (D60, known finding): a convention the reader applies
implicitly must be applied by the writer's side too.

`pyi/function.py NameAndSig.from_function` synthesises a type mutation for a signature
whose first parameter is named `self` and annotated with a GenericType
(`mutators.append(Mutator("self", sig.params[0].type))` outside the loop over
the body statements): the re-read signature has `mutated_type == type`.  The
printer writes a `self = T` body exactly for parameters whose `mutated_type`
is set.  A signature produced by the analyser (output.py) for

    def f(self: List[int], y: int) -> None: ...

carries no mutated_type, is printed without a body, and is re-read *with*
one: print(parse(print(ast))) != print(ast), and the downstream module sees a
function that mutates its first argument.

The rule reads the reader's implicit condition from the source and looks for
its counterpart on the producing side: either the reader no longer adds an
implicit mutator, or some `pytd.Parameter` construction / `.Replace(
mutated_type=...)` in output.py sets a non-None mutated_type under a test on
the parameter name, or the printer decides the mutation body from the same
condition.
"""
import ast

from sa.core import rule, AnalysisError
from sa.pyindex import get_module, dotted, src, walk_no_nested
from sa import flow

FUNC = "pytype/pyi/function.py"
OUTPUT = "pytype/output.py"
PRINTER = "pytype/pytd/printer.py"


def _implicit_mutators(mod, fn):
  """`mutators.append(Mutator(..))` calls outside any loop over the body."""
  out = []
  for c in ast.walk(fn):
    if not (isinstance(c, ast.Call) and isinstance(c.func, ast.Attribute)
            and c.func.attr == "append" and c.args and isinstance(c.args[0], ast.Call)
            and (dotted(c.args[0].func) or "").split(".")[-1] == "Mutator"):
      continue
    node, in_loop = c, False
    while node in mod.parent and node is not fn:
      node = mod.parent[node]
      if isinstance(node, (ast.For, ast.While)):
        in_loop = True
    if not in_loop:
      out.append(c)
  return out


def _mentions_self_name(test):
  for n in ast.walk(test):
    if isinstance(n, ast.Compare) and any(
        isinstance(x, ast.Constant) and x.value == "self" for x in [n.left] + n.comparators):
      return True
  return False


@rule("R5.20", "C05", floor=1)
def r5_20(ctx):
  """The reader's implicit `self` mutation has a counterpart on the writer's side."""
  mod = get_module(ctx, FUNC)
  make = mod.func("NameAndSig.from_function")
  implicit = _implicit_mutators(mod, make)
  key = "NameAndSig.from_function:implicit-self-mutation-has-a-writer-counterpart"
  if not implicit:
    ctx.ok(key, FUNC, make.lineno, {"implicit_mutators": 0})
    return
  conds = []

  def expand(t, depth=0):
    """A guard that is a call of a module-local one-result predicate reads as
    the predicate's returned expressions."""
    if isinstance(t, ast.Call) and isinstance(t.func, ast.Name) \
        and t.func.id in mod.functions and depth < 2:
      out = [t]
      for r in ast.walk(mod.functions[t.func.id]):
        if isinstance(r, ast.Return) and r.value is not None:
          out += expand(r.value, depth + 1)
      return out
    return [t]
  for c in implicit:
    tests = [x for t, pol in flow.guards(mod.parent, mod.enclosing_stmt(c)) if pol
             for x in expand(t)]
    if not any(_mentions_self_name(t) for t in tests):
      raise AnalysisError("NameAndSig.from_function: implicit Mutator whose condition does not "
                          "name the parameter - rule premise changed")
    conds.append(" and ".join(src(t) for t in tests if _mentions_self_name(t)
                              or "GenericType" in src(t)))
  # the printer decides the mutation body from mutated_type alone?
  pmod = get_module(ctx, PRINTER)
  vs = pmod.func("PrintVisitor.VisitSignature")
  methods = pmod.methods("PrintVisitor")
  fns, todo = [vs], [vs]
  while todo:                       # VisitSignature and the helpers it delegates to
    f = todo.pop()
    for c in ast.walk(f):
      if isinstance(c, ast.Call) and isinstance(c.func, ast.Attribute) \
          and dotted(c.func.value) == "self" and c.func.attr in methods \
          and methods[c.func.attr] not in fns:
        fns.append(methods[c.func.attr])
        todo.append(methods[c.func.attr])
  reads = [n for f in fns for n in ast.walk(f)
           if isinstance(n, ast.Attribute) and n.attr == "mutated_type"]
  if not reads:
    raise AnalysisError("PrintVisitor.VisitSignature no longer reads mutated_type")
  printer_knows = any(_mentions_self_name(t) for f in fns for n in ast.walk(f)
                      if isinstance(n, (ast.If, ast.IfExp, ast.comprehension))
                      for t in ([n.test] if hasattr(n, "test") else n.ifs)
                      if any(isinstance(a, ast.Attribute) and a.attr == "mutated_type"
                             for a in ast.walk(n)))
  # a producer that sets a non-None mutated_type under a test on the name
  omod = get_module(ctx, OUTPUT)
  producer = False
  n_params = 0
  for c in ast.walk(omod.tree):
    if not isinstance(c, ast.Call):
      continue
    d = dotted(c.func) or ""
    val = None
    if d == "pytd.Parameter":
      n_params += 1
      val = c.args[4] if len(c.args) > 4 else next(
          (k.value for k in c.keywords if k.arg == "mutated_type"), None)
    elif isinstance(c.func, ast.Attribute) and c.func.attr == "Replace":
      val = next((k.value for k in c.keywords if k.arg == "mutated_type"), None)
    if val is None or (isinstance(val, ast.Constant) and val.value is None):
      continue
    tests = [t for t, pol in flow.guards(omod.parent, omod.enclosing_stmt(c))]
    if any(_mentions_self_name(t) for t in tests) or isinstance(val, ast.IfExp) and \
        _mentions_self_name(val.test):
      producer = True
  if n_params == 0:
    raise AnalysisError("output.py constructs no pytd.Parameter: rule premise changed")
  ctx.check(printer_knows or producer, key, FUNC, implicit[0].lineno,
            f"the stub reader adds a mutation when `{conds[0]}`, but output.py builds "
            f"its {n_params} pytd.Parameter values with mutated_type=None and the "
            "printer writes the `self = T` body only for a set mutated_type: the stub "
            "emitted for `def f(self: List[int], y: int) -> None: ...` is re-read as "
            "`def f(self: list[int], y: int) -> None: self = list[int]` "
            "(print(parse(print(ast))) differs, and importers see a mutating function)",
            {"reader_condition": conds, "output_parameters": n_params,
             "printer_tests_name": printer_knows})


VARIANTS = [
    {"name": "twin-reader-without-implicit-mutation", "rule": "R5.20", "file": FUNC,
     "expect": "silent",
     "old": "      mutators.append(Mutator(\"self\", sig.params[0].type))\n",
     "new": "      pass\n"},
]
