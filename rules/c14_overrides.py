"""C14 extension (R14.22): the predicate that decides "reflected method first".

CPython (Objects/abstract.c binary_op1, Objects/typeobject.c SLOT1BINFULL /
method_is_overloaded) calls `type(y).__rop__(y, x)` *before*
`type(x).__op__(x, y)` only when type(y) is a proper subclass of type(x) AND
type(y) provides a different implementation of the reflected method than
type(x) does.  In every other case - same class, unrelated classes, a subclass
that merely inherits the reflected method its base class also sees - the
forward method of the left operand is called first.

R14.3 checks that `_call_binop_on_bindings` reverses its try-order exactly
when `_overrides(y.cls, x.cls, rop)` holds; it does not look inside the
predicate.  This rule *evaluates* the predicate (its AST, interpreted by
rules/_minieval.py over a world model of pytype's class values: `.mro`,
`.members[name].bindings`, lazily loaded members, isinstance kinds) on every
ordered pair of classes of a small scope of class hierarchies and compares the
method tried first with the method the *host CPython* calls first on real
classes of the same shape (built with type(); both methods return
NotImplemented and log themselves).  Nothing is assumed about how the
predicate is spelled (loop with break, slice of the mro, any(...), helper).
"""
import ast
import itertools

from sa.core import rule, AnalysisError
from sa.pyindex import get_module
from rules import _minieval as ME

VU = "pytype/vm_utils.py"
DISPATCH = "_call_binop_on_bindings"
FWD, REFL = "__sub__", "__rsub__"
_DEFSETS = ((), (FWD,), (REFL,), (FWD, REFL))


# -- the small scope ----------------------------------------------------------------
def _chain_worlds():
  """A <- B <- C plus a sibling S(A); A, B, C each define any subset."""
  for da, db, dc in itertools.product(_DEFSETS, repeat=3):
    yield [("A", (), da), ("B", ("A",), db), ("C", ("B",), dc), ("S", ("A",), (FWD, REFL))]


def _mixin_first_worlds():
  """D(M, B) with an unrelated mixin M in front: mro D, M, B, A.  M defines both
  methods (an M that lacks the reflected method while B or A has it belongs to
  the family of _mixin_after_worlds)."""
  for refl in itertools.product((False, True), repeat=3):
    defs = [((FWD,) if n == "A" else ()) + ((REFL,) if r else ())
            for n, r in zip("ABD", refl)]
    yield [("A", (), defs[0]), ("B", ("A",), defs[1]), ("M", (), (FWD, REFL)),
           ("D", ("M", "B"), defs[2])]


def _mixin_after_worlds():
  """D(B, M): mro D, B, A, M - M comes *after* the left operand's class but is
  not one of its ancestors, so lookup(D, rop) can differ from lookup(A, rop)
  without any class in front of A defining it.  (Not part of R14.22: see
  rules/pending_c14_overrides_lookup.py.)"""
  for refl in itertools.product((False, True), repeat=4):
    defs = [((FWD,) if n == "A" else ()) + ((REFL,) if r else ())
            for n, r in zip("ABMD", refl)]
    yield [("A", (), defs[0]), ("B", ("A",), defs[1]), ("M", (), defs[2]),
           ("D", ("B", "M"), defs[3])]


def _diamond_worlds():
  """Y(X, Z) with X(A), Z(A): mro Y, X, Z, A - Z sits *between* X and X's base.
  (Not part of R14.22: see rules/pending_c14_overrides_lookup.py.)"""
  for refl in itertools.product((False, True), repeat=4):
    defs = [((FWD,) if n in "AX" else ()) + ((REFL,) if r else ())
            for n, r in zip("AXZY", refl)]
    yield [("A", (), defs[0]), ("X", ("A",), defs[1]), ("Z", ("A",), defs[2]),
           ("Y", ("X", "Z"), defs[3])]


WORLDS = {"chain": _chain_worlds, "mixin-first": _mixin_first_worlds}
PENDING_WORLDS = {"mixin-after": _mixin_after_worlds, "diamond": _diamond_worlds}


def _host_classes(spec):
  """Real classes of the given shape; every defined method logs and declines."""
  log = []

  def method(owner, name):
    def m(self, other):
      log.append((name, owner))
      return NotImplemented
    return m
  out = {}
  for name, bases, defs in spec:
    out[name] = type(name, tuple(out[b] for b in bases),
                     {d: method(name, d) for d in defs})
  return out, log


def _host_first(classes, log, xn, yn):
  """The method the host interpreter calls first for `X() - Y()`."""
  del log[:]
  try:
    classes[xn]() - classes[yn]()
  except TypeError:
    pass
  return log[0] if log else None


class _Model:
  """pytype-side picture of the same classes (kinds follow abstract/*.py)."""

  def __init__(self, spec, host, lazy):
    self.objs = {}
    obj_kinds = ("abstract.PyTDClass", "abstract.SimpleValue", "abstract.Class",
                 "mixin.LazyMembers", "abstract.BaseValue")
    self.object = ME.Obj(obj_kinds, {"name": "object", "members": {}, "_member_map": {}})
    self.object.attrs["mro"] = (self.object,)
    self.object.methods["load_lazy_attribute"] = lambda name, *a, **k: None
    for name, _, defs in spec:
      if lazy:
        kinds = obj_kinds
      else:
        kinds = ("abstract.InterpreterClass", "abstract.SimpleValue", "abstract.Class",
                 "abstract.BaseValue")
      o = ME.Obj(kinds, {"name": name})
      own = {d: ME.Obj(("cfg.Variable",), {"bindings": [ME.Obj(("cfg.Binding",), {})]})
             for d in defs}
      if lazy:
        o.attrs["members"] = {}
        o.attrs["_member_map"] = dict.fromkeys(own)

        def load(attr, *a, _o=o, _own=own, **k):
          if attr in _own:
            _o.attrs["members"][attr] = _own[attr]
        o.methods["load_lazy_attribute"] = load
      else:
        o.attrs["members"] = own
      self.objs[name] = o
    for name, _, _ in spec:
      self.objs[name].attrs["mro"] = tuple(
          self.objs[c.__name__] if c is not object else self.object
          for c in host[name].__mro__)
      self.objs[name].attrs["cls"] = ME.Obj(("abstract.BaseValue",), {"name": "type"})

  def lookup(self, cname, attr, spec):
    """Class whose definition `attr` resolves to on an instance of cname."""
    defs = {n: d for n, _, d in spec}
    for c in self.objs[cname].attrs["mro"]:
      n = c.attrs["name"]
      if attr in defs.get(n, ()):
        return n
    return None


def find_predicate(mod):
  """(function, (sub_param, super_param, attr_param)) of the predicate the
  operator dispatch consults with (right.data.cls, left.data.cls, reflected name)."""
  if not mod.has_func(DISPATCH):
    raise AnalysisError(f"{VU}: {DISPATCH} not found")
  seen, todo, hits = set(), [DISPATCH], []
  while todo:
    q = todo.pop()
    if q in seen:
      continue
    seen.add(q)
    fn = mod.func(q)
    params = [a.arg for a in fn.args.args]
    for c in ast.walk(fn):
      if not isinstance(c, ast.Call) or not isinstance(c.func, ast.Name):
        continue
      if c.func.id not in mod.functions:
        continue
      a = c.args
      if len(a) == 3 and not c.keywords and all(
          isinstance(x, ast.Attribute) and x.attr == "cls" and isinstance(x.value, ast.Attribute)
          and x.value.attr == "data" and isinstance(x.value.value, ast.Name)
          and x.value.value.id in params for x in a[:2]):
        hits.append((c.func.id, c))
      else:
        todo.append(c.func.id)
  names = sorted({h[0] for h in hits})
  if len(names) != 1:
    raise AnalysisError(f"{DISPATCH}: expected exactly one predicate called with "
                        f"(<right>.data.cls, <left>.data.cls, <reflected name>), found {names}")
  fn = mod.func(names[0])
  ps = [a.arg for a in fn.args.args]
  if len(ps) != 3 or fn.args.vararg or fn.args.kwarg or fn.args.kwonlyargs:
    raise AnalysisError(f"{names[0]}: expected three positional parameters, found {ps}")
  return fn, ps


def _interp(mod, fn):
  """An evaluator for fn in which module-level helpers of vm_utils are interpreted
  from their own AST."""
  def resolver(name, args, kwargs):
    if name in mod.functions and "." not in name:
      h = mod.functions[name]
      ps = [a.arg for a in h.args.args]
      if len(args) > len(ps):
        raise ME.Outside(f"call of {name} with too many arguments")
      return ME.Interp(h, resolver=resolver).call({**dict(zip(ps, args)), **kwargs})
    if name.split(".")[-1] in ("debug", "info", "warning") and name.startswith("log."):
      return None
    raise ME.Outside(f"call of `{name}` is not modelled")
  return ME.Interp(fn, resolver=resolver)


def evaluate(ctx, worlds, single_method_pairs=False):
  mod = get_module(ctx, VU)
  fn, (p_sub, p_sup, p_attr) = find_predicate(mod)
  it = _interp(mod, fn)
  results = {}
  for wname, gen in worlds.items():
    for spec in gen():
      host, log = _host_classes(spec)
      for lazy in (False, True):
        model = _Model(spec, host, lazy)
        names = [n for n, _, _ in spec]
        for xn, yn in itertools.product(names, repeat=2):
          want = _host_first(host, log, xn, yn)
          try:
            ov = it.call({p_sub: model.objs[yn], p_sup: model.objs[xn], p_attr: REFL})
          except ME.Outside as e:
            raise AnalysisError(f"{fn.name}: outside the evaluated fragment: {e}") from e
          except ME.Raised as e:
            raise AnalysisError(f"{fn.name}: raises {e} on the class model "
                                f"(x={xn}, y={yn}, {spec})") from e
          except ME.Diverged as e:
            raise AnalysisError(f"{fn.name}: does not terminate on the class model") from e
          if isinstance(ov, (ME.Obj, ME.Sym)):
            raise AnalysisError(f"{fn.name}: returns an opaque value {ov!r}")
          fwd = model.lookup(xn, FWD, spec)
          refl = model.lookup(yn, REFL, spec)
          order = [(REFL, refl), (FWD, fwd)] if ov else [(FWD, fwd), (REFL, refl)]
          got = next((o for o in order if o[1] is not None), None)
          key = (wname, "lazy" if lazy else "eager", xn, yn)
          bad = results.setdefault(key, [])
          if (fwd is None or refl is None) and not single_method_pairs:
            continue   # the predicate's answer cannot be observed
          if got != want:
            bad.append({"classes": {n: list(d) for n, _, d in spec},
                        "predicate": bool(ov), "pytype_first": got, "cpython_first": want})
  for (wname, flav, xn, yn), bad in sorted(results.items()):
    ctx.check(not bad, f"reflected-first:{wname}:{flav}:x={xn},y={yn}", VU, fn.lineno,
              f"`{xn}() - {yn}()`: with the value `{fn.name}` returns, pytype tries "
              f"{bad and bad[0]['pytype_first']} first but CPython calls "
              f"{bad and bad[0]['cpython_first']} first ({len(bad)} class layouts): the "
              "reflected method goes first only if the right operand's class is a proper "
              "subclass of the left's and provides another implementation of the reflected "
              "method than the left operand's class sees; the expression gets the other "
              "method's result type, so clean statements are flagged and real TypeErrors missed",
              {"mismatches": bad[:3], "count": len(bad), "predicate": fn.name})


@rule("R14.22", "C14", floor=64)
def r14_22(ctx):
  """`_overrides` answers like CPython's binary_op1 on a small scope of hierarchies."""
  evaluate(ctx, WORLDS)


_LOOP_OLD = ("    for cls in subcls.mro:\n"
             "      if cls == supercls:\n"
             "        break\n"
             "      if isinstance(cls, mixin.LazyMembers):\n"
             "        cls.load_lazy_attribute(attr)\n"
             "      if (\n"
             "          isinstance(cls, abstract.SimpleValue)\n"
             "          and attr in cls.members\n"
             "          and cls.members[attr].bindings\n"
             "      ):\n"
             "        return True\n")

VARIANTS = [
    {"name": "seeded-C14-r3m1", "rule": "R14.22", "patch": "seeded/C14-r3m1/patch.diff",
     "expect": "fire"},
    # the scan never stops at the left operand's class
    {"name": "overrides-scan-does-not-stop-at-left-class", "rule": "R14.22", "file": VU,
     "expect": "fire", "old": "      if cls == supercls:\n        break\n      if isinstance(cls, mixin.LazyMembers):",
     "new": "      if isinstance(cls, mixin.LazyMembers):"},
    # stops one class too late: the left class's own definition counts as an override
    {"name": "overrides-scan-includes-left-class", "rule": "R14.22", "file": VU, "expect": "fire",
     "old": _LOOP_OLD,
     "new": ("    for cls in subcls.mro:\n"
             "      if isinstance(cls, mixin.LazyMembers):\n"
             "        cls.load_lazy_attribute(attr)\n"
             "      if (\n"
             "          isinstance(cls, abstract.SimpleValue)\n"
             "          and attr in cls.members\n"
             "          and cls.members[attr].bindings\n"
             "      ):\n"
             "        return True\n"
             "      if cls == supercls:\n"
             "        break\n")},
    # only the right operand's own class is consulted: an override inherited from an
    # intermediate class is missed
    {"name": "overrides-looks-at-own-class-only", "rule": "R14.22", "file": VU, "expect": "fire",
     "old": "    for cls in subcls.mro:\n      if cls == supercls:",
     "new": "    for cls in subcls.mro[:1]:\n      if cls == supercls:"},
    # lazily loaded members are not loaded before the membership test
    {"name": "overrides-forgets-lazy-load", "rule": "R14.22", "file": VU, "expect": "fire",
     "old": "      if isinstance(cls, mixin.LazyMembers):\n        cls.load_lazy_attribute(attr)\n      if (\n          isinstance(cls, abstract.SimpleValue)\n          and attr in cls.members",
     "new": "      if (\n          isinstance(cls, abstract.SimpleValue)\n          and attr in cls.members"},
    # the subclass test is dropped
    {"name": "overrides-without-subclass-test", "rule": "R14.22", "file": VU, "expect": "fire",
     "old": "  if subcls and supercls and supercls in subcls.mro:\n    subcls = _base(subcls)",
     "new": "  if subcls and supercls:\n    subcls = _base(subcls)"},
    # twins
    {"name": "twin-overrides-slice-and-any", "rule": "R14.22", "file": VU, "expect": "silent",
     "old": _LOOP_OLD,
     "new": ("    before = subcls.mro[: subcls.mro.index(supercls)]\n"
             "    for c in before:\n"
             "      if isinstance(c, mixin.LazyMembers):\n"
             "        c.load_lazy_attribute(attr)\n"
             "    return any(\n"
             "        isinstance(c, abstract.SimpleValue)\n"
             "        and attr in c.members\n"
             "        and bool(c.members[attr].bindings)\n"
             "        for c in before\n"
             "    )\n")},
    {"name": "twin-overrides-guard-clause-helper", "rule": "R14.22", "expect": "silent",
     "edits": [(VU, "def _overrides(subcls, supercls, attr):",
                "def _defines(cls, attr):\n"
                "  if isinstance(cls, mixin.LazyMembers):\n"
                "    cls.load_lazy_attribute(attr)\n"
                "  if not isinstance(cls, abstract.SimpleValue):\n"
                "    return False\n"
                "  return attr in cls.members and bool(cls.members[attr].bindings)\n\n\n"
                "def _overrides(subcls, supercls, attr):"),
               (VU, "  if subcls and supercls and supercls in subcls.mro:\n    subcls = _base(subcls)\n"
                "    supercls = _base(supercls)\n" + _LOOP_OLD + "  return False\n",
                "  if not subcls or not supercls or supercls not in subcls.mro:\n"
                "    return False\n"
                "  child, parent = _base(subcls), _base(supercls)\n"
                "  for klass in child.mro:\n"
                "    if klass == parent:\n"
                "      return False\n"
                "    if _defines(klass, attr):\n"
                "      return True\n"
                "  return False\n")]},
    {"name": "twin-overrides-while-index", "rule": "R14.22", "file": VU, "expect": "silent",
     "old": _LOOP_OLD,
     "new": ("    i = 0\n"
             "    while i < len(subcls.mro) and subcls.mro[i] != supercls:\n"
             "      cls = subcls.mro[i]\n"
             "      i += 1\n"
             "      if isinstance(cls, mixin.LazyMembers):\n"
             "        cls.load_lazy_attribute(attr)\n"
             "      if not isinstance(cls, abstract.SimpleValue):\n"
             "        continue\n"
             "      if attr in cls.members and cls.members[attr].bindings:\n"
             "        return True\n")},
    # CPython's own formulation (method_is_overloaded): compare the providers
    {"name": "twin-overrides-compares-providers", "rule": "R14.22", "expect": "silent",
     "edits": [(VU, "def _overrides(subcls, supercls, attr):",
                "def _provider(cls, attr):\n"
                "  for c in cls.mro:\n"
                "    if isinstance(c, mixin.LazyMembers):\n"
                "      c.load_lazy_attribute(attr)\n"
                "    if (\n"
                "        isinstance(c, abstract.SimpleValue)\n"
                "        and attr in c.members\n"
                "        and c.members[attr].bindings\n"
                "    ):\n"
                "      return c\n"
                "  return None\n\n\n"
                "def _overrides(subcls, supercls, attr):"),
               (VU, "    supercls = _base(supercls)\n" + _LOOP_OLD + "  return False\n",
                "    supercls = _base(supercls)\n"
                "    if subcls == supercls:\n"
                "      return False\n"
                "    mine = _provider(subcls, attr)\n"
                "    return mine is not None and mine is not _provider(supercls, attr)\n"
                "  return False\n")]},
    {"name": "twin-benign-C14-r1", "rule": "R14.22", "patch": "benign/C14-r1/patch.diff",
     "expect": "silent"},
    # a predicate that consults something the class model does not have
    {"name": "overrides-consults-unmodelled-state", "rule": "R14.22", "file": VU, "expect": "error",
     "old": "      if cls == supercls:\n        break\n      if isinstance(cls, mixin.LazyMembers):",
     "new": "      if cls == supercls or cls.is_dynamic:\n        break\n      if isinstance(cls, mixin.LazyMembers):"},
]
