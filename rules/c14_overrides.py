"""C14 extension (R14.22): the predicate that decides "reflected method first".

CPython (Objects/abstract.c binary_op1, Objects/typeobject.c SLOT1BINFULL /
method_is_overloaded) calls `type(y).__rop__(y, x)` *before*
`type(x).__op__(x, y)` only when type(y) is a proper subclass of type(x) AND
type(y) provides a different implementation of the reflected method than
type(x) does.  In every other case - same class, unrelated classes, a subclass
that merely inherits the reflected method its base class also sees - the
forward method of the left operand is called first.

R14.3 checks that `_call_binop_on_bindings` reverses its try-order exactly
when `_overrides(y.cls, x.cls, rop)` holds; it does not look inside the
predicate.  This rule *evaluates* the predicate (its AST, interpreted by
rules/_minieval.py over a world model of pytype's class values: `.mro`,
`.members[name].bindings`, lazily loaded members, isinstance kinds) on every
ordered pair of classes of a small scope of class hierarchies and compares the
method tried first with the method the *host CPython* calls first on real
classes of the same shape (built with type(); both methods return
NotImplemented and log themselves).  Nothing is assumed about how the
predicate is spelled (loop with break, slice of the mro, any(...), helper).
"""
import ast
import itertools

from sa.core import rule, AnalysisError
from sa.pyindex import get_module, src
from rules import _minieval as ME
from rules import _util_c16c19 as U

VU = "pytype/vm_utils.py"
DISPATCH = "_call_binop_on_bindings"
FWD, REFL = "__sub__", "__rsub__"
_DEFSETS = ((), (FWD,), (REFL,), (FWD, REFL))


# -- the small scope ----------------------------------------------------------------
def _chain_worlds():
  """A <- B <- C plus a sibling S(A); A, B, C each define any subset."""
  for da, db, dc in itertools.product(_DEFSETS, repeat=3):
    yield [("A", (), da), ("B", ("A",), db), ("C", ("B",), dc), ("S", ("A",), (FWD, REFL))]


def _mixin_first_worlds():
  """D(M, B) with an unrelated mixin M in front: mro D, M, B, A.  M defines both
  methods (an M that lacks the reflected method while B or A has it belongs to
  the family of _mixin_after_worlds)."""
  for refl in itertools.product((False, True), repeat=3):
    defs = [((FWD,) if n == "A" else ()) + ((REFL,) if r else ())
            for n, r in zip("ABD", refl)]
    yield [("A", (), defs[0]), ("B", ("A",), defs[1]), ("M", (), (FWD, REFL)),
           ("D", ("M", "B"), defs[2])]


def _mixin_after_worlds():
  """D(B, M): mro D, B, A, M - M comes *after* the left operand's class but is
  not one of its ancestors, so lookup(D, rop) can differ from lookup(A, rop)
  without any class in front of A defining it.  (Not part of R14.22: see
  rules/pending_c14_overrides_lookup.py.)"""
  for refl in itertools.product((False, True), repeat=4):
    defs = [((FWD,) if n == "A" else ()) + ((REFL,) if r else ())
            for n, r in zip("ABMD", refl)]
    yield [("A", (), defs[0]), ("B", ("A",), defs[1]), ("M", (), defs[2]),
           ("D", ("B", "M"), defs[3])]


def _diamond_worlds():
  """Y(X, Z) with X(A), Z(A): mro Y, X, Z, A - Z sits *between* X and X's base.
  (Not part of R14.22: see rules/pending_c14_overrides_lookup.py.)"""
  for refl in itertools.product((False, True), repeat=4):
    defs = [((FWD,) if n in "AX" else ()) + ((REFL,) if r else ())
            for n, r in zip("AXZY", refl)]
    yield [("A", (), defs[0]), ("X", ("A",), defs[1]), ("Z", ("A",), defs[2]),
           ("Y", ("X", "Z"), defs[3])]


WORLDS = {"chain": _chain_worlds, "mixin-first": _mixin_first_worlds}
PENDING_WORLDS = {"mixin-after": _mixin_after_worlds, "diamond": _diamond_worlds}


def _host_classes(spec):
  """Real classes of the given shape; every defined method logs and declines."""
  log = []

  def method(owner, name):
    def m(self, other):
      log.append((name, owner))
      return NotImplemented
    return m
  out = {}
  for name, bases, defs in spec:
    out[name] = type(name, tuple(out[b] for b in bases),
                     {d: method(name, d) for d in defs})
  return out, log


def _host_first(classes, log, xn, yn):
  """The method the host interpreter calls first for `X() - Y()`."""
  del log[:]
  try:
    classes[xn]() - classes[yn]()
  except TypeError:
    pass
  return log[0] if log else None


class _Model:
  """pytype-side picture of the same classes (kinds follow abstract/*.py)."""

  def __init__(self, spec, host, lazy):
    self.objs = {}
    obj_kinds = ("abstract.PyTDClass", "abstract.SimpleValue", "abstract.Class",
                 "mixin.LazyMembers", "abstract.BaseValue")
    self.object = ME.Obj(obj_kinds, {"name": "object", "members": {}, "_member_map": {}})
    self.object.attrs["mro"] = (self.object,)
    self.object.methods["load_lazy_attribute"] = lambda name, *a, **k: None
    for name, _, defs in spec:
      if lazy:
        kinds = obj_kinds
      else:
        kinds = ("abstract.InterpreterClass", "abstract.SimpleValue", "abstract.Class",
                 "abstract.BaseValue")
      o = ME.Obj(kinds, {"name": name})
      own = {d: ME.Obj(("cfg.Variable",), {"bindings": [ME.Obj(("cfg.Binding",), {})]})
             for d in defs}
      if lazy:
        o.attrs["members"] = {}
        o.attrs["_member_map"] = dict.fromkeys(own)

        def load(attr, *a, _o=o, _own=own, **k):
          if attr in _own:
            _o.attrs["members"][attr] = _own[attr]
        o.methods["load_lazy_attribute"] = load
      else:
        o.attrs["members"] = own
      self.objs[name] = o
    for name, _, _ in spec:
      self.objs[name].attrs["mro"] = tuple(
          self.objs[c.__name__] if c is not object else self.object
          for c in host[name].__mro__)
      self.objs[name].attrs["cls"] = ME.Obj(("abstract.BaseValue",), {"name": "type"})

  def lookup(self, cname, attr, spec):
    """Class whose definition `attr` resolves to on an instance of cname."""
    defs = {n: d for n, _, d in spec}
    for c in self.objs[cname].attrs["mro"]:
      n = c.attrs["name"]
      if attr in defs.get(n, ()):
        return n
    return None


def find_predicate(mod):
  """(function, (sub_param, super_param, attr_param)) of the predicate the
  operator dispatch consults with (right.data.cls, left.data.cls, reflected name)."""
  if not mod.has_func(DISPATCH):
    raise AnalysisError(f"{VU}: {DISPATCH} not found")
  seen, todo, hits = set(), [DISPATCH], []
  while todo:
    q = todo.pop()
    if q in seen:
      continue
    seen.add(q)
    fn = mod.func(q)
    params = [a.arg for a in fn.args.args]
    for c in ast.walk(fn):
      if not isinstance(c, ast.Call) or not isinstance(c.func, ast.Name):
        continue
      if c.func.id not in mod.functions:
        continue
      a = c.args
      if len(a) == 3 and not c.keywords and all(
          isinstance(x, ast.Attribute) and x.attr == "cls" and isinstance(x.value, ast.Attribute)
          and x.value.attr == "data" and isinstance(x.value.value, ast.Name)
          and x.value.value.id in params for x in a[:2]):
        hits.append((c.func.id, c))
      else:
        todo.append(c.func.id)
  names = sorted({h[0] for h in hits})
  if len(names) != 1:
    raise AnalysisError(f"{DISPATCH}: expected exactly one predicate called with "
                        f"(<right>.data.cls, <left>.data.cls, <reflected name>), found {names}")
  fn = mod.func(names[0])
  ps = [a.arg for a in fn.args.args]
  if len(ps) != 3 or fn.args.vararg or fn.args.kwarg or fn.args.kwonlyargs:
    raise AnalysisError(f"{names[0]}: expected three positional parameters, found {ps}")
  return fn, ps


def _interp(mod, fn):
  """An evaluator for fn in which module-level helpers of vm_utils are interpreted
  from their own AST."""
  def resolver(name, args, kwargs):
    if name in mod.functions and "." not in name:
      h = mod.functions[name]
      ps = [a.arg for a in h.args.args]
      if len(args) > len(ps):
        raise ME.Outside(f"call of {name} with too many arguments")
      return ME.Interp(h, resolver=resolver).call({**dict(zip(ps, args)), **kwargs})
    if name.split(".")[-1] in ("debug", "info", "warning") and name.startswith("log."):
      return None
    raise ME.Outside(f"call of `{name}` is not modelled")
  return ME.Interp(fn, resolver=resolver)


def _host_calls(classes, log, xn, yn):
  """The methods the host interpreter calls, in order, for `X() - Y()` when every
  method declines (returns NotImplemented)."""
  del log[:]
  try:
    classes[xn]() - classes[yn]()
  except TypeError:
    pass
  return list(log)


def option_paths(mod):
  """(dispatch function, its operand parameters, [(path, [(left, right, name)])]):
  the list of (left, right, method) options the dispatch loop walks, per path."""
  fn = mod.func(DISPATCH)
  params = [a.arg for a in fn.args.args]
  if len(params) < 4:
    raise AnalysisError(f"{DISPATCH}: signature changed")
  loops = [st for st in fn.body if isinstance(st, ast.For) and any(
      isinstance(c, ast.Call) and isinstance(c.func, ast.Attribute)
      and c.func.attr == "get_attribute" for c in ast.walk(st))]
  if len(loops) != 1:
    raise AnalysisError(f"{DISPATCH}: the loop that looks the operator methods up was not found")
  lp = U.ListPaths(mod)
  try:
    results = lp.at_loop(fn, loops[0])
  except U.NotUnderstood as e:
    raise AnalysisError(f"{DISPATCH}: the list of operand orders is built in a way that is "
                        f"not understood: {e}") from e
  if lp.records:
    # options are module-local records (dataclass / NamedTuple): their fields, in
    # declaration order, must play the (left, right, method) roles in the loop
    if len(lp.records) != 1:
      raise AnalysisError(f"{DISPATCH}: the options are records of several classes "
                          f"{sorted(lp.records)}")
    roles = U.record_loop_roles(loops[0], list(lp.records.values())[0])
    if isinstance(roles, str):
      raise AnalysisError(f"{DISPATCH}: the options are {sorted(lp.records)[0]} records but {roles}")
    results = [(path, ("list", tuple(("tuple", tuple(it[1][i] for i in roles))
                                     if it[0] == "tuple" and len(it[1]) == 3 else it
                                     for it in val[1])) if val[0] == "list" else val)
               for path, val in results]
  out = []
  for path, val in results:
    if val[0] != "list" or not all(it[0] == "tuple" and len(it[1]) == 3 for it in val[1]):
      raise AnalysisError(f"{DISPATCH}: the dispatch loop does not walk a list of "
                          f"(left, right, method) tuples on the path {list(path)}")
    out.append((path, [it[1] for it in val[1]]))
  if not out:
    raise AnalysisError(f"{DISPATCH}: no path reaches the dispatch loop")
  return fn, params, out


def evaluate(ctx, worlds, single_method_pairs=False):
  """Compare, for every ordered pair of classes of every world, the methods
  pytype's dispatch would look up (the option list of _call_binop_on_bindings,
  its path conditions - including the call of the predicate - evaluated on the
  class model) with the methods the host CPython calls."""
  mod = get_module(ctx, VU)
  pred, _ = find_predicate(mod)
  fn, params, paths = option_paths(mod)
  name_p, x_p, y_p = params[1], params[2], params[3]
  rnames = [n.targets[0].id for n in fn.body if isinstance(n, ast.Assign)
            and len(n.targets) == 1 and isinstance(n.targets[0], ast.Name)
            and isinstance(n.value, ast.Call) and isinstance(n.value.func, ast.Attribute)
            and n.value.func.attr == "get" and "REVERSE" in src(n.value.func.value)]
  if len(set(rnames)) != 1:
    raise AnalysisError(f"{DISPATCH}: the local holding the reflected method name was not identified")
  r_v = rnames[0]
  it = _interp(mod, fn)
  conds = {}
  for path, _ in paths:
    for text, _pol in path:
      if text not in conds:
        try:
          conds[text] = ast.parse(text, mode="eval").body
        except SyntaxError as e:
          raise AnalysisError(f"{DISPATCH}: path condition `{text}` not understood") from e

  # names a condition may mention: the dispatch parameters, the reflected-name
  # local, module-level names, and locals bound once at the top of the function
  # (their defining expression is evaluated on demand)
  known = set(params) | {r_v} | set(mod.functions) | set(mod.imports) | set(mod.assigns) | \
      set(mod.classes) | {"isinstance", "len", "getattr", "bool", "any", "all"}
  local_defs = {}
  for st in fn.body:
    if isinstance(st, ast.Assign) and len(st.targets) == 1 and isinstance(st.targets[0], ast.Name):
      nm = st.targets[0].id
      n_stores = sum(1 for n in ast.walk(fn) if isinstance(n, ast.Name) and n.id == nm
                     and isinstance(n.ctx, ast.Store))
      if n_stores == 1 and nm not in known:
        local_defs[nm] = st.value

  def free_names(e):
    bound = {n.id for n in ast.walk(e) if isinstance(n, ast.Name) and isinstance(n.ctx, ast.Store)}
    out = set()
    for n in ast.walk(e):
      if isinstance(n, ast.Name) and isinstance(n.ctx, ast.Load) and n.id not in known \
          and n.id not in bound:
        if n.id not in local_defs:
          raise AnalysisError(f"{DISPATCH}: the path condition `{src(e)[:60]}` reads `{n.id}`, "
                              "which is neither an operand, a module-level name nor a local "
                              "bound once at the top of the function")
        out.add(n.id)
        out |= free_names(local_defs[n.id])
    return out

  def operand(cls):
    inst = ME.Obj(("abstract.Instance", "abstract.SimpleValue", "abstract.BaseValue"), {"cls": cls})
    return ME.Obj(("cfg.Binding",), {"data": inst})

  results = {}
  for wname, gen in worlds.items():
    for spec in gen():
      host, log = _host_classes(spec)
      for lazy in (False, True):
        model = _Model(spec, host, lazy)
        names = [n for n, _, _ in spec]
        for xn, yn in itertools.product(names, repeat=2):
          want = _host_calls(host, log, xn, yn)
          env = {name_p: FWD, r_v: REFL, x_p: operand(model.objs[xn]), y_p: operand(model.objs[yn])}
          truth = {}

          def holds(text):
            if text not in truth:
              it.steps = 0
              try:
                for nm in sorted(free_names(conds[text])):
                  if nm not in env:
                    env[nm] = it.expr(local_defs[nm], dict(env))
                truth[text] = ME.Interp.truth(it.expr(conds[text], dict(env)))
              except ME.Outside as e:
                raise AnalysisError(f"{DISPATCH}: `{text}` is outside the evaluated fragment: {e}") from e
              except ME.Raised as e:
                raise AnalysisError(f"{DISPATCH}: `{text}` raises {e} on the class model "
                                    f"(x={xn}, y={yn}, {spec})") from e
              except ME.Diverged as e:
                raise AnalysisError(f"{DISPATCH}: `{text}` does not terminate on the class model") from e
            return truth[text]

          taken = []
          for path, order in paths:
            ok = True
            for text, pol in path:     # in evaluation order: stop at the first mismatch
              if holds(text) != pol:
                ok = False
                break
            if ok:
              taken.append(order)
          if len(taken) != 1:
            raise AnalysisError(f"{DISPATCH}: {len(taken)} paths are taken for x={xn}, y={yn} "
                                "on the class model (expected one)")
          cls_of = {x_p: xn, y_p: yn}
          meth_of = {name_p: FWD, r_v: REFL}
          got = []
          for left, right, meth in taken[0]:
            if left not in cls_of or right not in cls_of or meth not in meth_of:
              raise AnalysisError(f"{DISPATCH}: option ({left}, {right}, {meth}) is not made of "
                                  "the operand / method-name variables")
            owner = model.lookup(cls_of[left], meth_of[meth], spec)
            if owner is not None:
              got.append((meth_of[meth], owner))
          fwd = model.lookup(xn, FWD, spec)
          refl = model.lookup(yn, REFL, spec)
          key = (wname, "lazy" if lazy else "eager", xn, yn)
          bad = results.setdefault(key, [])
          if (fwd is None or refl is None) and not single_method_pairs:
            continue   # only one of the two methods exists: the order cannot be observed
          if got != want:
            bad.append({"classes": {n: list(d) for n, _, d in spec},
                        "options": [list(t) for t in taken[0]],
                        "pytype_tries": got, "cpython_calls": want})
  for (wname, flav, xn, yn), bad in sorted(results.items()):
    ctx.check(not bad, f"reflected-first:{wname}:{flav}:x={xn},y={yn}", VU, fn.lineno,
              f"`{xn}() - {yn}()`: pytype looks up {bad and bad[0]['pytype_tries']} but CPython "
              f"calls {bad and bad[0]['cpython_calls']} ({len(bad)} class layouts): the "
              "reflected method is tried only for operands of different classes, and first only "
              "if the right operand's class is a proper subclass of the left's and provides "
              "another implementation of the reflected method than the left operand's class "
              "sees; otherwise the expression gets the other method's result type (clean "
              "statements flagged, real TypeErrors missed)",
              {"mismatches": bad[:3], "count": len(bad), "predicate": pred.name})


@rule("R14.22", "C14", floor=64)
def r14_22(ctx):
  """`_overrides` answers like CPython's binary_op1 on a small scope of hierarchies."""
  evaluate(ctx, WORLDS)


_PROVIDER = ("def _provider(cls, attr):\n"
             '  """Returns the first class in cls\'s MRO that defines the attribute."""\n'
             "  for base in cls.mro:\n"
             "    if isinstance(base, mixin.LazyMembers):\n"
             "      base.load_lazy_attribute(attr)\n"
             "    if (\n"
             "        isinstance(base, abstract.SimpleValue)\n"
             "        and attr in base.members\n"
             "        and base.members[attr].bindings\n"
             "    ):\n"
             "      return base\n"
             "  return None\n")
_OV_BODY = ("  if subcls and supercls and supercls in subcls.mro:\n"
            "    subcls = _base(subcls)\n"
            "    supercls = _base(supercls)\n"
            "    provider = _provider(subcls, attr)\n"
            "    return provider is not None and provider != _provider(supercls, attr)\n"
            "  return False\n")
_OV_RET = "    return provider is not None and provider != _provider(supercls, attr)\n"

VARIANTS = [
    # the option tuples as a module-local frozen dataclass (benign/C14-b3r1)
    {"name": "twin-benign-C14-b3r1-attempt-records", "rule": "R14.22",
     "patch": "benign/C14-b3r1/patch.diff", "expect": "silent"},
    # rebased onto the repaired _overrides (D66); the original is patch.orig.diff
    {"name": "seeded-C14-r3m1", "rule": "R14.22", "patch": "seeded/C14-r3m1/patch.diff",
     "expect": "fire"},
    # any provider counts, also the one the left operand's class sees itself
    {"name": "overrides-any-provider-counts", "rule": "R14.22", "file": VU, "expect": "fire",
     "old": _OV_RET, "new": "    return provider is not None\n"},
    # the left class's own definition counts as an override
    {"name": "overrides-left-class-definition-counts", "rule": "R14.22", "file": VU,
     "expect": "fire", "old": _OV_RET,
     "new": ("    return provider is not None and (\n"
             "        provider == supercls or provider != _provider(supercls, attr)\n"
             "    )\n")},
    # only the classes' own definitions are consulted: an override inherited from an
    # intermediate class is missed
    {"name": "provider-looks-at-own-class-only", "rule": "R14.22", "file": VU, "expect": "fire",
     "old": "  for base in cls.mro:\n    if isinstance(base, mixin.LazyMembers):",
     "new": "  for base in cls.mro[:1]:\n    if isinstance(base, mixin.LazyMembers):"},
    # lazily loaded members are not loaded before the membership test
    {"name": "provider-forgets-lazy-load", "rule": "R14.22", "file": VU, "expect": "fire",
     "old": "    if isinstance(base, mixin.LazyMembers):\n      base.load_lazy_attribute(attr)\n    if (\n",
     "new": "    if (\n"},
    # the comparison is inverted
    {"name": "overrides-same-provider-is-an-override", "rule": "R14.22", "file": VU,
     "expect": "fire", "old": _OV_RET,
     "new": "    return provider is not None and provider == _provider(supercls, attr)\n"},
    # the subclass test is dropped
    {"name": "overrides-without-subclass-test", "rule": "R14.22", "file": VU, "expect": "fire",
     "old": "  if subcls and supercls and supercls in subcls.mro:\n    subcls = _base(subcls)",
     "new": "  if subcls and supercls:\n    subcls = _base(subcls)"},
    # twins
    {"name": "twin-provider-by-comprehension", "rule": "R14.22", "file": VU, "expect": "silent",
     "old": _PROVIDER,
     "new": ("def _provider(cls, attr):\n"
             "  for base in cls.mro:\n"
             "    if isinstance(base, mixin.LazyMembers):\n"
             "      base.load_lazy_attribute(attr)\n"
             "  defining = [\n"
             "      b\n"
             "      for b in cls.mro\n"
             "      if isinstance(b, abstract.SimpleValue)\n"
             "      and attr in b.members\n"
             "      and b.members[attr].bindings\n"
             "  ]\n"
             "  return defining[0] if defining else None\n")},
    {"name": "twin-overrides-guard-clauses-renamed-locals", "rule": "R14.22", "file": VU,
     "expect": "silent", "old": _OV_BODY,
     "new": ("  if not subcls or not supercls or supercls not in subcls.mro:\n"
             "    return False\n"
             "  child, parent = _base(subcls), _base(supercls)\n"
             "  mine = _provider(child, attr)\n"
             "  if mine is None:\n"
             "    return False\n"
             "  return mine != _provider(parent, attr)\n")},
    {"name": "twin-provider-while-index", "rule": "R14.22", "file": VU, "expect": "silent",
     "old": _PROVIDER,
     "new": ("def _provider(cls, attr):\n"
             "  i = 0\n"
             "  while i < len(cls.mro):\n"
             "    base = cls.mro[i]\n"
             "    i += 1\n"
             "    if isinstance(base, mixin.LazyMembers):\n"
             "      base.load_lazy_attribute(attr)\n"
             "    if not isinstance(base, abstract.SimpleValue):\n"
             "      continue\n"
             "    if attr in base.members and base.members[attr].bindings:\n"
             "      return base\n"
             "  return None\n")},
    # the two provider scans written out inside _overrides, no helper
    {"name": "twin-overrides-providers-inlined", "rule": "R14.22", "file": VU, "expect": "silent",
     "old": ("    provider = _provider(subcls, attr)\n" + _OV_RET),
     "new": ("    found = []\n"
             "    for klass in (subcls, supercls):\n"
             "      hit = None\n"
             "      for base in klass.mro:\n"
             "        if isinstance(base, mixin.LazyMembers):\n"
             "          base.load_lazy_attribute(attr)\n"
             "        if (\n"
             "            isinstance(base, abstract.SimpleValue)\n"
             "            and attr in base.members\n"
             "            and base.members[attr].bindings\n"
             "        ):\n"
             "          hit = base\n"
             "          break\n"
             "      found.append(hit)\n"
             "    return found[0] is not None and found[0] != found[1]\n")},
    # rebased onto the repaired code; the original is patch.orig.diff
    {"name": "twin-benign-C14-r1", "rule": "R14.22", "patch": "benign/C14-r1/patch.diff",
     "expect": "silent"},
    # a predicate that consults something the class model does not have
    {"name": "provider-consults-unmodelled-state", "rule": "R14.22", "file": VU, "expect": "error",
     "old": "        and base.members[attr].bindings\n    ):\n      return base\n",
     "new": "        and base.members[attr].bindings\n        and not base.is_dynamic\n    ):\n      return base\n"},
]
