"""C14 extension (R14.24): which values of an attribute are visible is decided by
the solver, never by CFG reachability or not at all.

`obj.attr = v` pastes the new value into the *same* member variable at a later
CFG node (attribute.py `_set_member`); the older bindings stay in the variable
and are hidden only by the solver's visibility query (`Variable.Bindings(node)`
/ `Filter(node)` / `FilteredData(node)` / `Data(node)`, per binding
`Binding.IsVisible(node)` / `node.HasCombination([b])`).  Reachability
(`program.is_reachable`, `node.CanHaveCombination`) does not model shadowing: a
binding made in `__init__` still *reaches* the statement after
`box.num = "one"`.  `call_binary_operator` / `call_function` report an error
only when no binding succeeds, so a stale binding that supported the operation
silences the plain type mistake C14 promises to flag.

The attribute handler's visibility filter is found by role: the method whose
result re-binds its own second argument, `attr = self.<m>(node, attr)`, right
before the attribute is handed back.  Inside it (and the module-local helpers
it hands the variable to) every read of `<input>.bindings` must be
  * a size query `len(<input>.bindings)`, or
  * on a path where the variable has at most one binding (nothing can be
    shadowed), or
  * the source of a comprehension whose condition asks the solver per binding;
every solver query must be asked at the node parameter; the input may be
returned unfiltered only under a test that compares it with a solver result;
and the filter must consult the solver at all.  Separately, in attribute.py
and vm.py a function that consults a reachability API must not read any
variable's `.bindings` (it may answer a yes/no question, not select values).
"""
import ast

from sa.core import rule, AnalysisError
from sa.pyindex import get_module, src
from sa import flow

ATTR = "pytype/attribute.py"
VM = "pytype/vm.py"
HANDLER = "AbstractAttributeHandler"
SOLVER_COLLECTION = {"Bindings", "Filter", "FilteredData", "Data"}
SOLVER_PER_BINDING = {"IsVisible", "HasCombination"}
REACHABILITY = {"is_reachable", "CanHaveCombination"}
_FRESH = {"NewVariable", "to_variable", "instantiate", "new_unsolvable"}


def find_filters(mod):
  """{method name: [(enclosing function, call)]} for `X = self.m(node, X)` sites."""
  meths = mod.methods(HANDLER)
  out = {}
  for cname, cfn in meths.items():
    for st in ast.walk(cfn):
      if not (isinstance(st, ast.Assign) and len(st.targets) == 1
              and isinstance(st.targets[0], ast.Name) and isinstance(st.value, ast.Call)):
        continue
      c = st.value
      if not (isinstance(c.func, ast.Attribute) and isinstance(c.func.value, ast.Name)
              and c.func.value.id == "self" and c.func.attr in meths):
        continue
      if len(c.args) == 2 and not c.keywords and isinstance(c.args[1], ast.Name) \
          and c.args[1].id == st.targets[0].id and isinstance(c.args[0], ast.Name):
        callee = meths[c.func.attr]
        if len(callee.args.args) == 3:
          out.setdefault(c.func.attr, []).append((cname, cfn, st))
  return out


def _len_of(e):
  """X for `len(X.bindings)`, as source text; else None."""
  if isinstance(e, ast.Call) and isinstance(e.func, ast.Name) and e.func.id == "len" \
      and len(e.args) == 1 and isinstance(e.args[0], ast.Attribute) and e.args[0].attr == "bindings":
    return src(e.args[0].value)
  return None


_OPS = {ast.Lt: lambda a, b: a < b, ast.LtE: lambda a, b: a <= b, ast.Gt: lambda a, b: a > b,
        ast.GtE: lambda a, b: a >= b, ast.Eq: lambda a, b: a == b, ast.NotEq: lambda a, b: a != b}


def _at_most_one(test, pol, owner):
  """Does `test` having truth value `pol` imply len(owner.bindings) <= 1?"""
  while isinstance(test, ast.UnaryOp) and isinstance(test.op, ast.Not):
    test, pol = test.operand, not pol
  if isinstance(test, ast.BoolOp):
    if isinstance(test.op, ast.And) and pol:
      return any(_at_most_one(v, True, owner) for v in test.values)
    if isinstance(test.op, ast.Or) and not pol:
      return any(_at_most_one(v, False, owner) for v in test.values)
    return False
  if isinstance(test, ast.Compare) and len(test.ops) == 1 and type(test.ops[0]) in _OPS:
    l, r = test.left, test.comparators[0]
    f = _OPS[type(test.ops[0])]
    if _len_of(l) == owner and isinstance(r, ast.Constant) and isinstance(r.value, int):
      k = r.value
      return all(n <= 1 for n in range(64) if f(n, k) == pol)
    if _len_of(r) == owner and isinstance(l, ast.Constant) and isinstance(l.value, int):
      k = l.value
      return all(n <= 1 for n in range(64) if f(k, n) == pol)
  return False


def _inner_guards(mod, node, stmt):
  """Tests established between `node` and its statement: IfExp arms, and/or."""
  out = []
  cur = node
  while cur is not stmt and cur in mod.parent:
    par = mod.parent[cur]
    if isinstance(par, ast.IfExp):
      if cur is par.body:
        out.append((par.test, True))
      elif cur is par.orelse:
        out.append((par.test, False))
    elif isinstance(par, ast.BoolOp):
      i = par.values.index(cur)
      for v in par.values[:i]:
        out.append((v, isinstance(par.op, ast.And)))
    elif isinstance(par, (ast.ListComp, ast.SetComp, ast.GeneratorExp, ast.DictComp)):
      if cur in (getattr(par, "elt", None), getattr(par, "key", None), getattr(par, "value", None)):
        for g in par.generators:
          out.extend((t, True) for t in g.ifs)
    cur = par
  return out


def _stmt_of(mod, node):
  return mod.enclosing_stmt(node)


def _all_guards(mod, fn, node):
  st = _stmt_of(mod, node)
  g = list(flow.guards(mod.parent, st, stop=fn))
  return g + _inner_guards(mod, node, st)


def _per_binding_query(expr, loopvar, node_p):
  """Does expr contain `<loopvar>.IsVisible(node)` / `node.HasCombination([.. loopvar ..])`?"""
  for c in ast.walk(expr):
    if isinstance(c, ast.Call) and isinstance(c.func, ast.Attribute) \
        and c.func.attr in SOLVER_PER_BINDING:
      names = {n.id for n in ast.walk(c) if isinstance(n, ast.Name)}
      if loopvar in names and node_p in names:
        return True
  return False


class _FilterScan:
  """Scan of one filter function (or a helper it hands the variable to)."""

  def __init__(self, ctx, mod, fn, node_p, var_p, qual, seen):
    self.ctx, self.mod, self.fn, self.node_p, self.var_p = ctx, mod, fn, node_p, var_p
    self.qual, self.seen = qual, seen
    self.problems = []
    self.queries = 0
    self.facts = {"raw_reads": [], "solver_queries": []}
    self.assigns = {}
    for n in ast.walk(fn):
      if isinstance(n, ast.Name) and isinstance(n.ctx, ast.Store):
        self.assigns.setdefault(n.id, []).append(n)
    if node_p in self.assigns:
      raise AnalysisError(f"{qual}: the node parameter `{node_p}` is re-bound")

  # -- classification of local names ------------------------------------------------
  def _fresh(self, name):
    """Is `name` only ever bound to variables created here (NewVariable() ...)?"""
    stores = self.assigns.get(name)
    if not stores:
      return False
    for s in stores:
      par = self.mod.parent.get(s)
      if not (isinstance(par, ast.Assign) and par.targets == [s] and isinstance(par.value, ast.Call)
              and isinstance(par.value.func, ast.Attribute) and par.value.func.attr in _FRESH):
        return False
    return True

  def _solver_expr(self, e, depth=0):
    """Is the value of e a solver answer (or raw bindings of an at-most-one variable)?"""
    if depth > 6:
      return False
    if isinstance(e, ast.Call) and isinstance(e.func, ast.Attribute) \
        and e.func.attr in SOLVER_COLLECTION:
      return True
    if isinstance(e, ast.Call) and isinstance(e.func, ast.Name) and e.func.id in ("list", "tuple", "sorted") \
        and len(e.args) == 1:
      return self._solver_expr(e.args[0], depth + 1)
    if isinstance(e, ast.IfExp):
      return self._solver_expr(e.body, depth + 1) and self._solver_expr(e.orelse, depth + 1)
    if isinstance(e, ast.Attribute) and e.attr == "bindings":
      owner = src(e.value)
      return any(_at_most_one(t, p, owner) for t, p in _all_guards(self.mod, self.fn, e))
    if isinstance(e, (ast.ListComp, ast.GeneratorExp)) and len(e.generators) == 1:
      g = e.generators[0]
      if isinstance(g.target, ast.Name) and any(
          _per_binding_query(t, g.target.id, self.node_p) for t in g.ifs):
        return True
      return self._solver_expr(g.iter, depth + 1) and isinstance(e.elt, ast.Name)
    if isinstance(e, ast.Name):
      stores = self.assigns.get(e.id, [])
      vals = []
      for s in stores:
        par = self.mod.parent.get(s)
        if isinstance(par, ast.Assign) and par.targets == [s]:
          vals.append(par.value)
        else:
          return False
      return bool(vals) and all(self._solver_expr(v, depth + 1) for v in vals)
    h = self._helper(e)
    if h is not None:
      hfn, amap = h
      rets = [r.value for r in ast.walk(hfn) if isinstance(r, ast.Return) and r.value is not None]
      sub = self._sub(hfn, amap)
      return bool(rets) and sub is not None and all(sub._solver_expr(r, depth + 1) for r in rets)
    return False

  # -- helpers ------------------------------------------------------------------------
  def _helper(self, e):
    """(function, {param: arg}) if e calls a method of the handler / module function."""
    if not isinstance(e, ast.Call):
      return None
    hfn = None
    if isinstance(e.func, ast.Attribute) and isinstance(e.func.value, ast.Name) \
        and e.func.value.id == "self":
      hfn = self.mod.methods(HANDLER).get(e.func.attr)
      params = [a.arg for a in hfn.args.args][1:] if hfn else []
    elif isinstance(e.func, ast.Name) and e.func.id in self.mod.functions:
      hfn = self.mod.functions[e.func.id]
      params = [a.arg for a in hfn.args.args]
    if hfn is None or hfn is self.fn:
      return None
    if any(isinstance(a, ast.Starred) for a in e.args) or any(k.arg is None for k in e.keywords):
      raise AnalysisError(f"{self.qual}: star-args call of helper {hfn.name}")
    amap = dict(zip(params, e.args))
    amap.update({k.arg: k.value for k in e.keywords})
    return hfn, amap

  def _sub(self, hfn, amap):
    node_q = [p for p, a in amap.items() if isinstance(a, ast.Name) and a.id == self.node_p]
    var_q = [p for p, a in amap.items() if isinstance(a, ast.Name) and a.id == self.var_p]
    if not var_q:
      return None
    if len(node_q) != 1:
      # the helper sees the variable but not the node: it cannot ask the solver
      node_q = ["<no node>"]
    return _FilterScan(self.ctx, self.mod, hfn, node_q[0], var_q[0],
                       f"{self.qual}>{hfn.name}", self.seen)

  # -- the scan -----------------------------------------------------------------------
  def run(self):
    if self.fn in self.seen:
      return self
    self.seen.append(self.fn)
    mod, fn = self.mod, self.fn
    for n in ast.walk(fn):
      if isinstance(n, ast.Call) and isinstance(n.func, ast.Attribute) and (
          n.func.attr in SOLVER_COLLECTION or n.func.attr in SOLVER_PER_BINDING):
        if n.func.attr in SOLVER_COLLECTION and not isinstance(n.func.value, (ast.Name, ast.Attribute)):
          continue
        names = {x.id for a in list(n.args) + [k.value for k in n.keywords] + [n.func.value]
                 for x in ast.walk(a) if isinstance(x, ast.Name)}
        self.facts["solver_queries"].append(src(n)[:60])
        if self.node_p in names:
          self.queries += 1
        else:
          self.problems.append(f"`{src(n)[:60]}` asks for visibility at something other than "
                               f"the node `{self.node_p}` the attribute is looked up at")
      if isinstance(n, ast.Attribute) and n.attr == "bindings" and isinstance(n.ctx, ast.Load):
        self._raw_read(n)
      if isinstance(n, ast.Return) and isinstance(n.value, ast.Name) and n.value.id == self.var_p:
        self._unfiltered_return(n)
      h = self._helper(n) if isinstance(n, ast.Call) else None
      if h is not None:
        sub = self._sub(*h)
        if sub is not None and sub.fn not in self.seen:
          sub.run()
          self.problems += sub.problems
          self.queries += sub.queries
          for k in self.facts:
            self.facts[k] += sub.facts[k]
    return self

  def _raw_read(self, n):
    mod = self.mod
    owner = src(n.value)
    par = mod.parent.get(n)
    if isinstance(par, ast.Call) and isinstance(par.func, ast.Name) and par.func.id == "len" \
        and par.args == [n]:
      return  # size query
    if isinstance(n.value, ast.Name) and self._fresh(n.value.id):
      return  # the variable this function builds
    guards = _all_guards(mod, self.fn, n)
    if any(_at_most_one(t, p, owner) for t, p in guards):
      self.facts["raw_reads"].append(f"{src(n)} when it has at most one binding")
      return
    # the source of a comprehension / loop that asks the solver per binding
    if isinstance(par, ast.comprehension) and par.iter is n and isinstance(par.target, ast.Name):
      if any(_per_binding_query(t, par.target.id, self.node_p) for t in par.ifs):
        self.facts["raw_reads"].append(f"{src(n)} filtered per binding by the solver")
        return
    if isinstance(par, ast.For) and par.iter is n and isinstance(par.target, ast.Name) \
        and _per_binding_query(par, par.target.id, self.node_p):
      raise AnalysisError(f"{self.qual}: a loop over {src(n)} asks the solver per binding; "
                          "which bindings it keeps is not understood")
    if not (isinstance(n.value, ast.Name) and n.value.id in
            ({self.var_p} | set(self.assigns) | {a.arg for a in self.fn.args.args})):
      raise AnalysisError(f"{self.qual}: read of `{src(n)}`: whose bindings these are is "
                          "not understood")
    self.problems.append(
        f"`{src(n)}` is read at line +{n.lineno - self.fn.lineno} where the variable may hold "
        "several bindings, without a solver visibility query (Bindings/Filter/FilteredData(node), "
        "IsVisible(node))")

  def _unfiltered_return(self, ret):
    guards = _all_guards(self.mod, self.fn, ret.value)
    owner = self.var_p
    if any(_at_most_one(t, p, owner) for t, p in guards):
      return
    for t, p in guards:
      for c in ast.walk(t):
        if isinstance(c, ast.Compare) and len(c.ops) == 1 and isinstance(c.ops[0], ast.Eq) and p:
          sides = [c.left, c.comparators[0]]
          if any(_len_of(s) == owner for s in sides):
            other = [s for s in sides if _len_of(s) != owner]
            if other and isinstance(other[0], ast.Call) and isinstance(other[0].func, ast.Name) \
                and other[0].func.id == "len" and len(other[0].args) == 1 \
                and self._solver_expr(other[0].args[0]):
              return
        if isinstance(c, ast.Call) and isinstance(c.func, ast.Name) and c.func.id == "all" and p \
            and len(c.args) == 1 and isinstance(c.args[0], ast.GeneratorExp):
          g = c.args[0].generators[0]
          if isinstance(g.target, ast.Name) and src(g.iter) == f"{owner}.bindings" \
              and _per_binding_query(c.args[0].elt, g.target.id, self.node_p):
            return
    self.problems.append(
        f"returns its input `{owner}` unfiltered (line +{ret.lineno - self.fn.lineno}) on a "
        "path that does not establish that every binding is visible at the node")


def _reachability_users(mod):
  """(qualified function, fn, [api names]) for functions touching a reachability API."""
  out = []
  for cname, cdef in mod.classes.items():
    for mname, fn in mod.methods(cname).items():
      out.append((f"{cname}.{mname}", fn))
  for fname, fn in mod.functions.items():
    out.append((fname, fn))
  res = []
  for q, fn in out:
    apis = sorted({n.attr for n in ast.walk(fn) if isinstance(n, ast.Attribute)
                   and n.attr in REACHABILITY})
    if apis:
      res.append((q, fn, apis))
  return res


@rule("R14.24", "C14", floor=4)
def r14_24(ctx):
  """Attribute values are filtered by solver visibility, not by reachability."""
  mod = get_module(ctx, ATTR)
  filters = find_filters(mod)
  if not filters:
    raise AnalysisError(f"{HANDLER}: no `attr = self.<filter>(node, attr)` site found: the "
                        "visibility filter of the attribute lookup was not identified")
  meths = mod.methods(HANDLER)
  for fname, sites in sorted(filters.items()):
    fn = meths[fname]
    for cname, cfn, st in sites:
      # the filtered value and the node it was filtered at are what the caller returns
      rets = [r for r in ast.walk(cfn) if isinstance(r, ast.Return) and isinstance(r.value, ast.Tuple)
              and len(r.value.elts) == 2 and isinstance(r.value.elts[1], ast.Name)
              and r.value.elts[1].id == st.targets[0].id]
      same_node = [r for r in rets if isinstance(r.value.elts[0], ast.Name)
                   and r.value.elts[0].id == st.value.args[0].id]
      ctx.check(bool(rets) and len(same_node) == len(rets), f"filter-site:{cname}", ATTR, st.lineno,
                f"{cname} filters `{st.targets[0].id}` at `{st.value.args[0].id}` but hands it back "
                "with another node", {"filter": fname, "returns": [src(r)[:50] for r in rets]})
    params = [a.arg for a in fn.args.args]
    scan = _FilterScan(ctx, mod, fn, params[1], params[2], fname, []).run()
    problems = list(scan.problems)
    if not scan.queries:
      problems.append("the filter never asks the solver which bindings are visible at the node")
    ctx.check(not problems, f"filter:{fname}:solver-decides-visibility", ATTR, fn.lineno,
              "the attribute lookup's visibility filter must take the visible bindings from a "
              "solver query; reachability (or no filter) keeps the value an attribute had before "
              "it was re-assigned, and an operation the stale value supports is then not reported "
              "(box.num = 'one'; box.num + 1): " + "; ".join(problems), scan.facts)
  # who may decide: a function consulting reachability does not pick among bindings
  for rel in (ATTR, VM):
    m = get_module(ctx, rel)
    users = _reachability_users(m)
    for q, fn, apis in users:
      reads = sorted({src(n)[:40] for n in ast.walk(fn) if isinstance(n, ast.Attribute)
                      and n.attr == "bindings"})
      ctx.check(not reads, f"reachability-user:{rel.split('/')[-1]}:{q}", rel, fn.lineno,
                f"{q} consults {apis} and reads {reads}: CFG reachability does not model "
                "shadowing and may not be used to select which bindings of a variable are "
                "visible; ask the solver (Bindings/Filter(node), IsVisible(node))",
                {"apis": apis, "binding_reads": reads})
    ctx.ok(f"reachability-users:{rel.split('/')[-1]}", rel, 1, {"functions": [u[0] for u in users]})


_OLD = "    bindings = var.Bindings(node) if len(var.bindings) > 1 else var.bindings\n"

VARIANTS = [
    {"name": "seeded-C14-r3m2", "rule": "R14.24", "patch": "seeded/C14-r3m2/patch.diff",
     "expect": "fire"},
    # no filtering at all
    {"name": "filter-takes-all-bindings", "rule": "R14.24", "file": ATTR, "expect": "fire",
     "old": _OLD, "new": "    bindings = var.bindings\n"},
    # reachability through a helper predicate
    {"name": "filter-by-origin-position-helper", "rule": "R14.24", "expect": "fire",
     "edits": [(ATTR, "  def _filter_var(self, node, var):",
                "  def _may_reach(self, node, b):\n"
                "    return any(o.where.id <= node.id for o in b.origins)\n\n"
                "  def _filter_var(self, node, var):"),
               (ATTR, _OLD,
                "    bindings = list(filter(lambda b: self._may_reach(node, b), var.bindings))\n")]},
    # solver asked, but only when there are more than two bindings
    {"name": "filter-skips-solver-for-two-bindings", "rule": "R14.24", "file": ATTR, "expect": "fire",
     "old": _OLD,
     "new": "    bindings = var.Bindings(node) if len(var.bindings) > 2 else var.bindings\n"},
    # visibility asked at the root node instead of the lookup node
    {"name": "filter-asks-at-root-node", "rule": "R14.24", "file": ATTR, "expect": "fire",
     "old": _OLD,
     "new": "    bindings = var.Bindings(self.ctx.root_node) if len(var.bindings) > 1 else var.bindings\n"},
    # the early `return var` no longer compares with the solver's answer
    {"name": "filter-returns-input-early", "rule": "R14.24", "file": ATTR, "expect": "fire",
     "old": "    if len(bindings) == len(var.bindings) and not any(\n",
     "new": "    if not any(\n"},
    # reachability in a vm.py function that then picks bindings
    {"name": "vm-reachability-selects-bindings", "rule": "R14.24", "file": VM, "expect": "fire",
     "old": "    if not self._analyzing:\n      return True\n    has_any_none_origin = False\n",
     "new": "    if not self._analyzing:\n      return True\n"
            "    if len(binding.variable.bindings) > 1:\n      return True\n"
            "    has_any_none_origin = False\n"},
    # twins
    {"name": "twin-filter-if-else-statement", "rule": "R14.24", "file": ATTR, "expect": "silent",
     "old": _OLD,
     "new": ("    if len(var.bindings) <= 1:\n"
             "      bindings = var.bindings\n"
             "    else:\n"
             "      bindings = var.Bindings(node)\n")},
    {"name": "twin-filter-always-asks-solver", "rule": "R14.24", "file": ATTR, "expect": "silent",
     "old": _OLD, "new": "    bindings = var.Bindings(node)\n"},
    {"name": "twin-filter-per-binding-isvisible", "rule": "R14.24", "file": ATTR, "expect": "silent",
     "old": _OLD,
     "new": "    bindings = [b for b in var.bindings if b.IsVisible(node)]\n"},
    {"name": "twin-filter-helper-and-renamed-locals", "rule": "R14.24", "expect": "silent",
     "edits": [(ATTR, "  def _filter_var(self, node, var):",
                "  def _visible_bindings(self, cfg_node, variable):\n"
                "    if len(variable.bindings) < 2:\n"
                "      return variable.bindings\n"
                "    return variable.Bindings(cfg_node)\n\n"
                "  def _filter_var(self, node, var):"),
               (ATTR, _OLD, "    bindings = self._visible_bindings(node, var)\n")]},
    # per-binding solver query inside a loop: what is kept is not understood
    {"name": "filter-loop-with-isvisible", "rule": "R14.24", "file": ATTR, "expect": "error",
     "old": _OLD,
     "new": ("    bindings = []\n"
             "    for b in var.bindings:\n"
             "      if b.IsVisible(node):\n"
             "        bindings.append(b)\n")},
]
