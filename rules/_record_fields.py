"""Field-sensitive value flow through small record objects (shared by the
R4.4 and R12.4 dependency-order obligations).

A record is an instance of a class defined at the top level of the analysed
module that is a `typing.NamedTuple` subclass or a plain `@dataclass`; its
constructor stores each argument, unchanged, in the field of the same
position / keyword.  `rec.<field>` (or `rec[<int>]` for a NamedTuple / a tuple
display) therefore evaluates to the matching constructor argument, provided
the record is only ever read through its fields.  Anything outside that shape
is an AnalysisError: the caller must not guess.

Pure `ast`; nothing from the analysed code is imported."""
import ast

from sa.core import AnalysisError

_FUNC = (ast.FunctionDef, ast.AsyncFunctionDef)


def _dotted(n):
  parts = []
  while isinstance(n, ast.Attribute):
    parts.append(n.attr)
    n = n.value
  if isinstance(n, ast.Name):
    parts.append(n.id)
    return ".".join(reversed(parts))
  return None


def _top_class(mod, name):
  found = [n for n in mod.tree.body if isinstance(n, ast.ClassDef) and n.name == name]
  bound_otherwise = [
      n for n in mod.tree.body
      if not isinstance(n, ast.ClassDef) and any(
          isinstance(x, ast.Name) and x.id == name and isinstance(x.ctx, ast.Store)
          for x in ast.walk(n) if not isinstance(n, _FUNC + (ast.ClassDef,)))]
  funcs = [n for n in mod.tree.body if isinstance(n, _FUNC) and n.name == name]
  if len(found) != 1 or bound_otherwise or funcs:
    return None
  return found[0]


def record_fields(mod, name):
  """-> (field names in constructor order, kind) when `name` is a record class
  of the module, None when it is not a class of the module at all;
  AnalysisError when it is a class whose constructor is not the plain
  field-by-field one."""
  cls = _top_class(mod, name)
  if cls is None:
    return None
  bases = [_dotted(b) for b in cls.bases]
  decos = [_dotted(d.func if isinstance(d, ast.Call) else d) for d in cls.decorator_list]
  is_nt = bases in (["NamedTuple"], ["typing.NamedTuple"]) and not decos and not cls.keywords
  is_dc = (not bases and not cls.keywords and len(decos) == 1
           and decos[0] in ("dataclass", "dataclasses.dataclass"))
  if not (is_nt or is_dc):
    raise AnalysisError(
        f"{name}: a class of the module that is neither a plain NamedTuple nor a "
        "plain @dataclass; how its constructor stores its arguments is not modelled")
  if is_dc:
    d = cls.decorator_list[0]
    if isinstance(d, ast.Call) and any(
        k.arg in (None, "init", "kw_only") for k in d.keywords):
      raise AnalysisError(f"{name}: @dataclass(init=/kw_only=...) is not modelled")
  fields = []
  for st in cls.body:
    if isinstance(st, ast.AnnAssign) and isinstance(st.target, ast.Name):
      ann = _dotted(st.annotation.value if isinstance(st.annotation, ast.Subscript)
                    else st.annotation) or ""
      if ann.split(".")[-1] in ("ClassVar", "InitVar", "KW_ONLY"):
        raise AnalysisError(f"{name}.{st.target.id}: {ann} fields are not modelled")
      if st.value is not None and is_dc and isinstance(st.value, ast.Call):
        raise AnalysisError(f"{name}.{st.target.id}: field(...) specifiers are not modelled")
      fields.append(st.target.id)
    elif isinstance(st, _FUNC) and st.name in (
        "__new__", "__init__", "__post_init__", "__getattr__", "__getattribute__",
        "__getitem__", "__setattr__"):
      raise AnalysisError(f"{name}: defines {st.name}; its fields are not plain storage")
  methods = {st.name for st in cls.body if isinstance(st, _FUNC)}
  if methods & set(fields) or len(set(fields)) != len(fields) or not fields:
    raise AnalysisError(f"{name}: fields are not distinct plain annotations")
  return fields, ("namedtuple" if is_nt else "dataclass")


def ctor_field(mod, call, selector):
  """The argument expression of the record constructor call `call` that ends
  up in field `selector` (a field name, or an int position for NamedTuple).
  None when `call` does not construct a record class of the module."""
  if not (isinstance(call, ast.Call) and isinstance(call.func, ast.Name)):
    return None
  rf = record_fields(mod, call.func.id)
  if rf is None:
    return None
  fields, kind = rf
  cname = call.func.id
  if isinstance(selector, int):
    if kind != "namedtuple" or not 0 <= selector < len(fields):
      raise AnalysisError(f"{cname}[{selector}]: not an index of a NamedTuple field")
    selector = fields[selector]
  if selector not in fields:
    raise AnalysisError(f"{cname} has no field {selector}")
  if any(isinstance(a, ast.Starred) for a in call.args) or \
      any(k.arg is None for k in call.keywords) or len(call.args) > len(fields):
    raise AnalysisError(f"{cname}(...) is called with */** arguments")
  kws = [k for k in call.keywords if k.arg == selector]
  pos = fields.index(selector)
  if len(kws) == 1 and pos >= len(call.args):
    return kws[0].value
  if not kws and pos < len(call.args):
    return call.args[pos]
  raise AnalysisError(
      f"{cname}(...): the argument stored in field {selector} is not given "
      "explicitly (a default value is not modelled)")


def tuple_item(node, index):
  """Element `index` of a tuple display, AnalysisError for a starred one."""
  if any(isinstance(e, ast.Starred) for e in node.elts) or \
      not -len(node.elts) <= index < len(node.elts):
    raise AnalysisError("tuple display with a starred element / index out of range")
  return node.elts[index]


def selector_of(expr):
  """(base Name node, selector) for `name.attr` / `name[<int constant>]`, else None."""
  if isinstance(expr, ast.Attribute) and isinstance(expr.value, ast.Name) \
      and isinstance(expr.ctx, ast.Load):
    return expr.value, expr.attr
  if isinstance(expr, ast.Subscript) and isinstance(expr.value, ast.Name) \
      and isinstance(expr.ctx, ast.Load) and isinstance(expr.slice, ast.Constant) \
      and type(expr.slice.value) is int:
    return expr.value, expr.slice.value
  return None


def require_field_reads_only(fn, name):
  """Every occurrence of the local `name` in `fn` must be a binding of the whole
  name or a plain read `name.<field>` / `name[<int>]` that is not itself the
  receiver of a method call, a subscript, or a store: then no statement of
  `fn` can change the record or (through it) the object held in a field, and
  the record does not escape.  AnalysisError otherwise."""
  parents = {}
  for p in ast.walk(fn):
    for c in ast.iter_child_nodes(p):
      parents[c] = p
  for n in ast.walk(fn):
    if not (isinstance(n, ast.Name) and n.id == name):
      continue
    if isinstance(n.ctx, ast.Store):
      continue
    p = parents.get(n)
    ok = isinstance(n.ctx, ast.Load) and selector_of(p) is not None and p.value is n
    if ok:
      pp = parents.get(p)
      if isinstance(pp, (ast.Attribute, ast.Subscript)) and pp.value is p:
        ok = False          # name.field.method(...) / name.field[i] (= ...)
      if isinstance(pp, ast.AugAssign) and pp.target is p:
        ok = False
    if not ok:
      raise AnalysisError(
          f"{fn.name}: the record `{name}` is used other than by reading one of "
          f"its fields (line {n.lineno}); whether its fields still hold the "
          "constructor arguments is not decided")
  for n in ast.walk(fn):
    if isinstance(n, (ast.Global, ast.Nonlocal)) and name in n.names:
      raise AnalysisError(f"{fn.name}: `{name}` is declared global/nonlocal")
    if isinstance(n, _FUNC + (ast.Lambda,)) and n is not fn and any(
        isinstance(x, ast.Name) and x.id == name for x in ast.walk(n)):
      raise AnalysisError(f"{fn.name}: `{name}` is used in a nested function")


# ---------------------------------------------------------------------------
# Sensitivity-variant text edits shared by R4.4 and R12.4: SerializeAst takes
# both dependency lists from a NamedTuple returned by a module-level helper
# (the shape of benign/C06-b3r2), with the pieces that may carry a defect
# left as parameters.

_SER = "pytype/pytd/serialize_ast.py"
_SER_DEF = "def SerializeAst(ast, src_path=None, metadata=None) -> SerializableAst:"


def deps_record_edits(ctor="_SortedDependencies(\n      regular=sorted(collector.dependencies.items()),\n"
                           "      late=sorted(collector.late_dependencies.items()),\n  )",
                      cls="class _SortedDependencies(NamedTuple):\n"
                          "  regular: list[tuple[str, set[str]]]\n"
                          "  late: list[tuple[str, set[str]]]\n",
                      before_return="", regular="dependencies.regular", late="dependencies.late"):
  return [
      (_SER, _SER_DEF,
       "from typing import NamedTuple\n\n\n" + cls + "\n\n"
       "def _CollectSortedDependencies(ast) -> _SortedDependencies:\n"
       "  collector = visitors.CollectDependencies()\n"
       "  ast.Visit(collector)\n"
       "  return " + ctor + "\n\n\n" + _SER_DEF),
      (_SER, "  deps = visitors.CollectDependencies()\n  ast.Visit(deps)\n"
             "  dependencies = deps.dependencies\n"
             "  late_dependencies = deps.late_dependencies\n",
       "  dependencies = _CollectSortedDependencies(ast)\n"),
      (_SER, "  metadata = metadata or []\n", "  metadata = metadata or []\n" + before_return),
      (_SER, "      sorted(dependencies.items()),\n      sorted(late_dependencies.items()),\n",
       f"      {regular},\n      {late},\n"),
  ]


def deps_record_variants(rule):
  """The variants both rules declare for the record shape."""
  S = "sorted(collector.dependencies.items())"
  L = "sorted(collector.late_dependencies.items())"
  return [
      {"name": "twin-benign-C06-b3r2-dependency-lists-in-a-namedtuple", "rule": rule,
       "patch": "benign/C06-b3r2/patch.diff", "expect": "silent"},
      {"name": "twin-dependency-record-built-by-position", "rule": rule, "expect": "silent",
       "edits": deps_record_edits(ctor=f"_SortedDependencies({S}, {L})")},
      {"name": "twin-dependency-record-is-a-dataclass-read-by-index-free-fields", "rule": rule,
       "expect": "silent",
       "edits": deps_record_edits(
           cls="import dataclasses\n\n\n@dataclasses.dataclass(frozen=True)\n"
               "class _SortedDependencies:\n  regular: list\n  late: list\n")},
      {"name": "twin-dependency-record-read-by-index", "rule": rule, "expect": "silent",
       "edits": deps_record_edits(regular="dependencies[0]", late="dependencies[1]")},
      {"name": "dependency-record-regular-field-not-sorted", "rule": rule, "expect": "fire",
       "edits": deps_record_edits(
           ctor="_SortedDependencies(\n      regular=list(collector.dependencies.items()),\n"
                f"      late={L},\n  )")},
      {"name": "dependency-record-late-field-not-sorted-by-position", "rule": rule,
       "expect": "fire",
       "edits": deps_record_edits(
           ctor=f"_SortedDependencies({S}, list(collector.late_dependencies.items()))")},
      {"name": "dependency-record-fields-crossed-sorted-one-unused", "rule": rule,
       "expect": "fire",
       "edits": deps_record_edits(
           cls="class _SortedDependencies(NamedTuple):\n  regular: list\n  late: list\n"
               "  raw: list\n",
           ctor=f"_SortedDependencies({S}, {L}, list(collector.dependencies.items()))",
           regular="dependencies.raw")},
      {"name": "dependency-record-field-reversed-in-place", "rule": rule, "expect": "error",
       "edits": deps_record_edits(before_return="  dependencies.regular.reverse()\n")},
      {"name": "dependency-record-of-a-class-with-its-own-init", "rule": rule, "expect": "error",
       "edits": deps_record_edits(
           cls="class _SortedDependencies:\n  def __init__(self, regular, late):\n"
               "    self.regular = list(reversed(regular))\n    self.late = late\n")},
      {"name": "dependency-record-passed-to-a-function", "rule": rule, "expect": "error",
       "edits": deps_record_edits(before_return="  _Shuffle(dependencies)\n")},
  ]
