"""C18 - R18.9: a mutable block state never hands out an existing state as a
derived one.

`BlockState.store_local` updates the state in place.  A frame derives the
state of a branch from the state of its parent (`with_condition`) and the
state of a join from the states flowing into it (`merge_into`); if a deriving
method returns an object that already exists (its receiver, an argument, a
stored state), the branch and its parent are one object, and a store in the
branch is seen by the parent and by every state derived from the parent
afterwards.  R18.5 decides that the *containers* of a new state are fresh;
this rule decides that the *state itself* is: in every class of
rewrite/flow/state.py that mutates its own fields outside its constructor,
every value returned by a method that returns instances of the class is a
construction made during the call.
"""
import ast

from sa.core import rule, AnalysisError
from sa.pyindex import dotted, src, walk_no_nested
from rules import _util_c12c17c18 as U

ST = "pytype/rewrite/flow/state.py"
_FUNCS = (ast.FunctionDef, ast.AsyncFunctionDef)
_CTOR = {"__init__", "__post_init__", "__new__", "__setstate__"}
_MUTATORS = {"add", "update", "pop", "remove", "discard", "clear", "append",
             "extend", "insert", "setdefault", "popitem", "sort", "reverse",
             "__setitem__", "__delitem__", "difference_update",
             "intersection_update", "symmetric_difference_update"}
_COPY_CALLS = {"copy.copy", "copy.deepcopy", "dataclasses.replace", "deepcopy"}


def _params(fn):
  a = fn.args
  return [x.arg for x in a.posonlyargs + a.args + a.kwonlyargs] + \
      [x.arg for x in (a.vararg, a.kwarg) if x is not None]


def _root(e):
  """(root name, number of attribute/subscript steps) of an access path."""
  steps = 0
  while isinstance(e, (ast.Attribute, ast.Subscript)):
    e, steps = e.value, steps + 1
  return (e.id if isinstance(e, ast.Name) else None), steps


def _store_targets(n):
  if isinstance(n, ast.Assign):
    todo = list(n.targets)
  elif isinstance(n, (ast.AugAssign, ast.AnnAssign)):
    todo = [n.target] if (isinstance(n, ast.AugAssign) or n.value is not None) else []
  elif isinstance(n, ast.Delete):
    todo = list(n.targets)
  else:
    return []
  out = []
  while todo:
    t = todo.pop()
    if isinstance(t, (ast.Tuple, ast.List)):
      todo.extend(t.elts)
    elif isinstance(t, ast.Starred):
      todo.append(t.value)
    else:
      out.append(t)
  return out


def _self_mutations(fn):
  """Sites of `fn` that change, in place, something reachable from its
  receiver: stores / deletes through `self.<..>` (or a local alias of such a
  path) and calls of a container mutator on such a path."""
  if U._kind(fn) != "plain" or not _params(fn):  # pylint: disable=protected-access
    return []
  me = _params(fn)[0]
  roots = {me}
  changed = True
  while changed:                       # `d = self._locals` makes d an alias
    changed = False
    for n in walk_no_nested(fn):
      if isinstance(n, ast.Assign) and len(n.targets) == 1 and \
          isinstance(n.targets[0], ast.Name) and n.targets[0].id not in roots:
        r, steps = _root(n.value)
        if r in roots and (steps or r != me) and \
            isinstance(n.value, (ast.Attribute, ast.Subscript, ast.Name)):
          roots.add(n.targets[0].id)
          changed = True
  sites = []
  for n in walk_no_nested(fn):
    for t in _store_targets(n):
      r, steps = _root(t)
      if r in roots and steps:
        sites.append((n.lineno, src(t)))
    if isinstance(n, ast.Call) and isinstance(n.func, ast.Attribute) and \
        n.func.attr in _MUTATORS:
      r, steps = _root(n.func.value)
      if r in roots and (steps or r != me):
        sites.append((n.lineno, src(n.func)))
  return sites


class _Judge:
  """What a returned expression denotes: 'fresh' (an instance constructed
  during the call), 'none', or 'existing:<what>'."""

  def __init__(self, mod, cls):
    self.mod, self.cls = mod, cls
    self.classes = {k: v for k, v in mod.classes.items()}
    self.memo = {}

  def returns_of(self, fn, owner):
    key = id(fn)
    if key in self.memo:
      if self.memo[key] is None:
        raise AnalysisError(f"{fn.name}: recursive derivation")
      return self.memo[key]
    self.memo[key] = None
    out = []
    for r in walk_no_nested(fn):
      if isinstance(r, ast.Return):
        if r.value is None:
          out.append((r, "none"))
        else:
          for k in self.kinds(r.value, fn, owner, 0):
            out.append((r, k))
    for n in walk_no_nested(fn):
      if isinstance(n, (ast.Yield, ast.YieldFrom)):
        raise AnalysisError(f"{fn.name}: generator")
    self.memo[key] = out
    return out

  def _receiver_class(self, e, fn, owner):
    """Module class of the receiver expression `e` inside `fn`, or None."""
    ps = _params(fn)
    if isinstance(e, ast.Name):
      if owner and ps and e.id == ps[0] and U._kind(fn) in ("plain", "class"):  # pylint: disable=protected-access
        return owner
      if e.id in self.classes:
        return e.id
      for a in fn.args.posonlyargs + fn.args.args + fn.args.kwonlyargs:
        if a.arg == e.id and a.annotation is not None:
          cs = U.annotation_classes(a.annotation, self.classes)
          if len(cs) == 1:
            return next(iter(cs))
    return None

  def kinds(self, e, fn, owner, depth):
    if depth > 8:
      raise AnalysisError(f"{fn.name}: returned value too deeply nested")
    ps = _params(fn)
    if isinstance(e, ast.Constant) and e.value is None:
      return ["none"]
    if isinstance(e, ast.IfExp):
      return self.kinds(e.body, fn, owner, depth + 1) + \
          self.kinds(e.orelse, fn, owner, depth + 1)
    if isinstance(e, ast.BoolOp):
      out = []
      for v in e.values:
        out += self.kinds(v, fn, owner, depth + 1)
      return out
    if isinstance(e, ast.NamedExpr):
      return self.kinds(e.value, fn, owner, depth + 1)
    if isinstance(e, ast.Call):
      f = e.func
      d = dotted(f) or ""
      # a construction: K(...), type(self)(...), self.__class__(...), cls(...)
      if d == self.cls or d.endswith("." + self.cls):
        return ["fresh"]
      if isinstance(f, ast.Call) and dotted(f.func) == "type" and len(f.args) == 1 \
          and self._receiver_class(f.args[0], fn, owner) == self.cls:
        return ["fresh"]
      if isinstance(f, ast.Attribute) and f.attr == "__class__" and \
          self._receiver_class(f.value, fn, owner) == self.cls:
        return ["fresh"]
      if isinstance(f, ast.Name) and owner == self.cls and ps and f.id == ps[0] \
          and U._kind(fn) == "class":  # pylint: disable=protected-access
        return ["fresh"]
      if d in _COPY_CALLS and e.args:
        return ["fresh"]
      # a module-local helper: what it returns
      if isinstance(f, ast.Name) and f.id in self.mod.functions and f.id not in ps:
        g = self.mod.functions[f.id]
        return sorted({k for _, k in self._callee(g, None, e)})
      if isinstance(f, ast.Attribute):
        k = self._receiver_class(f.value, fn, owner)
        if k is not None:
          hit = U.resolve_method(self.mod, k, f.attr)
          if hit is not None:
            return sorted({x for _, x in self._callee(hit[1], k, e)})
      raise AnalysisError(
          f"{fn.name}: what `{src(e)[:60]}` returns is not understood")
    if isinstance(e, ast.Name):
      if e.id in ps:
        rebinds = [n for n in walk_no_nested(fn)
                   if isinstance(n, ast.Name) and n.id == e.id
                   and isinstance(n.ctx, (ast.Store, ast.Del))]
        if rebinds:
          raise AnalysisError(f"{fn.name}: parameter `{e.id}` is rebound and returned")
        return [f"existing:{e.id}"]
      defs = []
      for n in walk_no_nested(fn):
        if isinstance(n, ast.Assign) and len(n.targets) == 1 and \
            isinstance(n.targets[0], ast.Name) and n.targets[0].id == e.id:
          defs.append(n.value)
        elif isinstance(n, ast.AnnAssign) and isinstance(n.target, ast.Name) and \
            n.target.id == e.id and n.value is not None:
          defs.append(n.value)
        elif isinstance(n, ast.NamedExpr) and n.target.id == e.id:
          defs.append(n.value)
        elif isinstance(n, ast.Name) and n.id == e.id and \
            isinstance(n.ctx, (ast.Store, ast.Del)):
          par = self.mod.parent.get(n)
          if not (isinstance(par, (ast.Assign, ast.AnnAssign, ast.NamedExpr))
                  and (getattr(par, "targets", None) == [n]
                       or getattr(par, "target", None) is n)):
            raise AnalysisError(
                f"{fn.name}: local `{e.id}` is bound by something other than "
                "a plain assignment")
      if not defs:
        raise AnalysisError(f"{fn.name}: `{e.id}` is not a local of the function")
      out = []
      for v in defs:
        out += self.kinds(v, fn, owner, depth + 1)
      return out
    if isinstance(e, (ast.Attribute, ast.Subscript)):
      r, _ = _root(e)
      if r in ps:
        return [f"existing:{src(e)}"]
    raise AnalysisError(f"{fn.name}: what `{src(e)[:60]}` denotes is not understood")

  def _callee(self, g, owner, call):
    if U._kind(g) is None:  # pylint: disable=protected-access
      raise AnalysisError(f"{g.name}: decorated helper")
    out = []
    for r, k in self.returns_of(g, owner):
      if k.startswith("existing:"):
        k = f"existing:{src(call.func)}(..) -> {k[9:]}"
      out.append((r, k))
    if not out:
      out.append((g, "none"))
    return out


@rule("R18.9", "C18", floor=2)
def r18_9(ctx):
  """A state class that is updated in place derives states by construction."""
  mod = U.virtual(ctx, ST, flatten=True)
  classes = U._top_classes(mod.tree)  # pylint: disable=protected-access
  if "BlockState" not in classes:
    raise AnalysisError("state.py defines no BlockState")
  n_derive = 0
  for cname, cd in classes.items():
    methods = {m.name: m for m in cd.body if isinstance(m, _FUNCS)}
    mro = U.local_mro(classes, cname)
    opaque = [b for b in mro if b.startswith("?")]
    sites = {}
    for mname, m in methods.items():
      if mname in _CTOR:
        continue
      s = _self_mutations(m)
      if s:
        sites[mname] = s
    judge = _Judge(mod, cname)
    for mname, m in sorted(methods.items()):
      if mname.startswith("__") and mname.endswith("__"):
        continue
      if U._kind(m) != "plain":  # pylint: disable=protected-access
        continue     # class/static factories have no receiver to hand out
      names = U.annotation_classes(m.returns, classes) if m.returns is not None else set()
      builds = any(isinstance(r, ast.Return) and isinstance(r.value, ast.Call)
                   and (dotted(r.value.func) or "").split(".")[-1] == cname
                   for r in walk_no_nested(m))
      if cname not in names and not builds:
        continue
      n_derive += 1
      rets = judge.returns_of(m, cname)
      if not rets:
        raise AnalysisError(f"{cname}.{mname}: declared to return a {cname} but returns nothing")
      cons = f"{cname}.{mname}:derives-fresh-state"
      existing = [(r, k) for r, k in rets if k.startswith("existing:")]
      facts = {"returns": sorted({k for _, k in rets}),
               "mutated_in_place_by": {k: [x[1] for x in v][:3] for k, v in sorted(sites.items())}}
      if not existing:
        ctx.ok(cons, ST, m.lineno, facts)
        continue
      if not sites:
        if opaque:
          raise AnalysisError(
              f"{cname}.{mname} returns an existing state and whether {cname} "
              f"is updated in place is hidden behind {opaque}")
        facts["immutable"] = True
        ctx.ok(cons, ST, m.lineno, facts)
        continue
      r, k = existing[0]
      how = sorted(sites)[0]
      ctx.bad(cons, ST, r.lineno,
              f"{cname}.{mname} returns {k[9:]} - a state that exists already - "
              f"as the derived state, and {cname}.{how} updates a state in "
              f"place ({sites[how][0][1]}): a store into the derived state "
              "changes the state it was derived from and every state derived "
              "from that one later", facts)
  if n_derive == 0:
    raise AnalysisError("state.py: no method derives a BlockState")


_WC_HEAD = ("    condition = conditions.And(self._condition, condition)\n"
            "    new_locals = {}\n")
_MI_NONE = ("    if not other:\n"
            "      return BlockState(\n"
            "          locals_=dict(self._locals),\n"
            "          condition=self._condition,\n"
            "          locals_with_block_condition=set(self._locals_with_block_condition),\n"
            "      )\n")
_MI_LAST = "    return BlockState(locals_, condition, locals_with_block_condition)\n"

VARIANTS = [
    {"name": "seeded-C18-r4m2", "rule": "R18.9",
     "patch": "seeded/C18-r4m2/patch.diff", "expect": "fire"},
    {"name": "with_condition-TRUE-returns-self", "rule": "R18.9", "file": ST,
     "expect": "fire",
     "old": "    \"\"\"Creates a new state with the given condition 'and'-ed in.\"\"\"\n",
     "new": "    \"\"\"Creates a new state with the given condition 'and'-ed in.\"\"\"\n"
            "    if condition is conditions.TRUE:\n      return self\n"},
    {"name": "merge_into-nothing-yet-returns-self", "rule": "R18.9", "file": ST,
     "expect": "fire", "old": _MI_NONE, "new": "    if not other:\n      return self\n"},
    {"name": "merge_into-same-state-returns-other", "rule": "R18.9", "file": ST,
     "expect": "fire", "old": _MI_NONE,
     "new": _MI_NONE + "    if other is self:\n      return other\n"},
    {"name": "merge_into-result-or-self", "rule": "R18.9", "file": ST,
     "expect": "fire", "old": _MI_LAST,
     "new": "    merged = BlockState(locals_, condition, locals_with_block_condition)\n"
            "    return merged if locals_ else self\n"},
    {"name": "merge_into-through-helper-returning-self", "rule": "R18.9", "file": ST,
     "expect": "fire",
     "edits": [(ST, _MI_NONE, "    if not other:\n      return self._as_is()\n"),
               (ST, "  def merge_into(self,",
                "  def _as_is(self) -> 'BlockState[_T]':\n    return self\n\n"
                "  def merge_into(self,")]},
    {"name": "twin-benign-C18-r3-copy-helper", "rule": "R18.9",
     "patch": "benign/C18-r3/patch.diff", "expect": "silent"},
    {"name": "twin-benign-C18-r4-mixin", "rule": "R18.9",
     "patch": "benign/C18-r4/patch.diff", "expect": "silent"},
    {"name": "twin-merge_into-copy-through-local", "rule": "R18.9", "file": ST,
     "expect": "silent", "old": _MI_NONE,
     "new": "    if not other:\n"
            "      fresh = BlockState(\n"
            "          locals_=dict(self._locals),\n"
            "          condition=self._condition,\n"
            "          locals_with_block_condition=set(self._locals_with_block_condition),\n"
            "      )\n"
            "      return fresh\n"},
    {"name": "twin-merge_into-final-through-local", "rule": "R18.9", "file": ST,
     "expect": "silent", "old": _MI_LAST,
     "new": "    merged = BlockState(locals_, condition, locals_with_block_condition)\n"
            "    return merged\n"},
]
