"""C10 / R10.24 - the MRO functions of pytd/mro.py keep no state across calls.

The linearisation of a stub class is a function of the class and of the tree
it lives in.  `_ComputeMRO` memoises linearisations in a table keyed by
`pytd.ClassType`, which compares and hashes by NAME only; the table is
therefore only valid for one tree, and `GetBasesInMRO` creates it per call.  A
table that outlives the call (module-level, class-level, a mutable default)
answers for a class of tree #2 with the linearisation (or the `None` in-progress
marker) of the equally named class of tree #1.

Decided:
 (a) like R16.9 (rules/c16_shared_state.py, whose write search is reused): no
     mutable value bound at module level, at class level or as a parameter
     default in pytd/mro.py is written by a function of the module (directly,
     through an alias - including `x = {} if c else SHARED` -, or through a
     module-local callee that receives it); no function re-binds a module-level
     name with `global`;
 (b) the memo tables: for every function of the module that stores into a
     parameter by subscript (`mros[t] = ..`: the memo parameter), every call of
     that function in the module passes either the caller's own memo parameter
     (recursion) or a local every reaching definition of which is a fresh empty
     container created in the caller (`{}`, `dict()`); an argument that can be a
     module-level name, an attribute, a default-bound parameter or a
     conditional expression with such an arm is a violation, anything else an
     analysis error.
"""
import ast

from sa.core import rule, AnalysisError
from sa.pyindex import get_module, dotted, src, walk_no_nested
from rules import c10 as C
from rules import c16_shared_state as S

MRO = C.MRO


def _memo_params(fn):
  """Parameters of fn stored into by subscript (p[k] = v, del p[k], p[k] += v)
  or through a keyed mutator (p.setdefault / p.update / p.pop)."""
  params = S._param_names(fn)
  out = []
  for n in walk_no_nested(fn):
    if isinstance(n, ast.Subscript) and isinstance(n.ctx, (ast.Store, ast.Del)) \
        and isinstance(n.value, ast.Name) and n.value.id in params:
      if n.value.id not in out:
        out.append(n.value.id)
    if isinstance(n, ast.Call) and isinstance(n.func, ast.Attribute) and \
        n.func.attr in ("setdefault", "update", "pop", "clear", "popitem") and \
        isinstance(n.func.value, ast.Name) and n.func.value.id in params:
      if n.func.value.id not in out:
        out.append(n.func.value.id)
  return out


def _fresh_empty(e):
  if isinstance(e, ast.Dict) and not e.keys:
    return True
  return isinstance(e, ast.Call) and not e.args and not e.keywords and \
      (dotted(e.func) or "").split(".")[-1] in ("dict", "OrderedDict")


def _origin(mod, fn, defs, e, stmt, memo_params, depth=0):
  """-> 'fresh' | 'passed-through' | ('shared', why) | None (unknown)."""
  if depth > 6:
    return None
  if _fresh_empty(e):
    return "fresh"
  if isinstance(e, ast.IfExp):
    kinds = [_origin(mod, fn, defs, x, stmt, memo_params, depth + 1)
             for x in (e.body, e.orelse)]
    return _join(kinds)
  if isinstance(e, ast.BoolOp):
    kinds = [_origin(mod, fn, defs, x, stmt, memo_params, depth + 1)
             for x in e.values]
    return _join(kinds)
  if isinstance(e, ast.Attribute):
    return ("shared", f"`{src(e)}` is an attribute: it lives as long as its object")
  if isinstance(e, ast.Name):
    ds = defs.at(e.id, stmt)
    if not ds:
      if e.id in mod.assigns:
        return ("shared", f"`{e.id}` is bound at module level "
                          f"(`{e.id} = {src(mod.assigns[e.id])[:40]}`): one table for "
                          "every call in the process")
      return None
    kinds = []
    for d in ds:
      if d == "param":
        if e.id in memo_params.get(fn, ()):
          kinds.append("passed-through")
          continue
        dfl = dict(S._defaults(fn)).get(e.id)
        if dfl is not None and S.value_kind(mod, dfl) != "immutable":
          kinds.append(("shared", f"parameter `{e.id}` defaults to `{src(dfl)}`, "
                                  "evaluated once"))
          continue
        kinds.append(None)
        continue
      if isinstance(d, ast.Assign) and len(d.targets) == 1 and \
          isinstance(d.targets[0], ast.Name):
        kinds.append(_origin(mod, fn, defs, d.value, d, memo_params, depth + 1))
      elif isinstance(d, ast.AnnAssign) and d.value is not None:
        kinds.append(_origin(mod, fn, defs, d.value, d, memo_params, depth + 1))
      else:
        kinds.append(None)
    return _join(kinds)
  return None


def _join(kinds):
  for k in kinds:
    if isinstance(k, tuple):
      return k
  if None in kinds:
    return None
  if "passed-through" in kinds and "fresh" in kinds:
    return "fresh"
  return kinds[0] if kinds else None


@rule("R10.24", "C10", floor=4)
def r10_24(ctx):
  """pytd/mro.py: no state shared between calls; memo tables are per call."""
  mod = get_module(ctx, MRO)
  M = S._Module(mod)
  # (a) bindings that outlive a call
  n_shared = 0
  for q, fn, cls in M.funcs:
    for pname, dflt in S._defaults(fn):
      kind = S.value_kind(mod, dflt)
      if kind == "immutable":
        continue
      n_shared += 1
      w = S._Writes(M)
      w.scan(fn, pname)
      _verdict(ctx, f"default:{q}({pname})", fn.lineno,
               f"the default of parameter `{pname}` of {q}", kind, w, M, dflt)
  glob_writes = {}
  for q, fn, cls in M.funcs:
    stored, glob = S._stored_names(fn)
    for g in glob & stored:
      glob_writes.setdefault(g, []).append(q)
  top = []
  for st in mod.tree.body:
    if isinstance(st, ast.Assign):
      for t in st.targets:
        if isinstance(t, ast.Name):
          top.append((t.id, st.value, st.lineno))
        elif isinstance(t, (ast.Tuple, ast.List)):
          top.extend((e.id, st.value, st.lineno) for e in t.elts
                     if isinstance(e, ast.Name))
    elif isinstance(st, ast.AnnAssign) and st.value is not None and \
        isinstance(st.target, ast.Name):
      top.append((st.target.id, st.value, st.lineno))
  for name, value, line in top:
    if name in glob_writes:
      n_shared += 1
      ctx.bad(f"module:{name}", MRO, line,
              f"module-level `{name}` is re-bound by {glob_writes[name][0]} "
              f"(`global {name}`): what one linearisation leaves behind is seen "
              "by the next call", {"rebound_in": glob_writes[name]})
      continue
    kind = S.value_kind(mod, value)
    if kind == "immutable":
      continue
    n_shared += 1
    w = S._Writes(M)
    for q, fn, cls in M.funcs:
      stored, glob = S._stored_names(fn)
      if name in S._param_names(fn) or (name in stored and name not in glob):
        continue
      if mod.enclosing_function(fn) is not None:
        continue
      w.scan(fn, name)
    _verdict(ctx, f"module:{name}", line, f"module-level `{name}`", kind, w, M, value)
  for cnode in [n for n in ast.walk(mod.tree) if isinstance(n, ast.ClassDef)]:
    for st in cnode.body:
      pairs = []
      if isinstance(st, ast.Assign):
        pairs = [(t.id, st.value) for t in st.targets if isinstance(t, ast.Name)]
      elif isinstance(st, ast.AnnAssign) and st.value is not None and \
          isinstance(st.target, ast.Name):
        pairs = [(st.target.id, st.value)]
      for name, value in pairs:
        kind = S.value_kind(mod, value)
        if kind == "immutable" or name == "__slots__":
          continue
        n_shared += 1
        found = S._attr_writes(M, name)
        construct = f"class:{cnode.name}.{name}"
        if found:
          ctx.bad(construct, MRO, st.lineno,
                  f"class-level `{cnode.name}.{name} = {src(value)[:50]}` is one "
                  f"object for every call, yet it is written ({found[0][1]})",
                  {"kind": kind, "writes": [f"{ln}: {d}" for ln, d in found[:6]]})
        else:
          ctx.ok(construct, MRO, st.lineno, {"kind": kind, "written": False})
  ctx.ok("mro.py:bindings-that-outlive-a-call", MRO, 1,
         {"mutable_or_opaque": n_shared, "functions": len(M.funcs)})

  # (b) memo tables are created by the call that uses them
  memo_params = {}
  for q, fn, cls in M.funcs:
    ps = _memo_params(fn)
    if ps:
      memo_params[fn] = ps
  # a parameter handed on in a memo position is a memo parameter itself
  changed = True
  while changed:
    changed = False
    for q, caller, cls in M.funcs:
      own = S._param_names(caller)
      stored, _ = S._stored_names(caller)
      for call in [n for n in walk_no_nested(caller) if isinstance(n, ast.Call)]:
        callee, is_method = M.callee(call)
        if callee not in memo_params:
          continue
        bound = S._bind(callee, call, is_method)
        if bound is None:
          continue
        for p in memo_params[callee]:
          a = bound.get(p)
          if isinstance(a, ast.Name) and a.id in own and a.id not in stored and \
              a.id not in memo_params.get(caller, ()):
            memo_params.setdefault(caller, []).append(a.id)
            changed = True
  if not memo_params:
    raise AnalysisError(
        "pytd/mro.py: no function stores into a parameter by key (the memo of "
        "linearisations handed down by GetBasesInMRO was expected)")
  by_def = {fn: q for q, fn, cls in M.funcs}
  seen_sites = {}
  for q, caller, cls in M.funcs:
    defs = None
    for call in [n for n in walk_no_nested(caller) if isinstance(n, ast.Call)]:
      callee, is_method = M.callee(call)
      if callee not in memo_params:
        continue
      bound = S._bind(callee, call, is_method)
      if bound is None:
        raise AnalysisError(
            f"{q}: call of {by_def[callee]} with */** - the memo argument is "
            "not identified")
      for p in memo_params[callee]:
        base = f"{q}->{by_def[callee]}({p})"
        k = seen_sites.get(base, 0)
        seen_sites[base] = k + 1
        construct = base if k == 0 else f"{base}#{k + 1}"
        a = bound.get(p)
        if a is None:
          dfl = dict(S._defaults(callee)).get(p)
          if dfl is None:
            raise AnalysisError(f"{construct}: no argument for the memo parameter")
          kind = S.value_kind(mod, dfl)
          ctx.check(kind == "immutable", construct, MRO, call.lineno,
                    f"{by_def[callee]} is called without `{p}` and stores into "
                    f"its default `{src(dfl)}`, which is created once: the memo "
                    "outlives the call", {"default": src(dfl)})
          continue
        if defs is None:
          defs = C._defs(ctx, mod, caller)
        o = _origin(mod, caller, defs, a, mod.enclosing_stmt(call), memo_params)
        if o is None:
          raise AnalysisError(
              f"{construct}: where the memo argument `{src(a)}` comes from could "
              "not be decided")
        facts = {"argument": src(a), "origin": o if isinstance(o, str) else "shared"}
        if isinstance(o, tuple):
          ctx.bad(construct, MRO, call.lineno,
                  f"the memo of linearisations `{src(a)}` that {q} hands to "
                  f"{by_def[callee]} is not created by this call: {o[1]}.  The "
                  "memo is keyed by pytd.ClassType, which hashes by name only, "
                  "so a later tree with equally named classes is answered with "
                  "the linearisations (or the None cycle marker) of an earlier "
                  "one", facts)
        else:
          ctx.ok(construct, MRO, call.lineno, facts)


def _verdict(ctx, construct, line, what, kind, w, M, value):
  found = list(w.found)
  for a in sorted(w.attrs):
    found += [(ln, f"(kept as .{a}) {d}") for ln, d in S._attr_writes(M, a)]
  facts = {"value": src(value)[:80], "kind": kind}
  if found:
    found.sort()
    ctx.bad(construct, MRO, line,
            f"{what} = `{src(value)[:60]}` is created once and outlives the "
            f"call, yet it is written while a class is linearised ({found[0][1]}"
            f"{' and %d more' % (len(found) - 1) if len(found) > 1 else ''}): what "
            "an earlier stub tree left in it (linearisations keyed by class NAME, "
            "in-progress markers) decides the order computed for the next one",
            dict(facts, writes=[f"{ln}: {d}" for ln, d in found[:6]]))
    return
  if w.escapes and kind == "mutable":
    raise AnalysisError(
        f"pytd/mro.py: {what} at line {line} is a mutable container that leaves "
        f"the functions that can be followed ({w.escapes[0][1]})")
  ctx.ok(construct, MRO, line, dict(facts, written=False))


_GB = "def GetBasesInMRO(cls, lookup_ast=None):\n  \"\"\"Get the given class's bases in Python's method resolution order.\"\"\"\n  mros = {}\n"

VARIANTS = [
    {"name": "seeded-C10-r4m2", "rule": "R10.24", "patch": "seeded/C10-r4m2/patch.diff",
     "expect": "fire"},
    {"name": "memo-as-mutable-default", "rule": "R10.24", "file": MRO, "expect": "fire",
     "old": _GB,
     "new": "def GetBasesInMRO(cls, lookup_ast=None, mros={}):\n  \"\"\"Get the given class's bases in Python's method resolution order.\"\"\"\n"},
    {"name": "memo-at-module-level", "rule": "R10.24", "file": MRO, "expect": "fire",
     "old": _GB,
     "new": "_MROS = {}\n\n\n" + _GB.replace("  mros = {}\n", "  mros = _MROS\n")},
    {"name": "memo-on-the-function-object", "rule": "R10.24", "file": MRO, "expect": "fire",
     "old": _GB,
     "new": _GB.replace("  mros = {}\n", "  mros = GetBasesInMRO.cache\n")},
    {"name": "compute-mro-defaults-its-memo", "rule": "R10.24", "expect": "fire",
     "edits": [(MRO, "def _ComputeMRO(t, mros, lookup_ast):\n", "def _ComputeMRO(t, lookup_ast, mros={}):\n"),
               (MRO, "    return _ComputeMRO(t.base_type, mros, lookup_ast)\n", "    return _ComputeMRO(t.base_type, lookup_ast, mros)\n"),
               (MRO, "          base_mro = _ComputeMRO(base, mros, lookup_ast)\n", "          base_mro = _ComputeMRO(base, lookup_ast, mros)\n"),
               (MRO, "    base_mros.append(_ComputeMRO(p, mros, lookup_ast))\n", "    base_mros.append(_ComputeMRO(p, lookup_ast))\n")]},
    {"name": "dedup-seen-set-at-module-level", "rule": "R10.24", "file": MRO, "expect": "fire",
     "old": "def Dedup(seq):\n  \"\"\"Return a sequence in the same order, but with duplicates removed.\"\"\"\n  seen = set()\n",
     "new": "_SEEN = set()\n\n\ndef Dedup(seq):\n  \"\"\"Return a sequence in the same order, but with duplicates removed.\"\"\"\n  seen = _SEEN\n"},
    {"name": "twin-memo-via-dict-call", "rule": "R10.24", "file": MRO, "expect": "silent",
     "old": _GB, "new": _GB.replace("  mros = {}\n", "  mros = dict()\n")},
    {"name": "twin-memo-renamed", "rule": "R10.24", "expect": "silent",
     "edits": [(MRO, _GB, _GB.replace("  mros = {}\n", "  linearised = {}\n")),
               (MRO, "    base_mros.append(_ComputeMRO(p, mros, lookup_ast))\n",
                "    base_mros.append(_ComputeMRO(p, linearised, lookup_ast))\n")]},
    {"name": "twin-memo-created-on-both-arms", "rule": "R10.24", "file": MRO, "expect": "silent",
     "old": _GB,
     "new": _GB.replace("  mros = {}\n", "  if lookup_ast is None:\n    mros = {}\n  else:\n    mros = dict()\n")},
    {"name": "twin-immutable-module-constant", "rule": "R10.24", "file": MRO, "expect": "silent",
     "old": _GB, "new": "_NO_BASES = ()\n\n\n" + _GB},
    {"name": "memo-from-unknown-factory", "rule": "R10.24", "file": MRO, "expect": "error",
     "old": _GB, "new": _GB.replace("  mros = {}\n", "  mros = pytd.NewMemo(cls)\n")},
]
