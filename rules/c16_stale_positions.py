"""C16 - R16.23: positions of a list are not used across a deletion from it.

The block passes of blocks.py / pyc/opcodes.py address blocks and instructions
by their *index* in a list.  `del xs[i]`, `xs.pop(i)`, `xs.insert(i, ..)`,
`xs.remove(..)` and slice assignment move every later element, so an index
computed before the change denotes another element afterwards.  A `for` loop
that walks positions computed before the loop (its target, or target +- a
constant, subscripts the list) and also changes the list structurally in its
body uses stale positions from the second iteration on - the wrong block loses
its jump, the wrong block is merged or deleted, and the blocks no longer
partition the instruction stream.  (Appending is not a structural change in
this sense: it moves nothing.)

Decided per (function, loop, list):
  * the change is immediately followed by `break` / `return` (at most one
    change while positions are in use): holds;
  * the loop walks distinct positions in descending order - `sorted(<set>,
    reverse=True)`, `reversed(sorted(<set>))`, `reversed(range(..))`,
    `range(a, b, -1)` - its target is one name v, every subscript of the list
    in the body is exactly `xs[v]` and every change is `del xs[v]` /
    `xs.pop(v)`: holds (what is deleted lies behind every position still to
    come);
  * the loop iterates the list itself (`for b in xs`, `enumerate(xs)`) and
    changes it: violation;
  * otherwise: violation, unless an index is more than `v`, `v + c`, `v - c`
    (e.g. `xs[idx - n_deleted]`, a compensated index): analysis error.
"""
import ast

from sa.core import rule, AnalysisError
from sa.pyindex import get_module, dotted, src, walk_no_nested

BLOCKS = "pytype/blocks/blocks.py"
OPCODES = "pytype/pyc/opcodes.py"
_FILES = (BLOCKS, OPCODES)
_DEFS = (ast.FunctionDef, ast.AsyncFunctionDef)
_STRUCTURAL = {"pop", "insert", "remove", "clear"}


def _path(e):
  """'a' / 'a.b.c' for a Name / attribute chain without calls or subscripts."""
  return dotted(e) if isinstance(e, (ast.Name, ast.Attribute)) else None


def _walk_body(stmts):
  for s in stmts:
    if isinstance(s, _DEFS + (ast.ClassDef,)):
      continue
    yield s
    yield from walk_no_nested(s)


def _changes(loop):
  """[(list path, stmt/call node, index expr or None, how)] inside the loop."""
  out = []
  for n in _walk_body(loop.body + loop.orelse):
    if isinstance(n, ast.Delete):
      for t in n.targets:
        if isinstance(t, ast.Subscript) and _path(t.value):
          out.append((_path(t.value), n, t.slice, "del"))
    elif isinstance(n, ast.Assign):
      for t in n.targets:
        if isinstance(t, ast.Subscript) and isinstance(t.slice, ast.Slice) and \
            _path(t.value):
          out.append((_path(t.value), n, t.slice, "slice assignment"))
    elif isinstance(n, ast.Call) and isinstance(n.func, ast.Attribute) and \
        n.func.attr in _STRUCTURAL and _path(n.func.value):
      idx = n.args[0] if n.args and n.func.attr in ("pop", "insert") else None
      out.append((_path(n.func.value), n, idx, f".{n.func.attr}()"))
  return out


def _names(e):
  return {n.id for n in ast.walk(e) if isinstance(n, ast.Name)}


def _derived(loop):
  """Names that carry a position of this iteration: the loop target's names
  and body locals computed from them."""
  d = _names(loop.target)
  changed = True
  while changed:
    changed = False
    for n in _walk_body(loop.body):
      if isinstance(n, ast.Assign) and (_names(n.value) & d) and \
          not isinstance(n.value, (ast.Subscript, ast.Call)):
        for t in n.targets:
          if isinstance(t, ast.Name) and t.id not in d:
            d.add(t.id)
            changed = True
  return d


def _index_kind(e, loopvars, derived):
  """'var:<v>' for a bare loop variable, 'offset' for v +- const, 'other'."""
  if isinstance(e, ast.Name):
    return f"var:{e.id}" if e.id in loopvars else ("offset" if e.id in derived else None)
  if isinstance(e, ast.BinOp) and isinstance(e.op, (ast.Add, ast.Sub)):
    l, r = e.left, e.right
    for a, b in ((l, r), (r, l)):
      if isinstance(a, ast.Name) and a.id in derived and \
          isinstance(b, ast.Constant) and isinstance(b.value, int):
        return "offset"
  if isinstance(e, ast.Slice):
    parts = [p for p in (e.lower, e.upper, e.step) if p is not None]
    if any(_names(p) & derived for p in parts):
      kinds = [_index_kind(p, loopvars, derived) for p in parts if _names(p) & derived]
      return "other" if ("other" in kinds or None in kinds) else "offset"
    return None
  return "other" if (_names(e) & derived) else None


def _single_def(fn, name, before):
  defs = [n for n in walk_no_nested(fn)
          if isinstance(n, ast.Assign) and len(n.targets) == 1
          and isinstance(n.targets[0], ast.Name) and n.targets[0].id == name]
  stores = [n for n in walk_no_nested(fn) if isinstance(n, ast.Name)
            and n.id == name and isinstance(n.ctx, (ast.Store, ast.Del))]
  if len(defs) == 1 and len(stores) == 1 and defs[0].lineno < before.lineno:
    return defs[0].value
  return None


def _is_set(fn, e, loop, depth=0):
  if isinstance(e, (ast.Set, ast.SetComp)):
    return True
  if isinstance(e, ast.Call) and dotted(e.func) in ("set", "frozenset"):
    return True
  if isinstance(e, ast.Name) and depth < 3:
    v = _single_def(fn, e.id, loop)
    return v is not None and _is_set(fn, v, loop, depth + 1)
  return False


def _kw(call, name):
  for k in call.keywords:
    if k.arg == name:
      return k.value
  return None


def _descending_distinct(fn, e, loop, depth=0):
  """Does `e` enumerate distinct positions, largest first?"""
  if isinstance(e, ast.Name) and depth < 3:
    v = _single_def(fn, e.id, loop)
    if v is None:
      return False
    # the sequence must not be changed between its definition and the loop
    for n in walk_no_nested(fn):
      if isinstance(n, ast.Call) and isinstance(n.func, ast.Attribute) and \
          _path(n.func.value) == e.id and n.func.attr not in ("index", "count", "copy"):
        return False
    return _descending_distinct(fn, v, loop, depth + 1)
  if not isinstance(e, ast.Call):
    return False
  d = dotted(e.func)
  if d == "sorted" and len(e.args) == 1 and _kw(e, "key") is None:
    rev = _kw(e, "reverse")
    return isinstance(rev, ast.Constant) and rev.value is True and \
        _is_set(fn, e.args[0], loop)
  if d == "reversed" and len(e.args) == 1 and not e.keywords:
    a = e.args[0]
    if isinstance(a, ast.Name):
      a = _single_def(fn, a.id, loop) or a
    if isinstance(a, ast.Call) and dotted(a.func) == "range" and len(a.args) <= 2:
      return True
    if isinstance(a, ast.Call) and dotted(a.func) == "sorted" and len(a.args) == 1 \
        and not a.keywords:
      return _is_set(fn, a.args[0], loop)
    return False
  if d == "range" and len(e.args) == 3:
    s = e.args[2]
    return isinstance(s, ast.UnaryOp) and isinstance(s.op, ast.USub) and \
        isinstance(s.operand, ast.Constant) and s.operand.value == 1
  return False


def _exits_after(mod, node, loop):
  """Is the statement of `node` directly followed by break / return?"""
  stmt = node if isinstance(node, ast.stmt) else mod.enclosing_stmt(node)
  par = mod.parent.get(stmt)
  for fld in ("body", "orelse", "finalbody"):
    blk = getattr(par, fld, None)
    if isinstance(blk, list) and stmt in blk:
      rest = blk[blk.index(stmt) + 1:]
      return bool(rest) and isinstance(rest[0], (ast.Break, ast.Return)) or \
          isinstance(stmt, ast.Return)
  return False


@rule("R16.23", "C16", floor=1)
def r16_23(ctx):
  """No loop keeps using list positions across a deletion from that list."""
  total = 0
  for rel in _FILES:
    mod = get_module(ctx, rel)
    for fn in [f for f in ast.walk(mod.tree) if isinstance(f, _DEFS)]:
      seen = {}
      for loop in [n for n in walk_no_nested(fn) if isinstance(n, (ast.For, ast.AsyncFor))]:
        changes = _changes(loop)
        if not changes:
          continue
        loopvars = _names(loop.target)
        derived = _derived(loop)
        for xs in sorted({c[0] for c in changes}):
          mine = [c for c in changes if c[0] == xs]
          # subscripts of xs by a position of this iteration
          uses = []
          for n in _walk_body(loop.body + loop.orelse):
            if isinstance(n, ast.Subscript) and _path(n.value) == xs:
              k = _index_kind(n.slice, loopvars, derived)
              if k is not None:
                uses.append((n, k))
          iter_names = _names(loop.iter)
          itself = xs in iter_names and not (
              isinstance(loop.iter, ast.Call) and dotted(loop.iter.func) in
              ("list", "tuple", "sorted") or isinstance(loop.iter, ast.Subscript))
          if not uses and not itself:
            continue       # the list is not addressed by this loop's positions
          total += 1
          tag = f"{fn.name}:{xs}:for({','.join(sorted(loopvars))})"
          seen[tag] = seen.get(tag, 0) + 1
          cons = tag + (f"#{seen[tag]}" if seen[tag] > 1 else "") + ":positions"
          facts = {"list": xs, "iterates": src(loop.iter)[:80],
                   "changes": sorted({f"{how} {src(i) if i is not None else ''}".strip()
                                      for _, _, i, how in mine}),
                   "indexed_by": sorted({src(n.slice) for n, _ in uses})}
          if all(_exits_after(mod, c[1], loop) for c in mine):
            facts["why"] = "the loop is left right after the change"
            ctx.ok(cons, rel, loop.lineno, facts)
            continue
          if itself:
            ctx.bad(cons, rel, mine[0][1].lineno,
                    f"{fn.name} iterates `{src(loop.iter)[:60]}` and changes `{xs}` "
                    f"structurally in the body ({facts['changes']}): the iteration "
                    "skips / repeats elements", facts)
            continue
          if any(k == "other" for _, k in uses):
            raise AnalysisError(
                f"{fn.name}: `{xs}` is changed inside a loop that indexes it with "
                f"{facts['indexed_by']}: compensated positions are not decided")
          if isinstance(loop.target, ast.Name) and \
              _descending_distinct(fn, loop.iter, loop) and \
              all(k == f"var:{loop.target.id}" for _, k in uses) and \
              all(how in ("del", ".pop()") and isinstance(i, ast.Name)
                  and i.id == loop.target.id for _, _, i, how in mine):
            facts["why"] = "distinct positions, largest first; only xs[v] is touched"
            ctx.ok(cons, rel, loop.lineno, facts)
            continue
          ctx.bad(cons, rel, mine[0][1].lineno,
                  f"{fn.name} changes `{xs}` structurally ({facts['changes'][0]}) "
                  f"inside the loop over `{src(loop.iter)[:60]}` whose positions "
                  f"{facts['indexed_by']} were computed before the loop and are "
                  "not walked largest-first over distinct values: from the second "
                  "iteration on they denote other elements (two `async for` loops "
                  "in one code object: the wrong block loses its jump / is merged "
                  "/ is deleted)", facts)
  ctx.ok("blocks+opcodes:structural-list-changes-in-position-loops", BLOCKS, 0,
         {"sites": total})


_DEL_LOOP = ("  to_delete = sorted({to_idx for _, to_idx in merge_list}, reverse=True)\n"
             "\n"
             "  for block_idx in to_delete:\n"
             "    del blocks[block_idx]\n")

VARIANTS = [
    {"name": "seeded-C16-r4m1", "rule": "R16.23",
     "patch": "seeded/C16-r4m1/patch.diff", "expect": "fire"},
    {"name": "merged-blocks-deleted-in-ascending-order", "rule": "R16.23", "file": BLOCKS,
     "expect": "fire", "old": _DEL_LOOP,
     "new": _DEL_LOOP.replace(", reverse=True)", ")")},
    {"name": "merged-blocks-deleted-with-duplicates", "rule": "R16.23", "file": BLOCKS,
     "expect": "fire", "old": _DEL_LOOP,
     "new": _DEL_LOOP.replace("sorted({to_idx for _, to_idx in merge_list}, reverse=True)",
                              "sorted([to_idx for _, to_idx in merge_list], reverse=True)")},
    {"name": "merged-block-popped-inside-the-merge-loop", "rule": "R16.23", "file": BLOCKS,
     "expect": "fire",
     "old": "    processed_blocks.add(blocks[block_idx])\n\n  to_delete",
     "new": "    processed_blocks.add(blocks[block_idx])\n"
            "    blocks.pop(block_idx_to_merge)\n\n  to_delete"},
    {"name": "blocks-removed-while-iterating-them", "rule": "R16.23", "file": BLOCKS,
     "expect": "fire", "old": _DEL_LOOP,
     "new": "  merged = {to_idx for _, to_idx in merge_list}\n"
            "  for i, block in enumerate(blocks):\n"
            "    if i in merged:\n"
            "      blocks.remove(block)\n"},
    {"name": "twin-reversed-sorted-set", "rule": "R16.23", "file": BLOCKS,
     "expect": "silent", "old": _DEL_LOOP,
     "new": "  to_delete = sorted({to_idx for _, to_idx in merge_list})\n"
            "\n"
            "  for block_idx in reversed(to_delete):\n"
            "    del blocks[block_idx]\n"},
    {"name": "twin-pop-instead-of-del", "rule": "R16.23", "file": BLOCKS,
     "expect": "silent", "old": _DEL_LOOP,
     "new": _DEL_LOOP.replace("    del blocks[block_idx]\n", "    blocks.pop(block_idx)\n")},
    {"name": "twin-set-bound-to-a-local-first", "rule": "R16.23", "file": BLOCKS,
     "expect": "silent", "old": _DEL_LOOP,
     "new": "  merged_idxs = {to_idx for _, to_idx in merge_list}\n"
            "  for dead_idx in sorted(merged_idxs, reverse=True):\n"
            "    del blocks[dead_idx]\n"},
]
