"""C01 extension: which builtin classes can have falsy instances.

R1.60  compare.compatible_with answers "always truthy" for an Instance whose
       class has `overrides_bool == False`, and the VM then *drops* the falsy
       branch of `x if v else y` / `not v` / `v and w`.  `overrides_bool` is
       computed by Class._init_overrides_bool as "some class of the MRO has
       `__bool__` or `__len__` among its own attributes" (R1.20 decides that it
       ranges over the whole MRO).  For a class of builtins.pytd the own
       attributes are the members the stub declares, so the answer for every
       user subclass `class MyInt(int)` is fixed by the stub text: if the stub
       of a builtin class declares neither `__bool__` nor `__len__` anywhere
       along its MRO while CPython's type has one of the two slots, every
       instance of a user subclass is inferred truthy and
       `r = 1 if MyInt(0) else "s"` is inferred `int` although the program
       computes "s" (D73: int/float/complex declared the Python-2 spelling
       `__nonzero__` only).

       Decided, per class of builtins.pytd that the host CPython also has as
       a builtin class (the reference is the running interpreter's `builtins`
       module, the same CPython 3.12 the bytecode tables come from):
         CPython type has `__bool__` or `__len__` in a non-object class of its
         MRO  ==>  the stub class declares `__bool__` or `__len__` in a
         non-object class of its MRO.
       Only this direction is a soundness obligation (the converse merely
       widens).  NoneType is exempt: compatible_with decides it by name before
       the flag is consulted (R1.3 covers that arm) and it cannot be
       subclassed.

       Not decided: classes of other stubs; truthiness of user classes (R1.20).
"""
import builtins as _host_builtins
import types as _host_types

from sa.core import rule, AnalysisError
from sa import stubs
from sa.pyindex import get_module, walk_no_nested
import ast

TRUTH_SLOTS = ("__bool__", "__len__")
EXEMPT = {"NoneType": "decided by name in compare.compatible_with before the flag is read; "
                      "cannot be subclassed"}


def _host_classes():
  out = {}
  for name in dir(_host_builtins):
    obj = getattr(_host_builtins, name)
    if isinstance(obj, type):
      out[name] = obj
  out["NoneType"] = type(None)
  out["function"] = _host_types.FunctionType
  return out


def _host_falsifiable(t):
  return any(s in vars(k) for k in t.__mro__ if k is not object for s in TRUTH_SLOTS)


def _flag_reads_truth_slots(ctx):
  """The anchor: _init_overrides_bool tests exactly the two slot names."""
  mod = get_module(ctx, "pytype/abstract/class_mixin.py")
  fn = mod.func("Class._init_overrides_bool")
  consts = {n.value for n in walk_no_nested(fn)
            if isinstance(n, ast.Constant) and isinstance(n.value, str)
            and n.value.startswith("__") and n.value.endswith("__")}
  return consts


@rule("R1.60", "C01", floor=60)
def r1_60(ctx):
  """A builtin class whose CPython instances can be falsy declares __bool__ or __len__ along its stub MRO."""
  slots = _flag_reads_truth_slots(ctx)
  if not set(TRUTH_SLOTS) <= slots:
    raise AnalysisError(
        "Class._init_overrides_bool no longer tests the slot names "
        f"{TRUTH_SLOTS} (found {sorted(slots)}): the falsifiability rule does not "
        "know what the flag is computed from")
  extra = slots - set(TRUTH_SLOTS)
  st = stubs.get_stubs(ctx)
  host = _host_classes()
  seen = 0
  for qual, c in sorted(st.classes.items()):
    if c.module != "builtins":
      continue
    name = qual.split(".", 1)[1]
    t = host.get(name)
    if t is None:
      continue
    seen += 1
    if name in EXEMPT:
      ctx.ok(f"{name}:exempt", stubs.BUILTINS, c.line, {"reason": EXEMPT[name]})
      continue
    want = _host_falsifiable(t)
    chain = [k for k in st.mro(c) if k.qual != "builtins.object"]
    got_in = [f"{k.qual}.{s}" for k in chain for s in sorted(set(TRUTH_SLOTS) | extra)
              if s in k.members]
    got = bool(got_in)
    ctx.check(got or not want, f"{name}:falsifiable", stubs.BUILTINS, c.line,
              f"CPython's {name} has a truth slot (__bool__/__len__) but the stub class "
              f"builtins.{name} declares neither along its MRO "
              f"({[k.qual for k in chain]}): Class._init_overrides_bool leaves "
              f"overrides_bool False for it and for every user subclass, so "
              f"compare.compatible_with answers 'always truthy' and the falsy branch of "
              f"`x if v else y` is dropped (`class S({name}): pass; v = S(); "
              f"r = 1 if v else 's'` is inferred without `str`)",
              {"cpython_falsifiable": want, "stub_declares": got_in[:4]})
  if seen < 60:
    raise AnalysisError(f"only {seen} builtin classes matched against the host interpreter")


B = stubs.BUILTINS
VARIANTS = [
    {"name": "revert-D73-int-bool", "rule": "R1.60", "file": B, "expect": "fire",
     "old": "    def __neg__(self) -> int: ...\n    def __nonzero__(self) -> bool: ...\n    def __bool__(self) -> bool: ...\n",
     "new": "    def __neg__(self) -> int: ...\n    def __nonzero__(self) -> bool: ...\n"},
    {"name": "revert-D73-complex-bool", "rule": "R1.60", "file": B, "expect": "fire",
     "old": "    def __neg__(self) -> complex: ...\n    def __nonzero__(self) -> bool: ...\n    def __bool__(self) -> bool: ...\n",
     "new": "    def __neg__(self) -> complex: ...\n    def __nonzero__(self) -> bool: ...\n"},
    {"name": "revert-D73-float-bool", "rule": "R1.60", "file": B, "expect": "fire",
     "old": "    def __neg__(self) -> float: ...\n    def __nonzero__(self) -> bool: ...\n    def __bool__(self) -> bool: ...\n",
     "new": "    def __neg__(self) -> float: ...\n"},
    {"name": "twin-bool-declares-own-bool", "rule": "R1.60", "file": B, "expect": "silent",
     "old": "class bool(int, SupportsInt, SupportsFloat):\n",
     "new": "class bool(int, SupportsInt, SupportsFloat):\n    def __bool__(self) -> bool: ...\n"},
    {"name": "twin-flag-loop-renamed", "rule": "R1.60", "file": "pytype/abstract/class_mixin.py",
     "expect": "silent",
     "old": "        if any(x in cls.get_own_attributes() for x in (\"__bool__\", \"__len__\")):",
     "new": "        if any(slot in cls.get_own_attributes() for slot in (\"__len__\", \"__bool__\")):"},
]
